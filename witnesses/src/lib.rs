//! Compile-fail witnesses for C04/R4a (DESIGN.md E3): from outside the `acb` crate a `ConstrainedDecimal`
//! can only be obtained through the checking constructor. Each witness is paired with a compiling twin that
//! differs only in the offending line, so a witness cannot "pass" merely because a path is wrong.
//! Run with `cargo +nightly test --doc` (error codes are ignored on stable).

/// W1: the tuple constructor is private.
/// ```compile_fail,E0423
/// use acb::util::decimal::GreaterEqualZeroDecimal;
/// let _x = GreaterEqualZeroDecimal(rust_decimal::Decimal::NEGATIVE_ONE, std::marker::PhantomData);
/// ```
/// twin:
/// ```
/// use acb::util::decimal::GreaterEqualZeroDecimal;
/// let _x = GreaterEqualZeroDecimal::try_from(rust_decimal::Decimal::ONE).unwrap();
/// ```
pub struct W1;

/// W2: no assignment through `Deref` (there is no `DerefMut`).
/// ```compile_fail,E0594
/// use acb::util::decimal::GreaterEqualZeroDecimal;
/// let mut x = GreaterEqualZeroDecimal::try_from(rust_decimal::Decimal::ONE).unwrap();
/// *x = rust_decimal::Decimal::NEGATIVE_ONE;
/// ```
/// twin:
/// ```
/// use acb::util::decimal::GreaterEqualZeroDecimal;
/// let mut x = GreaterEqualZeroDecimal::try_from(rust_decimal::Decimal::ONE).unwrap();
/// x = GreaterEqualZeroDecimal::zero();
/// let _ = *x;
/// ```
pub struct W2;

/// W3: the inner field is private.
/// ```compile_fail,E0616
/// use acb::util::decimal::GreaterEqualZeroDecimal;
/// let mut x = GreaterEqualZeroDecimal::try_from(rust_decimal::Decimal::ONE).unwrap();
/// x.0 = rust_decimal::Decimal::NEGATIVE_ONE;
/// ```
/// twin:
/// ```
/// use acb::util::decimal::GreaterEqualZeroDecimal;
/// let x = GreaterEqualZeroDecimal::try_from(rust_decimal::Decimal::ONE).unwrap();
/// assert!(!x.is_sign_negative());
/// ```
pub struct W3;

/// W4: a status row cannot carry a raw (possibly negative) Decimal as its balance.
/// ```compile_fail,E0308
/// use acb::portfolio::PortfolioSecurityStatus;
/// use acb::util::decimal::GreaterEqualZeroDecimal;
/// let z = GreaterEqualZeroDecimal::zero();
/// let _s = PortfolioSecurityStatus {
///     security: "FOO".to_string(),
///     share_balance: rust_decimal::Decimal::NEGATIVE_ONE,
///     all_affiliate_share_balance: z,
///     total_acb: Some(z),
/// };
/// ```
/// twin:
/// ```
/// use acb::portfolio::PortfolioSecurityStatus;
/// use acb::util::decimal::GreaterEqualZeroDecimal;
/// let z = GreaterEqualZeroDecimal::zero();
/// let _s = PortfolioSecurityStatus {
///     security: "FOO".to_string(),
///     share_balance: z,
///     all_affiliate_share_balance: z,
///     total_acb: Some(z),
/// };
/// ```
pub struct W4;
