#!/bin/bash
# Development aid: the independently produced behaviour-preserving patches (benign_ext/B*) x every registered check.
cd /verif
IDS=$(python3 -c "import json;print(' '.join(c['property_id'] for c in json.load(open('MANIFEST.json'))['checks']))")
for b in ${@:-benign_ext/B*}; do
  echo "== $b"
  SCRATCH=${SCRATCH:-/tmp/exp2} tools/try_patch.sh /verif/$b/patch.diff $IDS | grep "violation:" | cut -c1-200
done
echo "== done"
