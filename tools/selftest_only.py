#!/usr/bin/env python3
"""Development aid: run only the self-test part (mutants, seeded changes, benign patches, fixtures) of the named properties."""
import json, os, sys
V = os.path.dirname(os.path.dirname(os.path.abspath(__file__)))
sys.path.insert(0, os.path.join(V, 'lib'))
import facts, selftest
bad = 0
for pid in sys.argv[1:]:
    r = selftest.run_for(pid, facts.REPO)
    print(pid, {k: v for k, v in r.items() if k != 'failures' and not isinstance(v, (list, dict))}, flush=True)
    for f in r.get('failures', []):
        print('  FAIL', f, flush=True)
        bad += 1
sys.exit(1 if bad else 0)
