#!/usr/bin/env python3
"""Regenerates /verif/MANIFEST.json from the table below (single source of truth for the interface)."""
import json
import os

VERIF = os.path.dirname(os.path.dirname(os.path.abspath(__file__)))

PARTIAL = ('Static analysis decides only the structural clauses listed in DESIGN.md section 5.%s (each a necessary condition of the '
           'property: breaking it breaks the behaviour for some input); the remaining, value-level clauses are not decided.')

CHECKS = {
    'C01': ('other', 'per-arm def-use dependency signatures, assignment census and operator polarity over the MIR of the ledger step',
            'Decides only the structural skeleton of delta_for_tx: R1a which action arm assigns cost base / gain (a split assigns neither, only a sale realises a gain); '
            'R1b required and forbidden input fields of each assigned value (a purchase\'s cost base depends on shares, price, rate, commission, commission rate, old '
            'cost base; a sale\'s remaining cost base does not depend on price or commission); R1c add for Buy/SfLA, subtract for RoC; R1d commission x commission '
            'rate, price x transaction rate; R1e-R1g a named currency is never dropped, no clamping on the way to a cost base or gain, the validated commission (currency, rate) pair reaches the ledger unchanged. The arithmetic itself (equality with exact average-cost results to 1e-9) is NOT decided. ' + PARTIAL % 'C01'),
    'C03': ('other', 'edge-condition, insertion-index expression and loop-advance rules over the MIR of the adjustment mechanism',
            'R3a automatic SfLA rows only on the not-registered edge; R3b inserted at i+k+1 and the loop advances by one without skipping (each evaluated once, right '
            'after its sale); R3c none generated when the user supplied the loss; R3d each amount depends on the denied amount and the affiliate\'s ratio; R3e reported '
            'gain = loss - denied amount; R3f only the window computation writes the over-applied marker; R3g an empty status is handed out only for an affiliate without a recorded status; R3h the per-affiliate status store only grows. The conservation identity itself is NOT decided. ' + PARTIAL % 'C03'),
    'C02': ('other', 'constant evaluation of the window bounds and tolerance + comparison normalisation on loop-exit edges + who-uses rule over MIR',
            'R2a window = settlement date -/+ Duration::days(30) from exactly two public functions; R2b bookkeeping and summary use only those (no private date '
            'arithmetic) on Tx.settlement_date; R2c both scan loops stop strictly outside the bounds (day +-30 inclusive); R2d the specified-loss tolerance '
            'evaluates to 0.001, is strict, and applies only to un-forced values; every path accepting a supplied loss passes the check or the force marker; R2j a supplied value reaches the record whatever its amount; R2k the examination is entered exactly on the sign of the computed gain. ' + PARTIAL % 'C02'),
    'C04': ('other', 'ADT-construction closure + sibling field-use agreement over all AcbWriter impls + variant taint over MIR (+ compile-fail witnesses in thorough)',
            'R4a a ConstrainedDecimal (every balance/ACB/amount) can only be created by the checking constructor: all aggregates enumerated, no '
            'field store / &mut borrow / DerefMut-style impl / transmute / unsafe; R4b every output mode (text, CSV, web-UI serialiser) exports '
            'RenderTable.errors and the app pushes the bookkeeping error into it; R4c partial deltas of a rejected security never reach a gains or '
            'summary calculator; R4d registered affiliates never acquire a cost base or gain; R4e the post-split balance tested for integrality has no factor that is already a rounded quotient; R4f no bookkeeping product or quotient uses the pre-divided factor of a split ratio; R4g output files are opened truncating; R4h no error exit of the application is control-dependent (implicit flows included) on RenderTable.errors. ' + PARTIAL % 'C04'),
    'C05': ('other', 'abstract interpretation in a sign lattice (per generic instantiation) of every ConstrainedDecimal try_from().unwrap() and of every Decimal divisor; def-use rule parser-result -> unwrap; capture-group participation analysis of the constant regular expressions behind every required group access',
            'R5a each of the ~25 infallibility beliefs `ConstrainedDecimal::try_from(e).unwrap()` is justified by sign algebra including rounding-to-zero and quotients that round to zero (three such sites of the tree are recorded known findings), '
            'per instantiation of the generic wrappers (two sites by reviewed relational argument whose premises are re-checked); R5b no parser result on '
            'non-constant text reaches unwrap/expect, and every compiled regex pattern is constant-derived; R5c no index is bounded only by the length of a different sequence; R5d no assertion demands exact equality of a Decimal expression computed on the spot; R5e every Decimal division / remainder has a divisor that is non-zero by type, by the sign lattice or by a dominating is_zero test; R5f every capture group that is unwrapped or indexed (directly or behind helpers taking the group name) exists and is mandatory in the pattern(s), rebuilt from program constants, that produced the match. ' + PARTIAL % 'C05'),
    'C06': ('other', 'inter-procedural forward data-flow of rounded values to formatting sinks; parameter/field flow closure of the precision flag; field provenance of year keys',
            'R6a the result of every lossy Decimal operation reaches only string formatting (reviewed barriers with frozen caller sets for the '
            'effective-cent snap and spreadsheet floats); R6b the --print-full-values flag is only ever passed on to PrintHelper, whose field is '
            'read only by curr_str; R6c gains are bucketed by Date::year() of Tx.settlement_date (no other calendar accessor) and total/yearly sums add the same value; R6d no element is skipped in or dropped before the totals loops. ' + PARTIAL % 'C06'),
    'C07': ('other', 'evaluation of Ord::cmp / partial_cmp of Tx to its lexicographic chain of compared keys (through match, then/then_with, helpers); must-precede (dominator) sort-before-split; loop-carried definition of the read index; header normalisation provenance; index-stability taint',
            'R7a Tx order = (settlement_date, read_index) with read_index only on Equal; R7b sort dominates split_txs_by_security with no mutation in between '
            'and an order-preserving split; R7c the read index is carried across files and incremented per record; R7d header cells are lower-cased and '
            'trimmed before lookup and column indices are positions in the unfiltered row; R7e nothing re-orders or drops the file list between the arguments and the readers; R7f every call that arranges a sequence of Tx / TxDelta is a stable sort by that same order. ' + PARTIAL % 'C07'),
    'C08': ('other', 'loop-exit and loop-carried-state rules on per-security loops + argument provenance + global-writer census over MIR',
            'R8a no early exit from any loop driven by a security-keyed map; R8b the bookkeeping entry point gets only that security\'s '
            'rows/opening position and no &mut state; R8c no process-global mutable state beyond three reviewed statics; R8d no data-dependent state is carried from one iteration of a per-security loop to the next and per-security data is never taken by position; R8f an Affiliate is only built inside the interning table; R8g that table is keyed by the parsed id; R8h no value derived from the whole transaction list is used inside a per-security loop. ' + PARTIAL % 'C08'),
    'C09': ('proof', 'hash-iteration-order taint + sort typestate + loop effect summaries over type-checked MIR; randomness-source census',
            'Every HashMap/HashSet iterator created in any product crate is followed to its consumers; each consumer is discharged '
            '(re-keyed, sorted before use, exact reduction, per-element-key update) or reported; stdout/file sinks only (stderr sinks are '
            'reviewed table entries). With the census of other randomness sources (none reachable) this is sufficient for byte-identical '
            'output for every hash seed, under the stated trusted base.'),
    'C10': ('other', 'comparison normalisation against the shared window function, store-on-every-path rule, dependency signature of the summary purchase',
            'R10a the summarisable boundary compares settlement dates with the shared window start, strict on the summarisable side; R10b every re-emitted sale that '
            'was a superficial loss carries the computed loss explicitly and unforced; R10c the simple-summary purchase = (final balance, cost base / balance, no '
            'commission) dated at the last summarised settlement date for the given affiliate; R10d summary rows sorted with Tx\'s ordering; R10e-R10g window starts of later losses, the per-affiliate scan covers the whole range; R10h every security whose ledger was computed reaches the summary generator. The round trip itself is '
            'NOT decided. ' + PARTIAL % 'C10'),
    'C11': ('other', 'constant-set agreement between writer and reader tables + per-column field mapping agreement + field coverage over MIR',
            'R11a export list = reader set minus deprecated "date"; R11b one writer arm per exported column; R11c the reader consumes every recognised column and '
            'maps each to the field the writer prints it from; R11d every optional column has an in-use trigger guarded by that same field; R11e every CsvTx / Tx / '
            'specifics field is carried; R11f one CSV writer for transactions; R11g-R11j the writers format losslessly, a commission currency is exported whenever present, no rate is compared by value, table cells reach the record untransformed, reader and writers use the default CSV dialect; R11l the memo is written and read without any text edit. ' + PARTIAL % 'C11'),
    'C12': ('other', 'inter-procedural field provenance of the look-up date + edge conditions (is_zero, is_some, == USD) + constant evaluation of the look-back range',
            'R12a the rate look-up date derives from CsvTx.trade_date on every chain; R12b a rate from the per-year map is returned only on the non-zero edge; '
            'R12c the look-back is 7 iterations of minus one day ending in Err; R12d the loader runs only without an explicit rate and for USD; R12e the per-day map only holds loaded data; R12f the published-rate parser never compares a rate by size; R12g every downloaded observation is kept when a year is padded; R12h a rate filled into a row derives from the loader\'s answer only. ' + PARTIAL % 'C12'),
    'C13': ('other', 'who-may-call chain of the remote download + symbolic enumeration of the guard paths (memoised / has-date / downloaded-this-run) + must-follow insert',
            'R13a one download site reached through one chain, entered only when the year is not memoised or not downloaded in this run, and followed by memoising the year (<= 1 download per year per run); '
            'R13b cached rates are returned only if the cache contains the requested date or the year was downloaded in this run; R13c the cache is not read when '
            'forced; R13d the per-run memo answers a date only if it contains it or the year was downloaded in this run; R13e nothing lossy is reachable from the cache writers; R-TS no product caller of test hooks. ' + PARTIAL % 'C13'),
    'C14': ('proof', 'path taint of the live cache file name to file-system sinks + must-precede (dominator) check of create/flush/fsync/rename in write_rates',
            'The live rates-<year>.csv name reaches only read-only sinks and the destination of rename(); write_rates writes a temp file, '
            'flushes, fsyncs and renames in that order on every non-error path and discards no Result on the way; the temp file starts empty and both names are built from the same arguments in every helper. Under POSIX rename '
            'atomicity no prefix of a new cache file is ever observable under the live name, for every crash point.'),
    'C15': ('other', 'assignment census of the Split arm, dependency of the new balance, store census of the global-split expansion, scan-loop case coverage',
            'R15a the Split arm assigns neither cost base nor gain; R15b the new balance depends on the ratio and the old balance; R15c global-split expansion clones '
            'the row and overwrites the affiliate only; R15d both superficial-loss window scans apply splits; R15e keyed by the affiliate of the scanned row. The metamorphic relation between rescaled runs is NOT '
            'decided. ' + PARTIAL % 'C15'),
    'C16': ('other', 'must-precede (dominator + data dependence) of parse_initial_status before processing in each front end; use-set rule on the opening-position map',
            'R16a every front end starts processing only after, and with the Ok payload of, parse_initial_status; R16b the opening-position map is only queried with '
            'get(&current security), whose result goes to that security\'s bookkeeping call; R16c the key is the symbol as given; R16d the looked-up position is handed on unfiltered; R16e exactly three fields; R16f the status store installs a given opening position on every path. ' + PARTIAL % 'C16'),
    'C17': ('other', 'key provenance, loop must-pass-through, operator census and comparison normalisation over the cost tracker',
            'R17a days keyed by Tx.settlement_date and the observed figure is post_status.total_acb; R17b only the default non-registered affiliate counts and every '
            'skipped transaction is listed as ignored; R17c same-day observations combine by max and the row total is updated as total - old + new; R17d a day is filed '
            'under its own year and replaced only for a strictly larger total; R17e-R17h nothing is recorded before the skip filters, the carried figure is the closing cost and not the day maximum, every delta reaches the cost pass, the opening cost is recorded once; R17i the carry-forward pass visits every security and the report never defaults a missing figure. ' + PARTIAL % 'C17'),
    'C18': ('other', 'index-stability taint (length-changing adaptor before enumerate) + who-may-index rules over MIR',
            'R18a header-name->index maps are built from positions in the unfiltered header row; R18b the converter reads cells only by '
            'header name; R18c rows are indexed only with the stored index; R18d a foreign-currency trade row always gets its implicit FX leg; R18e no binary-expansion float conversion; R18f cash amounts keep their sign; R18g account text; R18h every sheet row is offered to the converter. ' + PARTIAL % 'C18'),
    'C19': ('other', 'constant + comparison normalisation of the candidate window, pool-consumption data flow, guarded-Ok rule, loop must-pass-through over the matcher',
            'R19a candidates are trades with benefit date <= trade date <= benefit date + 5 days; R19b matched trades are removed from the very pool that later '
            'candidates and the manual trades come from; R19c Ok only when no matching error was recorded; R19d one row per benefit and per left-over trade, pushed '
            'unconditionally, then sorted; R19e-R19g a benefit with sold shares is always matched, the returned set comes from the filtered candidates, every parsed entry is collected; R19h pool entries are removed by comparing whole trades; R19i the commission of a confirmation contains its commission and fee lines in every presence combination (abstract evaluation of the Option expression). The text parsers and the share-count combination search are NOT decided. ' + PARTIAL % 'C19'),
    'C20': ('other', 'sanitiser must-pass-through (provenance) + grow-only guard (edge condition) rules over MIR',
            'R20a every page-group list reaching the optimised page iterator comes from safe_page_chunks_with_remainder*; R20b the '
            'loaded-page cache is only resized under len() < new_len and never truncated; R20c-R20f a popped page is yielded, requested pages are loaded and queued unfiltered, the iterator ends only when groups are exhausted or loading failed, every page is tested for the table marker; R20g/R20h an unfinishable total-like line joins the pending security, remainder page ranges start at 1, reach the last page and are contiguous; R20i the remainder pages reach the page groups without a step that can leave pages out. ' + PARTIAL % 'C20'),
}

NOT_APPLICABLE = {
}

PENDING = 'rule set designed in DESIGN.md section 5 but not built yet in this revision; no check is registered until it is'


def main():
    ids = [json.loads(l)['id'] for l in open(os.path.join(VERIF, 'properties.jsonl'))]
    checks = []
    for pid in ids:
        if pid not in CHECKS:
            continue
        level, technique, text = CHECKS[pid]
        checks.append({
            'property_id': pid,
            'quick_cmd': './check %s --tier quick' % pid,
            'thorough_cmd': './check %s --tier thorough' % pid,
            'evidence_file': 'evidence/%s.json' % pid,
            'replay_cmd_template': './check %s --replay {path}' % pid,
            'engine': 'acbdrv+rules',
            'level_claimed': {'category': level, 'text': text, 'design_ref': 'DESIGN.md section 5.%s' % pid},
            'level_note': 'Trusted: rustc nightly MIR construction and trait resolution for the same sources the stable build compiles; '
                          'the std/dependency callee models listed in the rule module; reviewed table entries in rules/ (each one key, '
                          'one reason). Quick analyses the default-feature workspace (lib, 6 bins, acb_wasm); thorough adds the wasm-only '
                          'and all-features configurations and the checker self-test (seeded mutants must be reported, benign variants not).',
            'technique': technique,
        })
    na = []
    for pid in ids:
        if pid in CHECKS:
            continue
        na.append({'property_id': pid, 'reason': NOT_APPLICABLE.get(pid, PENDING)})
    m = {
        'version': 1,
        'setup_cmd': './setup.sh',
        'hooks': {
            'guard': 'none',
            'enable': 'no hooks: the analysis reads the unmodified sources of /repo (cargo +nightly check with the acbdrv driver as RUSTC_WORKSPACE_WRAPPER)',
            'baseline_off_cmd': 'cd /repo && cargo test --workspace --no-fail-fast --offline',
            'source_commits': [],
            'add_only': True,
        },
        'engines': [
            {'name': 'acbdrv', 'path': 'tools/acbdrv', 'serves_properties': sorted(CHECKS),
             'kind_free_text': 'rustc_private driver exporting MIR-lite facts (resolved callees, typed locals, CFG) for every body of every product crate'},
            {'name': 'rules', 'path': 'lib', 'serves_properties': sorted(CHECKS),
             'kind_free_text': 'Python rule library: dominators, loops, provenance slices, taint, typestate, effect summaries; one module per property under lib/props'},
        ],
        'checks': checks,
        'not_applicable': na,
        'notes': 'Static analysis only. Twelve genuine defects found by the rules were repaired in /repo by separate "fix:" commits; see known_findings.json and DESIGN.md section 7.',
    }
    with open(os.path.join(VERIF, 'MANIFEST.json'), 'w') as f:
        json.dump(m, f, indent=1)
    print('MANIFEST.json: %d checks, %d not applicable' % (len(checks), len(na)))


if __name__ == '__main__':
    main()
