#!/usr/bin/env python3
"""Generates the checker self-test patches under /verif/mutants from the edit specs below.

Every mutant is a small source edit that compiles and that a specific rule must report (naming the mutated
instance); every benign variant is a behaviour-preserving rewrite on which all rules must stay silent.
Run after a change to /repo that makes a stored patch stop applying:  python3 tools/mk_mutants.py
"""
import json
import os
import shutil
import subprocess
import sys
import tempfile

VERIF = os.path.dirname(os.path.dirname(os.path.abspath(__file__)))
REPO = os.environ.get('ACB_REPO', '/repo')

# name -> (property, [expected key substrings], [(file, old, new)])
MUTANTS = {
    # ------------------------------------------------------------------ C01
    'c01_buy_drops_commission': ('C01', ['cost-base-inputs|Buy'], [
        ('src/portfolio/bookkeeping/delta_list.rs', '                ) + (buy_specs.commission\n                    * buy_specs.commission_currency_and_rate().exchange_rate.into());', '                );')]),
    'c01_commission_at_tx_rate': ('C01', ['commission-times-commission-rate|Buy'], [
        ('src/portfolio/bookkeeping/delta_list.rs', '                ) + (buy_specs.commission\n                    * buy_specs.commission_currency_and_rate().exchange_rate.into());',
         '                ) + (buy_specs.commission\n                    * buy_specs.tx_currency_and_rate.exchange_rate.into());')]),
    'c01_roc_adds': ('C01', ['old-cost-base-combined-by|Roc'], [
        ('src/portfolio/bookkeeping/delta_list.rs', 'GreaterEqualZeroDecimal::try_from(*old_acb - *acb_reduction)', 'GreaterEqualZeroDecimal::try_from(*old_acb + *acb_reduction)')]),
    'c01_sell_acb_includes_commission': ('C01', ['cost-base-excluded-inputs|Sell'], [
        ('src/portfolio/bookkeeping/delta_list.rs', '                new_acb_total = Some(new_share_balance * acb_per_share);', '                new_acb_total = Some(new_share_balance * acb_per_share + sell_specs.commission);')]),
    'c01_split_changes_acb': ('C01', ['cost-base-changed-by-buy-sell-roc-sfla-only'], [
        ('src/portfolio/bookkeeping/delta_list.rs', '            let share_diff = *new_share_balance - *pre_tx_status.share_balance;', '            new_acb_total = pre_tx_status.total_acb.map(|a| a * split_specs.ratio.pre_to_post_factor().into());\n            let share_diff = *new_share_balance - *pre_tx_status.share_balance;')]),
    # ------------------------------------------------------------------ C03
    'c03_sfla_for_registered': ('C03', ['sfla-only-for-non-registered'], [
        ('src/portfolio/bookkeeping/delta_list.rs', '            if !ratio_of_sfl.numerator.is_zero() && !af.registered() {', '            if !ratio_of_sfl.numerator.is_zero() {')]),
    'c03_insert_off_by_one': ('C03', ['inserted-directly-after-the-sale'], [
        ('src/portfolio/bookkeeping/delta_list.rs', 'some_modified_txs.insert(i + new_tx_i + 1, new_tx);', 'some_modified_txs.insert(i + new_tx_i, new_tx);')]),
    'c03_gain_plus_sfl': ('C03', ['reported-gain-is-loss-minus-denied-amount'], [
        ('src/portfolio/bookkeeping/delta_list.rs', 'Some(*cap_loss - *delta_sfl_info.superficial_loss);', 'Some(*cap_loss + *delta_sfl_info.superficial_loss);')]),
    'c03_amount_ignores_ratio': ('C03', ['sfla-amount-inputs'], [
        ('src/portfolio/bookkeeping/delta_list.rs', '                        amount_per_share: NegDecimal::neg_1()\n                            * calculated_sfl_amount\n                            * af_ratio_posdecimal,',
         '                        amount_per_share: NegDecimal::neg_1() * calculated_sfl_amount,')]),
    # ------------------------------------------------------------------ C15
    'c15_split_scales_acb': ('C15', ['split-arm-leaves-cost-base-and-gain-untouched'], [
        ('src/portfolio/bookkeeping/delta_list.rs', '            let share_diff = *new_share_balance - *pre_tx_status.share_balance;', '            new_acb_total = pre_tx_status.total_acb.map(|a| a * split_specs.ratio.pre_to_post_factor().into());\n            let share_diff = *new_share_balance - *pre_tx_status.share_balance;')]),
    'c15_expansion_rewrites_memo': ('C15', ['expansion-changes-affiliate-only'], [
        ('src/portfolio/splits.rs', '                new_split.affiliate = affiliate.clone();', '                new_split.affiliate = affiliate.clone();\n                new_split.read_index = 0;')]),
    'c15_backward_scan_ignores_split': ('C15', ['both-window-scans-apply-splits'], [
        ('src/portfolio/bookkeeping/superficial_loss.rs', '            TxActionSpecifics::Split(split) => {\n                // Adjustment goes forwards in time for txs before the sale.\n                let new_split_adjustment = split_adjustment\n                    * split.ratio.post_split\n                    / split.ratio.pre_split;\n                af_split_adjustments.insert(before_tx_affil, new_split_adjustment);\n            }\n            // ignored\n            TxActionSpecifics::Sell(_)',
         '            // ignored\n            TxActionSpecifics::Split(_)\n            | TxActionSpecifics::Sell(_)')]),
    # ------------------------------------------------------------------ C10
    'c10_boundary_le': ('C10', ['window-boundary'], [
        ('src/portfolio/summary.rs', '            if delta.tx.settlement_date < first_superficial_loss_period_day {', '            if delta.tx.settlement_date <= first_superficial_loss_period_day {')]),
    'c10_reemitted_loss_forced': ('C10', ['re-emitted-sale-carries-computed-loss'], [
        ('src/portfolio/summary.rs', '                            force: false,\n                        });\n                    }\n                    _ => {\n                        panic!(', '                            force: true,\n                        });\n                    }\n                    _ => {\n                        panic!(')]),
    'c10_summary_dated_by_trade_date': ('C10', ['simple-summary-purchase'], [
        ('src/portfolio/summary.rs', '            trade_date: tx.settlement_date,\n            settlement_date: tx.settlement_date,\n            action_specifics: super::TxActionSpecifics::Buy(super::BuyTxSpecifics {\n                shares: share_balance,',
         '            trade_date: tx.trade_date,\n            settlement_date: tx.settlement_date,\n            action_specifics: super::TxActionSpecifics::Buy(super::BuyTxSpecifics {\n                shares: share_balance,')]),
    'c10_summary_price_is_total': ('C10', ['simple-summary-purchase'], [
        ('src/portfolio/summary.rs', '                    Some(total_acb) => total_acb.div(share_balance),\n                    None => GreaterEqualZeroDecimal::zero(),\n                },\n                commission: GreaterEqualZeroDecimal::zero(),\n                tx_currency_and_rate: CurrencyAndExchangeRate::default(),\n                separate_commission_currency: None,\n            }),\n            memo: "Summary".to_string(),',
         '                    Some(total_acb) => total_acb,\n                    None => GreaterEqualZeroDecimal::zero(),\n                },\n                commission: GreaterEqualZeroDecimal::zero(),\n                tx_currency_and_rate: CurrencyAndExchangeRate::default(),\n                separate_commission_currency: None,\n            }),\n            memo: "Summary".to_string(),')]),
    # ------------------------------------------------------------------ C17
    'c17_keyed_by_trade_date': ('C17', ['days-keyed-by-settlement-date'], [
        ('src/portfolio/bookkeeping/costs.rs', '        let date_from_delta = d.tx.settlement_date;', '        let date_from_delta = d.tx.trade_date;')]),
    'c17_observes_pre_status': ('C17', ['observed-figure-is-post-status-cost-base'], [
        ('src/portfolio/bookkeeping/costs.rs', '        let total_acb = match d.post_status.total_acb {', '        let total_acb = match d.pre_status.total_acb {')]),
    'c17_silent_skip': ('C17', ['skipped-transactions-are-listed'], [
        ('src/portfolio/bookkeeping/costs.rs', '            let af_name = d.tx.affiliate.name();\n            ignored_delta_descs.push(format!(\n                "{date_from_delta} ({sec}) ignored transaction from non-default affiliate {af_name}"));\n            continue;', '            continue;')]),
    'c17_min_instead_of_max': ('C17', ['same-day-observations-combine-by-max'], [
        ('src/portfolio/bookkeeping/costs.rs', 'GreaterEqualZeroDecimal::try_from(old_day_max_cost.max(*new_cost))', 'GreaterEqualZeroDecimal::try_from(old_day_max_cost.min(*new_cost))')]),
    'c17_yearly_ties_move': ('C17', ['replace-only-for-strictly-larger-total'], [
        ('src/portfolio/bookkeeping/costs.rs', '                if *old_date_cost.total < *day_cost.total {', '                if *old_date_cost.total <= *day_cost.total {')]),
    # ------------------------------------------------------------------ C19
    'c19_six_day_window': ('C19', ['five-day-window'], [
        ('src/peripheral/etrade_plan_pdf_tx_extract_impl.rs', 'benefit.acquire_tx_date.saturating_add(time::Duration::days(5));', 'benefit.acquire_tx_date.saturating_add(time::Duration::days(6));')]),
    'c19_window_exclusive': ('C19', ['window-inclusive-on-trade-dates'], [
        ('src/peripheral/etrade_plan_pdf_tx_extract_impl.rs', '                && trade.trade_date <= latest_day', '                && trade.trade_date < latest_day')]),
    'c19_candidates_from_all_trades': ('C19', ['matched-trades-leave-the-shared-pool'], [
        ('src/peripheral/etrade_plan_pdf_tx_extract_impl.rs', '        for trade in &leftover_trade_confs {\n            if trade.action == TxAction::Sell', '        for trade in &trade_confs {\n            if trade.action == TxAction::Sell')]),
    'c19_errors_ignored': ('C19', ['unmatched-sell-to-cover-is-an-error'], [
        ('src/peripheral/etrade_plan_pdf_tx_extract_impl.rs', '    if errors.is_empty() {\n        let bat = BenefitsAndTrades {', '    if errors.is_empty() || !warnings.is_empty() {\n        let bat = BenefitsAndTrades {')]),
    'c19_zero_share_trades_dropped': ('C19', ['every-left-over-trade-yields-a-row'], [
        ('src/peripheral/etrade_plan_pdf_tx_extract_impl.rs', '        let mut tx: CsvTx = trade.clone().into();', '        if trade.num_shares.is_zero() {\n            continue;\n        }\n        let mut tx: CsvTx = trade.clone().into();')]),
    # ------------------------------------------------------------------ C02
    'c02_window_31': ('C02', ['last-day-is-30-days'], [
        ('src/portfolio/bookkeeping/superficial_loss.rs', 'settlement_date.saturating_add(Duration::days(30))', 'settlement_date.saturating_add(Duration::days(31))')]),
    'c02_forward_scan_ge': ('C02', ['scan-upper-bound'], [
        ('src/portfolio/bookkeeping/superficial_loss.rs', 'if after_tx.settlement_date > last_bad_buy_date {', 'if after_tx.settlement_date >= last_bad_buy_date {')]),
    'c02_backward_scan_trade_date': ('C02', ['scan-lower-bound'], [
        ('src/portfolio/bookkeeping/superficial_loss.rs', 'if before_tx.settlement_date < first_bad_buy_date {', 'if before_tx.trade_date < first_bad_buy_date {')]),
    'c02_tolerance_001': ('C02', ['tolerance|value'], [
        ('src/portfolio/bookkeeping/delta_list.rs', 'rust_decimal_macros::dec!(0.001);', 'rust_decimal_macros::dec!(0.01);')]),
    'c02_tolerance_applies_when_forced': ('C02', ['only-when-not-forced'], [
        ('src/portfolio/bookkeeping/delta_list.rs', '        if !specified_sfl.force {\n            // Perform validation', '        if !specified_sfl.force || tx.memo.is_empty() {\n            // Perform validation')]),
    'c02_force_skips_no_loss_rejection': ('C02', ['force-only-affects-the-discrepancy-check'], [
        ('src/portfolio/bookkeeping/delta_list.rs', '                } else if sell_specs.specified_superficial_loss.is_some() {', '                } else if sell_specs.specified_superficial_loss.as_ref().map(|s| !s.force).unwrap_or(false) {')]),
    # ------------------------------------------------------------------ C04
    'c04_registered_gets_gain': ('C04', ['R4d'], [
        ('src/portfolio/bookkeeping/delta_list.rs', '            // NOTE: commission plays no effect on sell order ACB\n', '            // NOTE: commission plays no effect on sell order ACB\n            capital_gains = Some(Decimal::ZERO);\n')]),
    'c04_zero_from_negative_one': ('C04', ['GreaterEqualZero>::zero|construct'], [
        ('src/util/decimal.rs', 'impl ConstrainedDecimal<GreaterEqualZero> {\n    pub fn zero() -> Self {\n        Self(Decimal::ZERO, PhantomData)',
         'impl ConstrainedDecimal<GreaterEqualZero> {\n    pub fn zero() -> Self {\n        Self(Decimal::NEGATIVE_ONE, PhantomData)')]),
    'c04_derefmut': ('C04', ['impl|std::ops::DerefMut'], [
        ('src/util/decimal.rs', 'impl<CONSTRAINT: DecConstraint> Display for ConstrainedDecimal<CONSTRAINT> {',
         'impl<CONSTRAINT: DecConstraint> std::ops::DerefMut for ConstrainedDecimal<CONSTRAINT> {\n    fn deref_mut(&mut self) -> &mut Decimal {\n        &mut self.0\n    }\n}\n\nimpl<CONSTRAINT: DecConstraint> Display for ConstrainedDecimal<CONSTRAINT> {')]),
    'c04_gains_from_partial_deltas': ('C04', ['R4c|app::approot::get_cumulative_capital_gains'], [
        ('src/app/approot.rs', '        if let Ok(deltas) = &deltas_res.0 {\n            security_gains\n                .insert(sec.clone(), calc_security_cumulative_capital_gains(deltas));\n        }',
         '        let deltas = deltas_res.deltas_or_partial_deltas();\n        security_gains\n            .insert(sec.clone(), calc_security_cumulative_capital_gains(deltas));')]),
    'c04_csv_drops_errors': ('C04', ['CsvWriter', 'reads-all-fields'], [
        ('src/app/outfmt/csv.rs', '        for err in &table_model.errors {\n            let mut err_record = Vec::<String>::with_capacity(n_cols);\n            err_record.resize(n_cols, String::new());\n            err_record[0] = format!("[!] {}", err);\n            csv_w.write_record(err_record).map_err(|e| e.to_string())?;\n        }\n', '')]),
    'c04_err_msg_not_attached': ('C04', ['err_msg-pushed-to-table-errors'], [
        ('src/app/approot.rs', '            table_model.errors.push(e.err_msg.clone());', '            tracing::warn!("{}", e.err_msg);')]),
    'c04_split_factor_first': ('C04', ['R4e|split-balance-exact-when-whole'], [
        ('src/portfolio/bookkeeping/delta_list.rs', '            new_share_balance = (pre_tx_status.share_balance\n                * split_specs.ratio.post_split.into())\n            .div(split_specs.ratio.pre_split);',
         '            new_share_balance = pre_tx_status.share_balance\n                * split_specs.ratio.pre_to_post_factor().into();')]),
    'c04_split_adjustment_by_rounded_factor': ('C04', ['R4f|portfolio::bookkeeping::superficial_loss::get_superficial_loss_info'], [
        ('src/portfolio/bookkeeping/superficial_loss.rs', '                let new_split_adjustment = split_adjustment\n                    * split.ratio.pre_split\n                    / split.ratio.post_split;', '                let new_split_adjustment =\n                    split_adjustment / split.ratio.pre_to_post_factor();')]),
    # ------------------------------------------------------------------ C05
    'c05_exact_decimal_assert': ('C05', ['R5d|portfolio::bookkeeping::portfolio_status::AffiliatePortfolioSecurityStatuses::set_latest_post_status'], [
        ('src/portfolio/bookkeeping/portfolio_status.rs', '        assert!(all_share_bal_diff < rust_decimal_macros::dec!(0.0000000001),', '        assert!(all_share_bal_diff == rust_decimal::Decimal::ZERO,')]),
    'c05_parallel_vectors_indexed': ('C05', ['R5c|peripheral::broker::etrade::parse_eso_data'], [
        ('src/peripheral/broker/etrade.rs', '    for (((((_, num), fmv), shares), s_price), fee) in grant_indicies\n        .iter()\n        .zip(grant_numbers)\n        .zip(grant_exercise_fmvs)\n        .zip(grant_shares_exercised)\n        .zip(grant_sale_prices)\n        .zip(grant_fees)\n    {\n        grants.push(EsoGrantData {\n            grant_number: num,\n            exercise_fmv: fmv,\n            shares_exercised: shares,\n            sale_price: s_price,\n            fee: fee,\n        });',
         '    for i in 0..grant_indicies.len() {\n        grants.push(EsoGrantData {\n            grant_number: grant_numbers[i],\n            exercise_fmv: grant_exercise_fmvs[i],\n            shares_exercised: grant_shares_exercised[i],\n            sale_price: grant_sale_prices[i],\n            fee: grant_fees[i],\n        });')]),
    'c05_round_in_neg': ('C05', ['c_maybe_round_to_effective_cent', 'T=Neg'], [
        ('src/portfolio/bookkeeping/delta_list.rs', '        Some(sfl) => c_maybe_round_to_effective_cent(LessEqualZeroDecimal::from(\n            cap_loss.mul_pos(sfl.sfl_ratio.to_posdecimal()),\n        )),',
         '        Some(sfl) => LessEqualZeroDecimal::from(c_maybe_round_to_effective_cent(\n            cap_loss.mul_pos(sfl.sfl_ratio.to_posdecimal()),\n        )),')]),
    'c05_unwrap_from_str': ('C05', ['R5b|app::input_parse::parse_initial_status'], [
        ('src/app/input_parse.rs', '        let shares = Decimal::from_str(&shares_str)\n            .map_err(|e| format!("Invalid shares format \'{shares_str}\'. {e}"))?;',
         '        let shares = Decimal::from_str(&shares_str).unwrap();')]),
    'c05_gez_add_typo': ('C05', ['ops::Add>::add|unwrap<GreaterEqualZero>'], [
        ('src/util/decimal.rs', '        // GEZ + GEZ will never violate its own constraint\n        GreaterEqualZeroDecimal::try_from(*self + *rhs).unwrap()',
         '        // GEZ + GEZ will never violate its own constraint\n        GreaterEqualZeroDecimal::try_from(*self - *rhs).unwrap()')]),
    'c05_drop_nonzero_guard': ('C05', ['@sfl_validation|unwrap<Pos>'], [
        ('src/portfolio/bookkeeping/delta_list.rs', '            if !ratio_of_sfl.numerator.is_zero() && !af.registered() {', '            if !af.registered() {')]),
    'c05_fxt_zero_division': ('C05', ['FxTracker::add_fxt_row|division#1|divisor-is-not-zero'], [
        ('src/peripheral/broker/fx_tracker.rs', 'if other_fxt.amount.is_zero() {', 'if other_fxt.amount.is_sign_negative() && other_fxt.amount.is_sign_positive() {')]),
    'c05_etrade_zero_division': ('C05', ['find_sell_to_cover_trade_set|division#1|divisor-is-not-zero'], [
        ('src/peripheral/etrade_plan_pdf_tx_extract_impl.rs', 'let avg_price = if total_shares.is_zero() {', 'let avg_price = if total_val.is_zero() {')]),
    'c05_optional_group_required': ('C05', ['parse_pre_ms_2023_trade_confirmations|required-group|commission'], [
        ('src/peripheral/broker/etrade.rs', 'commission: h.opt_dec_group("commission")?.unwrap_or(Decimal::ZERO)\n                + h.opt_dec_group("fee")?.unwrap_or(Decimal::ZERO),\n            currency: crate::portfolio::Currency::usd(),\n            memo: String::new(),\n            exchange_rate: None,\n            affiliate: crate::portfolio::Affiliate::default(),\n            row_num: (i + 1)',
         'commission: h.dec_group("commission")?\n                + h.opt_dec_group("fee")?.unwrap_or(Decimal::ZERO),\n            currency: crate::portfolio::Currency::usd(),\n            memo: String::new(),\n            exchange_rate: None,\n            affiliate: crate::portfolio::Affiliate::default(),\n            row_num: (i + 1)')]),
    'c05_group_made_optional': ('C05', ['SplitRatio::parse|required-group|2'], [
        ('src/portfolio/model/tx.rs', 'r"^\\s*([\\d\\.]+)-for-([\\d\\.]+)\\s*$"', 'r"^\\s*([\\d\\.]+)(?:-for-([\\d\\.]+))?\\s*$"')]),
    'c05_pattern_hole_with_alternation': ('C05', ['search_for_rows|required-group|rowvalue1'], [
        ('src/peripheral/broker/etrade.rs', 'search_for_dec_rows("Comission/Fee", true, body)?', 'search_for_dec_rows("Comission/Fee|Commission/Fee", true, body)?')]),
    # ------------------------------------------------------------------ C06
    'c06_trade_year': ('C06', ['R6c|portfolio::cumulative_gains::calc_security_cumulative_capital_gains|year'], [
        ('src/portfolio/cumulative_gains.rs', 'let year = d.tx.settlement_date.year();', 'let year = d.tx.trade_date.year();')]),
    'c06_round_feeds_back': ('C06', ['R6a|portfolio::cumulative_gains::calc_security_cumulative_capital_gains'], [
        ('src/portfolio/cumulative_gains.rs', 'capital_gains_total += cap_gain;', 'capital_gains_total += crate::util::math::round_to_cent(cap_gain);')]),
    'c06_flag_branches': ('C06', ['R6b|app::approot::run_acb_app_to_render_model'], [
        ('src/app/approot.rs', '    let default_gains = CumulativeCapitalGains::default();\n', '    let default_gains = CumulativeCapitalGains::default();\n    if render_full_dollar_values {\n        tracing::info!("full values");\n    }\n')]),
    # ------------------------------------------------------------------ C07
    'c07_files_sorted': ('C07', ['files-read-in-the-order-given'], [
        ('src/cmd.rs', '    for csv_name in args.csv_files {', '    let mut csv_files = args.csv_files;\n    csv_files.sort();\n    for csv_name in csv_files {')]),
    'c07_order_by_trade_date': ('C07', ['order-key-fields'], [
        ('src/portfolio/model/tx.rs', 'impl PartialOrd for Tx {\n    fn partial_cmp(&self, other: &Self) -> Option<std::cmp::Ordering> {\n        let date_cmp = self.settlement_date.cmp(&other.settlement_date);',
         'impl PartialOrd for Tx {\n    fn partial_cmp(&self, other: &Self) -> Option<std::cmp::Ordering> {\n        let date_cmp = self.trade_date.cmp(&other.trade_date);')]),
    'c07_no_tie_break': ('C07', ['order-key-fields'], [
        ('src/portfolio/model/tx.rs', '                Some(self.read_index.cmp(&other.read_index))\n            }\n        }\n    }\n}\n\nimpl Ord for Tx {', '                Some(date_cmp)\n            }\n        }\n    }\n}\n\nimpl Ord for Tx {')]),
    'c07_no_sort': ('C07', ['sort-dominates-split'], [
        ('src/app/approot.rs', '    all_txs.sort();\n', '')]),
    'c07_index_not_advanced': ('C07', ['read-index-carried'], [
        ('src/app/approot.rs', '        global_read_index += txs.len() as u32;', '        let _ = txs.len();')]),
    'c07_no_trim': ('C07', ['header-normalised'], [
        ('src/portfolio/io/tx_csv.rs', 'let san_col = lower_col.trim();', 'let san_col = lower_col.as_str();')]),
    'c07_filter_before_enumerate': ('C07', ['R7d|portfolio::io::tx_csv::parse_tx_csv|enumerate'], [
        ('src/portfolio/io/tx_csv.rs', 'for (i, col_val) in record.iter().enumerate() {', 'for (i, col_val) in record.iter().filter(|c| !c.is_empty()).enumerate() {')]),
    'c07_index_shifted': ('C07', ['same-index-stored-and-fetched'], [
        ('src/portfolio/io/tx_csv.rs', 'match col_index_to_name.get(&i) {', 'match col_index_to_name.get(&(i + 1)) {')]),
    # ------------------------------------------------------------------ C08
    'c08_split_error_aborts': ('C08', ['R8a|app::approot::run_acb_app_to_delta_models'], [
        ('src/app/approot.rs', '        if let Err(e) =\n            crate::portfolio::splits::replace_global_security_splits(&mut sec_txs)\n        {\n            delta_results.insert(\n                sec,\n                DeltaListResult(Err(TxDeltaListError::new(Vec::new(), e))),\n            );\n            continue;\n        }',
         '        crate::portfolio::splits::replace_global_security_splits(&mut sec_txs)?;'),
        ('src/app/approot.rs', 'bookkeeping::{txs_to_delta_list, DeltaListResult, TxDeltaListError},', 'bookkeeping::{txs_to_delta_list, DeltaListResult},')]),
    'c08_break_on_first_error': ('C08', ['R8a|app::approot::get_cumulative_capital_gains'], [
        ('src/app/approot.rs', '        if let Ok(deltas) = &deltas_res.0 {\n            security_gains\n                .insert(sec.clone(), calc_security_cumulative_capital_gains(deltas));\n        }',
         '        let Ok(deltas) = &deltas_res.0 else {\n            break;\n        };\n        security_gains\n            .insert(sec.clone(), calc_security_cumulative_capital_gains(deltas));')]),
    # ------------------------------------------------------------------ C09
    'c09_first_key_taken': ('C09', ['app::approot::write_render_result|consume|take'], [
        ('src/app/approot.rs', '    let mut secs_with_errors = Vec::<Security>::new();\n    for sec in &secs {', '    let lead: usize = sec_render_tables.keys().take(1).map(|k| k.len()).sum();\n    tracing::trace!("{}", secs.len());\n    println!("{lead}");\n    let mut secs_with_errors = Vec::<Security>::new();\n    for sec in &secs {')]),
    'c09_sort_by_length_only': ('C09', ['app::approot::write_render_result'], [
        ('src/app/approot.rs', '    secs.sort();\n\n    let mut secs_with_errors', '    secs.sort_by_key(|s| s.len());\n\n    let mut secs_with_errors')]),
    'c09_unsorted_split_expansion': ('C09', ['portfolio::splits::replace_global_security_splits'], [
        ('src/portfolio/splits.rs', '    non_global_affiliates.sort_by(|a, b| a.id().cmp(b.id()));\n', '')]),
    'c09_sum_over_values': ('C09', ['portfolio::cumulative_gains::calc_cumulative_capital_gains'], [
        ('src/portfolio/cumulative_gains.rs', '    let mut sorted_secs: Vec<&Security> = sec_gains.keys().collect();\n    sorted_secs.sort();\n    for sec in sorted_secs {\n        let gains = &sec_gains[sec];\n', '    for gains in sec_gains.values() {\n')]),
    'c09_tie_by_hash_order': ('C09', ['portfolio::bookkeeping::costs::calc_yearly_max_cost_day'], [
        ('src/portfolio/bookkeeping/costs.rs', '    let mut sorted_days: Vec<&Date> = max_day_costs.max_costs_by_day.keys().collect();\n    sorted_days.sort();\n    for day in sorted_days {\n        let day_cost = &max_day_costs.max_costs_by_day[day];\n',
         '    for (day, day_cost) in &max_day_costs.max_costs_by_day {\n')]),
    'c09_incomplete_sort_key': ('C09', ['portfolio::splits::replace_global_security_splits'], [
        ('src/portfolio/splits.rs', '    non_global_affiliates.sort_by(|a, b| a.id().cmp(b.id()));', '    non_global_affiliates.sort_by_key(|af| !af.is_default());')]),
    'c09_new_hash_loop_push': ('C09', ['app::approot::write_render_result'], [
        ('src/app/approot.rs', '    let mut secs: Vec<Security> = sec_render_tables.keys().cloned().collect();\n    secs.sort();\n',
         '    let mut secs: Vec<Security> = Vec::new();\n    for (k, _v) in sec_render_tables {\n        secs.push(k.clone());\n    }\n')]),
    # ------------------------------------------------------------------ C11
    'c11_wrong_trigger_field': ('C11', ['trigger-guard|split ratio'], [
        ('src/portfolio/io/tx_csv.rs', '        if tx.stock_split_ratio.is_some() {\n            optional_cols_in_use.insert(CsvCol::SPLIT_RATIO);',
         '        if tx.specified_superficial_loss.is_some() {\n            optional_cols_in_use.insert(CsvCol::SPLIT_RATIO);')]),
    'c11_writer_prints_other_field': ('C11', ['writer-and-reader-map-columns-to-the-same-field'], [
        ('src/portfolio/io/tx_csv.rs', '                CsvCol::TX_FX => tx\n                    .tx_curr_to_local_exchange_rate', '                CsvCol::TX_FX => tx\n                    .commission_curr_to_local_exchange_rate')]),
    'c11_reader_drops_column': ('C11', ['reader-consumes-every-recognised-column'], [
        ('src/portfolio/io/tx_csv.rs', '        memo: match values.remove(CsvCol::MEMO) {\n            Some(s) => Some(s),\n            None => None,\n        },', '        memo: None,')]),
    # ------------------------------------------------------------------ C12
    'c12_commission_rate_by_settlement': ('C12', ['rate-date'], [
        ('src/portfolio/io/tx_loader.rs', '        let c_loaded_rate = load_rate_if_needed(\n            trade_date,', '        let c_loaded_rate = load_rate_if_needed(\n            tx.settlement_date.as_ref().unwrap_or(trade_date),')]),
    'c12_eight_days': ('C12', ['seven-iterations'], [
        ('src/fx/io/rate_loader.rs', 'for _ in 0..7 {', 'for _ in 0..=7 {')]),
    'c12_zero_rate_returned': ('C12', ['map-rate-returned'], [
        ('src/fx/io/rate_loader.rs', '            if rate.foreign_to_local_rate.is_zero() {\n                Ok(None)\n            } else {\n                Ok(Some(rate.clone()))\n            }', '            Ok(Some(rate.clone()))')]),
    'c12_explicit_rate_ignored': ('C12', ['loader-only-for-usd-without-rate'], [
        ('src/portfolio/io/tx_loader.rs', '    if provided_rate.is_some() {\n        return Ok(None);\n    }', '    if provided_rate.is_some() && curr.is_none() {\n        return Ok(None);\n    }')]),
    # ------------------------------------------------------------------ C13
    'c13_no_year_memo_guard': ('C13', ['download-guarded-by-year-memo'], [
        ('src/fx/io/rate_loader.rs', '        if need_load {\n            debug!(', '        if need_load || self.force_download {\n            debug!(')]),
    'c13_memo_trusted_without_date_check': ('C13', ['R13d|@rate_lookup|memo-answer'], [
        ('src/fx/io/rate_loader.rs', '            Some(rates) => {\n                !rates.contains_key(&trade_date)\n                    && !self.fresh_loaded_years.contains(&year)\n            }', '            Some(_) => false,')]),
    'c13_redownload_for_every_missing_date': ('C13', ['download-guarded-by-year-memo'], [
        ('src/fx/io/rate_loader.rs', '                !rates.contains_key(&trade_date)\n                    && !self.fresh_loaded_years.contains(&year)', '                !rates.contains_key(&trade_date)')]),
    'c13_cache_accepted_unconditionally': ('C13', ['cache-accepted'], [
        ('src/fx/io/rate_loader.rs', '                            if rates_map.contains_key(target_date) {\n                                return Ok(rates_map);\n                            }',
         '                            if !rates_map.is_empty() {\n                                return Ok(rates_map);\n                            }')]),
    'c13_cache_read_when_forced': ('C13', ['not-when-forced'], [
        ('src/fx/io/rate_loader.rs', '        if !self.force_download {\n            // Try the cache', '        if !self.force_download || self.fresh_loaded_years.contains(&year) {\n            // Try the cache')]),
    # ------------------------------------------------------------------ C14
    'c14_in_place_write': ('C14', ['R14a|fx::io::rates_cache::csv::open_rates_csv_file_write'], [
        ('src/fx/io/rates_cache.rs', '        let tmp_file_path = rates_csv_tmp_file_path(dir_path, year);\n        crate::util::os::mk_writable_dir(dir_path).map_err(|e| e.to_string())?;\n        File::create(tmp_file_path).map_err(|e| e.to_string())',
         '        let tmp_file_path = rates_csv_file_path(dir_path, year);\n        crate::util::os::mk_writable_dir(dir_path).map_err(|e| e.to_string())?;\n        File::create(tmp_file_path).map_err(|e| e.to_string())')]),
    'c14_no_fsync': ('C14', ['sync-before-rename'], [
        ('src/fx/io/rates_cache.rs', '        let file = csv_w.into_inner().map_err(|e| e.to_string())?;\n        file.sync_all().map_err(|e| e.to_string())?;\n', '        let _file = csv_w.into_inner().map_err(|e| e.to_string())?;\n')]),
    'c14_sync_result_discarded': ('C14', ['sync_all-result-used'], [
        ('src/fx/io/rates_cache.rs', '        file.sync_all().map_err(|e| e.to_string())?;', '        let _ = file.sync_all();')]),
    'c14_rename_before_sync': ('C14', ['sync-before-rename'], [
        ('src/fx/io/rates_cache.rs', '        let file = csv_w.into_inner().map_err(|e| e.to_string())?;\n        file.sync_all().map_err(|e| e.to_string())?;\n        std::fs::rename(\n            rates_csv_tmp_file_path(dir_path, year),\n            rates_csv_file_path(dir_path, year),\n        )\n        .map_err(|e| e.to_string())',
         '        let file = csv_w.into_inner().map_err(|e| e.to_string())?;\n        std::fs::rename(\n            rates_csv_tmp_file_path(dir_path, year),\n            rates_csv_file_path(dir_path, year),\n        )\n        .map_err(|e| e.to_string())?;\n        file.sync_all().map_err(|e| e.to_string())')]),
    # ------------------------------------------------------------------ C16
    'c16_map_iterated': ('C16', ['R16b|app::approot::run_acb_app_to_delta_models'], [
        ('src/app/approot.rs', '        let sec_init_status =\n            all_init_status.get(&sec).map(|o| std::rc::Rc::new(o.clone()));',
         '        let sec_init_status =\n            all_init_status.values().next().map(|o| std::rc::Rc::new(o.clone()));')]),
    'c16_parse_result_ignored': ('C16', ['parse-before-processing'], [
        ('src/cmd.rs', '    let all_init_status = match parse_initial_status(&args.symbol_base) {\n        Ok(v) => v,\n        Err(e) => {\n            write_errln!(err_printer, "Error parsing --symbol-base: {e}");\n            return Err(ExitCode::FAILURE);\n        }\n    };',
         '    let all_init_status = match parse_initial_status(&args.symbol_base) {\n        Ok(v) => v,\n        Err(e) => {\n            write_errln!(err_printer, "Error parsing --symbol-base: {e}");\n            std::collections::HashMap::new()\n        }\n    };')]),
    # ------------------------------------------------------------------ C18
    'c18_filter_then_enumerate': ('C18', ['R18a|peripheral::excel::read_sheet_header'], [
        ('src/peripheral/excel.rs', '    Ok(HashMap::from_iter(first_row.into_iter().enumerate().filter_map(\n        |(i, cell)| match cell {\n            DataType::String(s) => Some((s.clone(), i)),\n            _ => None,\n        },\n    )))',
         '    Ok(HashMap::from_iter(\n        first_row\n            .into_iter()\n            .filter_map(|cell| match cell {\n                DataType::String(s) => Some(s.clone()),\n                _ => None,\n            })\n            .enumerate()\n            .map(|(i, v)| (v, i)),\n    ))')]),
    'c18_positional_cell': ('C18', ['R18b'], [
        ('src/peripheral/broker/questrade.rs', '            let action_str_raw = reader.get_str("Action")?;', '            let action_str_raw = match &row[2] {\n                office::DataType::String(s) => s.clone(),\n                _ => reader.get_str("Action")?,\n            };')]),
    # ------------------------------------------------------------------ C20
    'c20_shrinking_resize': ('C20', ['R20b|peripheral::pdf::LazyPageTextVec::load_pages|resize'], [
        ('src/peripheral/pdf.rs', '                    if self.page_texts.len() < page_num_as_index + 1 {\n                        self.page_texts.resize(page_num_as_index + 1, None);\n                    }', '                    self.page_texts.resize(page_num_as_index + 1, None);')]),
    'c20_unsanitised_hints': ('C20', ['R20a'], [
        ('src/peripheral/questrade_statement_fmv_impl.rs', '    let page_iter = lazy_pages.optimized_iter(page_groups);', '    let _ = page_groups;\n    let page_iter = lazy_pages.optimized_iter(vec![vec![1u32, 2u32], vec![3u32]]);')]),
}

# behaviour-preserving rewrites: no rule may fire on any of them (applied all together in one scratch copy)
BENIGN = {
    'benign_all': [
        # rename a private function and a local that are not anchors
        ('src/portfolio/bookkeeping/costs.rs', 'fn calc_yearly_max_cost_day(', 'fn yearly_max_cost_day(' ),
        ('src/portfolio/bookkeeping/costs.rs', 'calc_yearly_max_cost_day(&max_day_costs)', 'yearly_max_cost_day(&max_day_costs)'),
        # sort -> sort_unstable on a vector of distinct keys
        ('src/app/approot.rs', '    secs.sort();\n', '    secs.sort_unstable();\n'),
        # a > b  ->  !(a <= b) at the window test
        ('src/portfolio/bookkeeping/superficial_loss.rs', 'if after_tx.settlement_date > last_bad_buy_date {', 'if !(after_tx.settlement_date <= last_bad_buy_date) {'),
        # b < a instead of a > b at the tolerance test
        ('src/portfolio/bookkeeping/delta_list.rs', 'if sfl_diff > MAX_DIFF {', 'if MAX_DIFF < sfl_diff {'),
        # HashMap -> BTreeMap for a local accumulator that is re-keyed
        ('src/portfolio/cumulative_gains.rs', '    let mut sorted_secs: Vec<&Security> = sec_gains.keys().collect();\n    sorted_secs.sort();\n    for sec in sorted_secs {',
         '    let sorted_secs: std::collections::BTreeSet<&Security> = sec_gains.keys().collect();\n    for sec in sorted_secs {'),
        # reorder two independent statements
        ('src/app/approot.rs', '    let mut all_deltas = Vec::<TxDelta>::new();\n    let mut sec_render_tables = HashMap::new();\n', '    let mut sec_render_tables = HashMap::new();\n    let mut all_deltas = Vec::<TxDelta>::new();\n'),
        # the guard written the other way round
        ('src/peripheral/pdf.rs', 'if self.page_texts.len() < page_num_as_index + 1 {', 'if page_num_as_index + 1 > self.page_texts.len() {'),
        # explicit match instead of `?` after the fsync
        ('src/fx/io/rates_cache.rs', '        file.sync_all().map_err(|e| e.to_string())?;', '        if let Err(e) = file.sync_all() {\n            return Err(e.to_string());\n        }'),
        # extract the per-record cell loop key into a local
        ('src/portfolio/io/tx_csv.rs', '        let lower_col = col.to_lowercase();\n        let san_col = lower_col.trim();', '        let lowered = col.to_lowercase();\n        let san_col = lowered.trim();'),
        # 1..=7 instead of 0..7
        ('src/fx/io/rate_loader.rs', 'for _ in 0..7 {', 'for _ in 1..=7 {'),
        # eq instead of ne for the USD test
        ('src/portfolio/io/tx_loader.rs', '            if *c != Currency::usd() {', '            if !(*c == Currency::usd()) {'),
    ],
}


def apply_edits(root, edits):
    for e in edits:
        f, old, new = e[0], e[1], e[2]
        every = len(e) > 3 and e[3] == 'all'
        p = os.path.join(root, f)
        s = open(p).read()
        if every:
            if s.count(old) < 1:
                raise RuntimeError('%s: pattern not found: %r' % (f, old[:60]))
        elif s.count(old) != 1:
            raise RuntimeError('%s: pattern occurs %d times: %r' % (f, s.count(old), old[:60]))
        open(p, 'w').write(s.replace(old, new))


# second benign patch: renames of every private function a rule could be tempted to anchor on, and structural rewrites
BENIGN['benign_refactor'] = [
    ('src/portfolio/bookkeeping/delta_list.rs', 'delta_for_tx', 'ledger_step_for_tx', 'all'),
    ('src/portfolio/bookkeeping/delta_list.rs', 'get_delta_superficial_loss_info', 'sfl_info_for_delta', 'all'),
    ('src/portfolio/bookkeeping/superficial_loss.rs', 'get_superficial_loss_info', 'scan_sfl_window', 'all'),
    ('src/portfolio/io/tx_csv.rs', 'csvtx_from_csv_values', 'csvtx_from_values', 'all'),
    ('src/fx/io/rate_loader.rs', 'get_exact_usd_cad_rate', 'exact_rate_for_day', 'all'),
    ('src/fx/io/rates_cache.rs', 'commit_rates_csv_file', 'finish_rates_file', 'all'),
    ('src/fx/io/rates_cache.rs', 'rates_csv_file_path', 'live_rates_path', 'all'),
    ('src/peripheral/excel.rs', 'read_sheet_header', 'header_index_map', 'all'),
    # Tx's own ordering spelled out as a comparator
    ('src/app/approot.rs', '    all_txs.sort();\n', '    all_txs.sort_by(|a, b| a.cmp(b));\n'),
    # explicit into_iter on the per-security map
    ('src/app/approot.rs', '    for (sec, mut sec_txs) in txs_by_sec {', '    for (sec, mut sec_txs) in txs_by_sec.into_iter() {'),
    # loop instead of iterator chain for the header map (same indices)
    ('src/peripheral/excel.rs', '    Ok(HashMap::from_iter(first_row.into_iter().enumerate().filter_map(\n        |(i, cell)| match cell {\n            DataType::String(s) => Some((s.clone(), i)),\n            _ => None,\n        },\n    )))',
     '    let mut map = HashMap::new();\n    for (i, cell) in first_row.iter().enumerate() {\n        if let DataType::String(s) = cell {\n            map.insert(s.clone(), i);\n        }\n    }\n    Ok(map)'),
    # temp file opened with OpenOptions instead of File::create
    ('src/fx/io/rates_cache.rs', '        File::create(tmp_file_path).map_err(|e| e.to_string())', '        File::options()\n            .write(true)\n            .create(true)\n            .truncate(true)\n            .open(tmp_file_path)\n            .map_err(|e| e.to_string())'),
    # two writer arms swapped
    ('src/portfolio/io/tx_csv.rs', '                CsvCol::SECURITY => tx.security.clone().unwrap_or_else(empty),\n', ''),
    ('src/portfolio/io/tx_csv.rs', '                CsvCol::MEMO => tx.memo.clone().unwrap_or_else(empty),\n', '                CsvCol::MEMO => tx.memo.clone().unwrap_or_else(empty),\n                CsvCol::SECURITY => tx.security.clone().unwrap_or_else(empty),\n'),
    # cache-acceptance conditions in the other order
    ('src/fx/io/rate_loader.rs', '                        if rates_are_fresh {\n                            return Ok(rates_map);\n                        } else {\n                            // Check for cache invalidation.\n                            if rates_map.contains_key(target_date) {\n                                return Ok(rates_map);\n                            }\n                        }',
     '                        if rates_map.contains_key(target_date) || rates_are_fresh {\n                            return Ok(rates_map);\n                        }'),
    # commission term first in the purchase cost
    ('src/portfolio/bookkeeping/delta_list.rs', '                new_acb_total = Some(old_acb + total_price);', '                new_acb_total = Some(total_price + old_acb);'),
    # explicit copy of the cost base in the split arm (no change)
    ('src/portfolio/bookkeeping/delta_list.rs', '            let share_diff = *new_share_balance - *pre_tx_status.share_balance;', '            new_acb_total = pre_tx_status.total_acb;\n            let share_diff = *new_share_balance - *pre_tx_status.share_balance;'),
]


# third benign patch: helper extraction, inlining, renames of fields / consts / private async fns, reordered output loops
BENIGN['benign_restructure'] = [
    # per-security body extracted into a helper
    ('src/app/approot.rs', """    for (sec, mut sec_txs) in txs_by_sec {
        // An invalid split layout is an error of this security only. Report it
        // against the security, and keep processing the others.
        if let Err(e) =
            crate::portfolio::splits::replace_global_security_splits(&mut sec_txs)
        {
            delta_results.insert(
                sec,
                DeltaListResult(Err(TxDeltaListError::new(Vec::new(), e))),
            );
            continue;
        }

        let sec_init_status =
            all_init_status.get(&sec).map(|o| std::rc::Rc::new(o.clone()));

        let deltas_res = txs_to_delta_list(&sec_txs, sec_init_status);
        delta_results.insert(sec, deltas_res);
    }
""", """    for (sec, sec_txs) in txs_by_sec {
        let deltas_res = deltas_for_security(&sec, sec_txs, &all_init_status);
        delta_results.insert(sec, deltas_res);
    }
"""),
    ('src/app/approot.rs', "struct AllCumulativeCapitalGains {", """fn deltas_for_security(
    sec: &Security,
    mut sec_txs: Vec<Tx>,
    all_init_status: &HashMap<Security, PortfolioSecurityStatus>,
) -> DeltaListResult {
    if let Err(e) =
        crate::portfolio::splits::replace_global_security_splits(&mut sec_txs)
    {
        return DeltaListResult(Err(TxDeltaListError::new(Vec::new(), e)));
    }
    let sec_init_status =
        all_init_status.get(sec).map(|o| std::rc::Rc::new(o.clone()));
    txs_to_delta_list(&sec_txs, sec_init_status)
}

struct AllCumulativeCapitalGains {"""),
    # commit helper inlined into write_rates
    ('src/fx/io/rates_cache.rs', "            let r = commit_rates_csv_file(csv_w, &self.dir_path, year);", """            let r = (|| -> Result<(), SError> {
                let file = csv_w.into_inner().map_err(|e| e.to_string())?;
                file.sync_all().map_err(|e| e.to_string())?;
                std::fs::rename(
                    rates_csv_tmp_file_path(&self.dir_path, year),
                    rates_csv_file_path(&self.dir_path, year),
                )
                .map_err(|e| e.to_string())
            })();"""),
    ('src/fx/io/rates_cache.rs', """    /// Flushes and syncs the temporary file, then atomically moves it over the
    /// live cache file.
    fn commit_rates_csv_file(
        csv_w: csv::Writer<File>,
        dir_path: &std::path::Path,
        year: u32,
    ) -> Result<(), SError> {
        let file = csv_w.into_inner().map_err(|e| e.to_string())?;
        file.sync_all().map_err(|e| e.to_string())?;
        std::fs::rename(
            rates_csv_tmp_file_path(dir_path, year),
            rates_csv_file_path(dir_path, year),
        )
        .map_err(|e| e.to_string())
    }
""", ""),
    # renames: formatter method and flag field, tolerance constant, private async functions, reader field
    ('src/portfolio/render.rs', 'curr_str', 'currency_text', 'all'),
    ('src/portfolio/render.rs', 'print_all_decimals', 'full_precision', 'all'),
    ('src/portfolio/bookkeeping/delta_list.rs', 'MAX_DIFF', 'SFL_TOLERANCE', 'all'),
    ('src/fx/io/rate_loader.rs', 'find_usd_cad_preceding_relevant_spot_rate', 'look_back_for_rate', 'all'),
    ('src/fx/io/rate_loader.rs', 'fetch_usd_cad_rates_for_date_year', 'rates_for_year_of', 'all'),
    ('src/peripheral/excel.rs', 'col_name_to_index', 'columns', 'all'),
    ('src/portfolio/io/tx_csv.rs', 'optional_cols_in_use', 'used_optional', 'all'),
    # sorted key set via BTreeSet
    ('src/app/approot.rs', '    let mut secs: Vec<Security> = sec_render_tables.keys().cloned().collect();\n    secs.sort();\n', '    let secs: std::collections::BTreeSet<Security> = sec_render_tables.keys().cloned().collect();\n'),
]


# fourth benign patch: the modules behind the late claims (summary, costs, E*TRADE matcher, ledger locals)
# behaviour-preserving rewrites around the rules added in the second seeding round
BENIGN['benign_round2'] = [
    # R11h: match -> as_ref().map()
    ('src/portfolio/model/tx.rs', '        tx.commission_currency = match &c.separate_commission_currency {\n            Some(c_a_r) => Some(c_a_r.currency.clone()),\n            None => None,\n        };',
     '        tx.commission_currency =\n            c.separate_commission_currency.as_ref().map(|c_a_r| c_a_r.currency.clone());'),
    # R1g: an extra clone of the validated pair
    ('src/portfolio/model/tx.rs', '        separate_commission_currency: comm_curr_and_rate,\n    };\n    Ok(specifics)', '        separate_commission_currency: comm_curr_and_rate.clone(),\n    };\n    Ok(specifics)'),
    # R11j / R4b: records written through a helper that does not touch the cells
    ('src/app/outfmt/csv.rs', 'impl CsvWriter {\n    pub fn new_to_output_dir', 'fn write_cells<W: std::io::Write>(\n    csv_w: &mut csv::Writer<W>,\n    cells: &[String],\n) -> Result<(), super::model::Error> {\n    csv_w.write_record(cells).map_err(|e| e.to_string())\n}\n\nimpl CsvWriter {\n    pub fn new_to_output_dir'),
    ('src/app/outfmt/csv.rs', '        csv_w.write_record(&table_model.header).map_err(|e| e.to_string())?;\n        for row in &table_model.rows {\n            csv_w.write_record(row).map_err(|e| e.to_string())?;\n        }',
     '        write_cells(&mut csv_w, &table_model.header)?;\n        for row in &table_model.rows {\n            write_cells(&mut csv_w, row)?;\n        }'),
    ('src/app/outfmt/csv.rs', '            err_record[0] = format!("[!] {}", err);\n            csv_w.write_record(err_record).map_err(|e| e.to_string())?;', '            err_record[0] = format!("[!] {}", err);\n            write_cells(&mut csv_w, &err_record)?;'),
    # R3g: closure form of the None arm
    ('src/portfolio/bookkeeping/portfolio_status.rs', '        match self.get_latest_post_status_for_affiliate(&self.latest_affiliate) {\n            Some(s) => s.clone(),\n            None => Rc::new(\n                self.make_default_portfolio_security_status(&self.latest_affiliate),\n            ),\n        }',
     '        self.get_latest_post_status_for_affiliate(&self.latest_affiliate)\n            .cloned()\n            .unwrap_or_else(|| {\n                Rc::new(self.make_default_portfolio_security_status(&self.latest_affiliate))\n            })'),
    # R7e: the file list bound to a local first
    ('src/cmd.rs', '    for csv_name in args.csv_files {', '    let csv_files = args.csv_files;\n    for csv_name in csv_files.into_iter() {'),
    # R17g: extend instead of collect + append
    ('src/app/approot.rs', '        let mut deltas_copy = deltas.iter().cloned().collect();\n        all_deltas.append(&mut deltas_copy);', '        all_deltas.extend(deltas.iter().cloned());'),
    # R17h: entry API for the opening cost
    ('src/portfolio/bookkeeping/costs.rs', '        if !day_zero_sec_costs.contains_key(sec) {\n            day_zero_sec_costs.insert(\n                sec.clone(),\n                (date_from_delta, d.pre_status.total_acb.unwrap()),\n            );\n        } else if day_zero_sec_costs.get(sec).unwrap().0 > date_from_delta {\n            panic!("Deltas for {sec} were not sorted by settlement date");\n        }',
     '        let first_seen = day_zero_sec_costs\n            .entry(sec.clone())\n            .or_insert((date_from_delta, d.pre_status.total_acb.unwrap()));\n        if first_seen.0 > date_from_delta {\n            panic!("Deltas for {sec} were not sorted by settlement date");\n        }'),
    # R19g: extend instead of append
    ('src/peripheral/etrade_plan_pdf_tx_extract_impl.rs', '                trade_confs.append(&mut txs);', '                trade_confs.extend(txs.drain(..));'),
    # R20e: copied() instead of map(|pn| *pn)
    ('src/peripheral/pdf.rs', '                self.unyielded_pages = group_pages.iter().map(|pn| *pn).collect();', '                self.unyielded_pages = group_pages.iter().copied().collect();'),
    # R13a / R13d: the reload test written with if-let and ||
    ('src/fx/io/rate_loader.rs', '        let need_load = match self.year_rates.get(&year) {\n            None => true,\n            Some(rates) => {\n                !rates.contains_key(&trade_date)\n                    && !self.fresh_loaded_years.contains(&year)\n            }\n        };',
     '        let need_load = if let Some(rates) = self.year_rates.get(&year) {\n            !(rates.contains_key(&trade_date)\n                || self.fresh_loaded_years.contains(&year))\n        } else {\n            true\n        };'),
    # R4e: operands bound to locals first
    ('src/portfolio/bookkeeping/delta_list.rs', '            new_share_balance = (pre_tx_status.share_balance\n                * split_specs.ratio.post_split.into())\n            .div(split_specs.ratio.pre_split);',
     '            let post_split = split_specs.ratio.post_split;\n            let pre_split = split_specs.ratio.pre_split;\n            let scaled_up = pre_tx_status.share_balance * post_split.into();\n            new_share_balance = scaled_up.div(pre_split);'),
    # R5d: the tolerance comparison the other way round
    ('src/portfolio/bookkeeping/portfolio_status.rs', '        assert!(all_share_bal_diff < rust_decimal_macros::dec!(0.0000000001),', '        assert!(rust_decimal_macros::dec!(0.0000000001) > all_share_bal_diff,'),
    # R18d: the currency test bound to a local
    ('src/peripheral/broker/questrade.rs', '            if !b_tx.currency.is_default() {\n                fx_tracker.add_implicit_fxt(&b_tx)?;\n            }', '            let is_foreign = !b_tx.currency.is_default();\n            if is_foreign {\n                fx_tracker.add_implicit_fxt(&b_tx)?;\n            }'),
    # R16d: cloned().map(Rc::new)
    ('src/app/approot.rs', '            all_init_status.get(&sec).map(|o| std::rc::Rc::new(o.clone()));', '            all_init_status.get(&sec).cloned().map(std::rc::Rc::new);'),
    # R5c: an iterator loop rewritten as an index loop over the same vector
    ('src/app/approot.rs', '    for sec in &secs {\n        let render_table = sec_render_tables.get(sec).unwrap();', '    for sec_i in 0..secs.len() {\n        let sec = &secs[sec_i];\n        let render_table = sec_render_tables.get(sec).unwrap();'),
    # R9: an integer count accumulated over a hash map, and a set of lengths
    ('src/app/approot.rs', '    let mut secs: Vec<Security> = sec_render_tables.keys().cloned().collect();\n    secs.sort();',
     '    let mut secs: Vec<Security> = sec_render_tables.keys().cloned().collect();\n    secs.sort();\n    let mut n_rows = 0usize;\n    for t in sec_render_tables.values() {\n        n_rows += t.rows.len();\n    }\n    tracing::debug!("{} rows in {} tables", n_rows, secs.len());'),
]

BENIGN['benign_late'] = [
    ('src/portfolio/summary.rs', 'make_simple_summary_txs', 'simple_summary_rows', 'all'),
    ('src/portfolio/summary.rs', 'get_summary_range_delta_indicies', 'summary_ranges_for', 'all'),
    ('src/portfolio/summary.rs', 'make_annual_gains_summary_txs', 'annual_summary_rows', 'all'),
    ('src/portfolio/summary.rs', '                latest_in_summary_date >= first_superficial_loss_period_day;', '                first_superficial_loss_period_day <= latest_in_summary_date;'),
    ('src/portfolio/summary.rs', '            if delta.tx.settlement_date < first_superficial_loss_period_day {', '            if first_superficial_loss_period_day > delta.tx.settlement_date {'),
    ('src/portfolio/bookkeeping/costs.rs', 'observe_new_cost', 'observe', 'all'),
    ('src/portfolio/bookkeeping/costs.rs', 'calc_max_day_cost_per_sec', 'per_day_costs', 'all'),
    ('src/portfolio/bookkeeping/costs.rs', 'ignored_delta_descs', 'ignored_notes', 'all'),
    ('src/portfolio/bookkeeping/costs.rs', '                if *old_date_cost.total < *day_cost.total {', '                if *day_cost.total > *old_date_cost.total {'),
    ('src/peripheral/etrade_plan_pdf_tx_extract_impl.rs', 'amend_benefit_sales', 'match_benefit_sales', 'all'),
    ('src/peripheral/etrade_plan_pdf_tx_extract_impl.rs', 'find_sell_to_cover_trade_set', 'find_trade_set', 'all'),
    ('src/peripheral/etrade_plan_pdf_tx_extract_impl.rs', 'leftover_trade_confs', 'pool', 'all'),
    ('src/peripheral/etrade_plan_pdf_tx_extract_impl.rs', '                && benefit.acquire_tx_date <= trade.trade_date\n                && trade.trade_date <= latest_day', '                && trade.trade_date >= benefit.acquire_tx_date\n                && latest_day >= trade.trade_date'),
    ('src/portfolio/bookkeeping/delta_list.rs', 'new_acb_total', 'acb_after', 'all'),
    ('src/portfolio/bookkeeping/delta_list.rs', 'capital_gains', 'realised', 'all'),
    ('src/portfolio/bookkeeping/delta_list.rs', 'txs_to_inject', 'generated', 'all'),
    ('src/portfolio/bookkeeping/delta_list.rs', '            if !ratio_of_sfl.numerator.is_zero() && !af.registered() {', '            if !af.registered() && !ratio_of_sfl.numerator.is_zero() {'),
    ('src/portfolio/bookkeeping/delta_list.rs', 'some_modified_txs.insert(i + new_tx_i + 1, new_tx);', 'some_modified_txs.insert(1 + i + new_tx_i, new_tx);'),
    ('src/portfolio/splits.rs', '                let mut new_split = global_split.clone();\n                new_split.affiliate = affiliate.clone();\n                sorted_security_txs.insert(idx, new_split);', '                let mut per_affiliate = global_split.clone();\n                per_affiliate.affiliate = affiliate.clone();\n                sorted_security_txs.insert(idx, per_affiliate);'),
]


def make_patch(edits):
    tmp = tempfile.mkdtemp(prefix='acbverif-mk-')
    try:
        subprocess.check_call(['git', '-C', REPO, 'worktree', 'add', '-f', '--detach', tmp, 'HEAD'], stdout=subprocess.DEVNULL, stderr=subprocess.DEVNULL)
        apply_edits(tmp, edits)
        diff = subprocess.check_output(['git', '-C', tmp, 'diff'], text=True)
        return diff
    finally:
        subprocess.call(['git', '-C', REPO, 'worktree', 'remove', '--force', tmp], stdout=subprocess.DEVNULL, stderr=subprocess.DEVNULL)
        shutil.rmtree(tmp, ignore_errors=True)


def main():
    out = os.path.join(VERIF, 'mutants')
    os.makedirs(out, exist_ok=True)
    index = {'mutants': {}, 'benign': {}}
    failed = []
    for name, (pid, expect, edits) in sorted(MUTANTS.items()):
        try:
            diff = make_patch(edits)
        except Exception as e:
            failed.append('%s: %s' % (name, e))
            continue
        with open(os.path.join(out, name + '.patch'), 'w') as f:
            f.write(diff)
        index['mutants'][name] = {'property': pid, 'expect_key_substrings': expect, 'files': sorted({e[0] for e in edits})}
    for name, edits in sorted(BENIGN.items()):
        try:
            diff = make_patch(edits)
        except Exception as e:
            failed.append('%s: %s' % (name, e))
            continue
        with open(os.path.join(out, name + '.patch'), 'w') as f:
            f.write(diff)
        index['benign'][name] = {'edits': len(edits), 'files': sorted({e[0] for e in edits})}
    with open(os.path.join(out, 'index.json'), 'w') as f:
        json.dump(index, f, indent=1)
    print('%d mutants, %d benign patches written; %d failed' % (len(index['mutants']), len(index['benign']), len(failed)))
    for x in failed:
        print('  FAILED', x)
    return 1 if failed else 0


if __name__ == '__main__':
    sys.exit(main())
