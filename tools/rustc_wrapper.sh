#!/bin/bash
# RUSTC_WRAPPER: rustix 0.37 enables nightly-only code that no longer builds; force its stable code path.
if [ "$CARGO_PKG_NAME" = "rustix" ]; then
  args=(); prev=""
  for a in "$@"; do
    if [ "$prev" = "--cfg" ]; then
      case "$a" in rustc_attrs|core_intrinsics|doc_cfg|asm_experimental_arch|core_ffi_c|core_c_str|alloc_c_string|const_raw_ptr_deref)
        unset 'args[${#args[@]}-1]'; prev=""; continue;; esac
    fi
    args+=("$a"); prev="$a"
  done
  exec "${args[@]}" -Zallow-features=
fi
exec "$@"
