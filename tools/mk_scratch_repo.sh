#!/bin/sh
# usage: mk_scratch_repo.sh <dir> <benign_ext id>
# An independent scratch git repository (not a worktree of /repo: nothing is written into /repo/.git) holding /repo's HEAD tree as
# commit 1 and the same tree with the behaviour-preserving patch benign_ext/<id> applied as commit 2 (HEAD). Seeded-defect agents
# work on HEAD; the combined change against /repo is `git diff <commit 1>`.
set -e
D="$1"; B="$2"
rm -rf "$D"; mkdir -p "$D"
git -C /repo archive HEAD | tar -x -C "$D"
cd "$D"
git init -q .
git add -A >/dev/null
git -c user.name=scratch -c user.email=scratch@example.invalid commit -q -m "base (repo HEAD)"
git tag base
patch -p1 -s < /verif/benign_ext/$B/patch.diff
git add -A >/dev/null
git -c user.name=scratch -c user.email=scratch@example.invalid commit -q -m "tidy-up"
cp -r /repo/target "$D/target"
printf 'target\n_seed\n_tmp\n' >> .git/info/exclude
mkdir -p _seed _tmp
echo "$D ready ($(git log --oneline | wc -l) commits)"
