#!/bin/sh
# usage: mk_scratch_plain.sh <dir>
# An independent scratch git repository holding /repo's HEAD tree (tag `base`), with a warm target directory; for the agents that write
# behaviour-preserving patches (benign_ext). Nothing is written into /repo/.git.
set -e
D="$1"
rm -rf "$D"; mkdir -p "$D"
git -C /repo archive HEAD | tar -x -C "$D"
cd "$D"
git init -q .
git add -A >/dev/null
git -c user.name=scratch -c user.email=scratch@example.invalid commit -q -m "base (repo HEAD)"
git tag base
cp -r /repo/target "$D/target"
printf 'target\n_seed\n_tmp\n' >> .git/info/exclude
mkdir -p _seed/1 _tmp
echo "$D ready"
