#!/usr/bin/env python3
"""Development aid: for the named seeds (default: all), apply patch.diff to a scratch copy of /repo and confirm that each check named in
meta.json `caught_by` reports a violation whose key contains the recorded substring."""
import json, os, subprocess, sys
V = os.path.dirname(os.path.dirname(os.path.abspath(__file__)))
S = os.environ.get('SCRATCH', '/tmp/exp')
ids = sys.argv[1:] or sorted(os.listdir(os.path.join(V, 'seeded')))
bad = 0
for sid in ids:
    d = os.path.join(V, 'seeded', sid)
    m = json.load(open(os.path.join(d, 'meta.json')))
    if not m.get('caught_by'):
        print(sid, 'not expected to be caught'); continue
    subprocess.run(['rsync', '-a', '--delete', '--exclude', 'target', '--exclude', '.git', '/repo/', S + '/'], check=True)
    p = subprocess.run('cd %s && patch -p1 -s --fuzz=3 < %s/patch.diff' % (S, d), shell=True)
    if p.returncode != 0:
        print(sid, 'PATCH DOES NOT APPLY'); bad += 1; continue
    for pid, subs in m['caught_by'].items():
        out = subprocess.run([os.path.join(V, 'check'), pid, '--no-evidence', '--no-selftest', '--repo', S], capture_output=True, text=True).stdout
        keys = [l.strip() for l in out.splitlines() if 'violation:' in l]
        for sub in subs:
            ok = any(sub in k for k in keys)
            print(sid, pid, 'OK ' if ok else 'MISSING', sub, '' if ok else keys[:3], flush=True)
            bad += 0 if ok else 1
subprocess.run(['rsync', '-a', '--delete', '--exclude', 'target', '--exclude', '.git', '/repo/', S + '/'], check=True)
sys.exit(1 if bad else 0)
