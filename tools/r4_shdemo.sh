#!/bin/bash
# usage: r4_shdemo.sh <scratch repo> <n> <script name> [args]  — runs a shell demonstration of a seed with and without the patch
D="$1"; N="$2"; S="$3"; shift 3
cd "$D" || exit 2
export TMPDIR="$D/_tmp"; mkdir -p "$TMPDIR"
P="_seed/$N/patch.on_refactored.diff"; [ -f "$P" ] || P="_seed/$N/patch.diff"
git checkout -q -- . ; git apply "$P" || exit 2
cargo build --offline --workspace 2>&1 | tail -1
echo "== demo WITH patch"; bash "_seed/$N/$S" "$@" 2>&1 | tail -6; echo "rc=$?"
git checkout -q -- . ; cargo build --offline --workspace 2>&1 | tail -1
echo "== demo WITHOUT patch"; bash "_seed/$N/$S" "$@" 2>&1 | tail -4; echo "rc=$?"
