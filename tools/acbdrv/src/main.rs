// acbdrv — exports "MIR-lite" facts (one JSON line per body + one meta line per crate)
// for the static rules under /verif/lib. Injected as RUSTC_WORKSPACE_WRAPPER under
// `cargo +nightly check`; reads tcx.mir_promoted (pre-borrowck-steal MIR, natural CFG).
#![feature(rustc_private)]
extern crate rustc_abi;
extern crate rustc_driver;
extern crate rustc_hir;
extern crate rustc_interface;
extern crate rustc_middle;
extern crate rustc_session;
extern crate rustc_span;

use rustc_driver::Compilation;
use rustc_hir::def::DefKind;
use rustc_middle::mir::{
    self, Operand, Place, ProjectionElem, Rvalue, StatementKind, TerminatorKind,
};
use rustc_middle::ty::print::with_no_trimmed_paths as wntp;
use rustc_middle::ty::print::with_no_visible_paths;

// stable printing: untrimmed def paths, no re-export ("visible") paths for items of other crates
macro_rules! with_no_trimmed_paths {
    ($e:expr) => {
        wntp!($e)
    };
}

/// def path of an item: items of the `acb` library seen from another crate are printed by their
/// definition path (not through `pub use` re-exports) so that they match the library's own facts.
fn dps<'tcx>(tcx: TyCtxt<'tcx>, did: rustc_hir::def_id::DefId) -> String {
    if !did.is_local() && tcx.crate_name(did.krate).as_str() == "acb" {
        with_no_visible_paths!(wntp!(tcx.def_path_str(did)))
    } else {
        wntp!(tcx.def_path_str(did))
    }
}
use rustc_middle::ty::{self, TyCtxt};
use rustc_span::hygiene::ExpnKind;
use std::fmt::Write as _;
use std::io::Write;

struct Cb;

fn esc(s: &str) -> String {
    let mut o = String::with_capacity(s.len() + 2);
    for c in s.chars() {
        match c {
            '"' => o.push_str("\\\""),
            '\\' => o.push_str("\\\\"),
            '\n' => o.push_str("\\n"),
            '\t' => o.push_str("\\t"),
            '\r' => o.push_str("\\r"),
            c if (c as u32) < 0x20 => {
                let _ = write!(o, "\\u{:04x}", c as u32);
            }
            c => o.push(c),
        }
    }
    o
}

fn place_json<'tcx>(tcx: TyCtxt<'tcx>, body: &mir::Body<'tcx>, p: &Place<'tcx>) -> String {
    let mut projs: Vec<String> = Vec::new();
    let mut cur_ty = mir::PlaceTy::from_ty(body.local_decls[p.local].ty);
    for elem in p.projection.iter() {
        let s = match elem {
            ProjectionElem::Deref => "\"*\"".to_string(),
            ProjectionElem::Field(f, _) => {
                let mut name = format!("{}", f.index());
                let mut owner = String::new();
                if let ty::Adt(adt, _) = cur_ty.ty.kind() {
                    let vidx = cur_ty.variant_index.unwrap_or(rustc_abi::FIRST_VARIANT);
                    if adt.is_enum() || adt.is_struct() || adt.is_union() {
                        let v = adt.variant(vidx);
                        if f.index() < v.fields.len() {
                            name = v.fields[f].name.to_string();
                        }
                        owner = dps(tcx, adt.did());
                        if adt.is_enum() {
                            owner = format!("{}::{}", owner, v.name);
                        }
                    }
                }
                format!("{{\"f\":\"{}\",\"of\":\"{}\"}}", esc(&name), esc(&owner))
            }
            ProjectionElem::Downcast(name, _) => format!(
                "{{\"dc\":\"{}\"}}",
                name.map(|n| n.to_string()).unwrap_or_default()
            ),
            ProjectionElem::Index(l) => format!("{{\"idx\":{}}}", l.index()),
            ProjectionElem::ConstantIndex { offset, from_end, .. } => {
                format!("{{\"cidx\":{},\"from_end\":{}}}", offset, from_end)
            }
            ProjectionElem::Subslice { .. } => "\"subslice\"".to_string(),
            ProjectionElem::OpaqueCast(_) => "\"opaque\"".to_string(),
            ProjectionElem::UnwrapUnsafeBinder(_) => "\"unb\"".to_string(),
        };
        projs.push(s);
        cur_ty = cur_ty.projection_ty(tcx, elem);
    }
    if projs.is_empty() {
        format!("{{\"l\":{},\"p\":[]}}", p.local.index())
    } else {
        // "t": type of the projected place (lets rules see what an index / field access yields)
        let t = with_no_trimmed_paths!(format!("{}", cur_ty.ty));
        format!("{{\"l\":{},\"p\":[{}],\"t\":\"{}\"}}", p.local.index(), projs.join(","), esc(&t))
    }
}

fn operand_json<'tcx>(tcx: TyCtxt<'tcx>, body: &mir::Body<'tcx>, o: &Operand<'tcx>) -> String {
    match o {
        Operand::Copy(p) => format!("{{\"k\":\"copy\",\"pl\":{}}}", place_json(tcx, body, p)),
        Operand::Move(p) => format!("{{\"k\":\"move\",\"pl\":{}}}", place_json(tcx, body, p)),
        Operand::Constant(c) => {
            let t = with_no_trimmed_paths!(format!("{}", c.const_.ty()));
            let v = with_no_trimmed_paths!(format!("{}", c.const_));
            // definition of an unevaluated constant / referenced fn item, when there is one
            let mut def = String::new();
            match c.const_ {
                mir::Const::Unevaluated(uv, _) => {
                    def = dps(tcx, uv.def);
                    if let Some(p) = uv.promoted {
                        def = format!("{}::promoted[{}]", def, p.index());
                    }
                }
                _ => {
                    if let ty::FnDef(d, _) = c.const_.ty().kind() {
                        def = dps(tcx, *d);
                    }
                }
            }
            format!(
                "{{\"k\":\"const\",\"ty\":\"{}\",\"v\":\"{}\",\"def\":\"{}\"}}",
                esc(&t),
                esc(&v),
                esc(&def)
            )
        }
        #[allow(unreachable_patterns)]
        _ => "{\"k\":\"other\"}".to_string(),
    }
}

fn span_json<'tcx>(tcx: TyCtxt<'tcx>, sp: rustc_span::Span) -> String {
    let sm = tcx.sess.source_map();
    // "" = plain source; "d" = compiler desugaring only (for/?/await); "m:<a>,<b>" = macro chain
    let mut exp = String::new();
    if sp.from_expansion() {
        let mut macros: Vec<String> = Vec::new();
        let mut cur = sp;
        let mut guard = 0;
        while cur.from_expansion() && guard < 32 {
            guard += 1;
            let data = cur.ctxt().outer_expn_data();
            if let ExpnKind::Macro(_, name) = data.kind {
                macros.push(name.to_string());
            }
            cur = data.call_site;
        }
        if macros.is_empty() {
            exp.push('d');
        } else {
            exp = format!("m:{}", macros.join(","));
        }
    }
    let root = sp.source_callsite();
    let lo = sm.lookup_char_pos(root.lo());
    format!(
        "{{\"file\":\"{}\",\"line\":{},\"exp\":\"{}\"}}",
        esc(&lo.file.name.prefer_local_unconditionally().to_string()),
        lo.line,
        esc(&exp)
    )
}

fn rvalue_json<'tcx>(tcx: TyCtxt<'tcx>, body: &mir::Body<'tcx>, rv: &Rvalue<'tcx>) -> String {
    match rv {
        Rvalue::Use(o, ..) => format!("{{\"rv\":\"use\",\"ops\":[{}]}}", operand_json(tcx, body, o)),
        Rvalue::Ref(_, bk, p) => format!(
            "{{\"rv\":\"ref\",\"mut\":{},\"pl\":{}}}",
            matches!(bk, mir::BorrowKind::Mut { .. }),
            place_json(tcx, body, p)
        ),
        Rvalue::RawPtr(_, p) => format!("{{\"rv\":\"rawptr\",\"pl\":{}}}", place_json(tcx, body, p)),
        Rvalue::Cast(k, o, t) => format!(
            "{{\"rv\":\"cast\",\"kind\":\"{}\",\"to\":\"{}\",\"ops\":[{}]}}",
            esc(&format!("{:?}", k)),
            esc(&with_no_trimmed_paths!(format!("{}", t))),
            operand_json(tcx, body, o)
        ),
        Rvalue::BinaryOp(op, b2) => format!(
            "{{\"rv\":\"binop\",\"op\":\"{:?}\",\"ops\":[{},{}]}}",
            op,
            operand_json(tcx, body, &b2.0),
            operand_json(tcx, body, &b2.1)
        ),
        Rvalue::UnaryOp(op, o) => format!(
            "{{\"rv\":\"unop\",\"op\":\"{:?}\",\"ops\":[{}]}}",
            op,
            operand_json(tcx, body, o)
        ),
        Rvalue::Discriminant(p) => format!("{{\"rv\":\"discr\",\"pl\":{}}}", place_json(tcx, body, p)),
        Rvalue::Aggregate(ak, ops) => {
            let mut fields: Vec<String> = Vec::new();
            let akn = match &**ak {
                mir::AggregateKind::Adt(d, v, _, _, _) => {
                    let adt = tcx.adt_def(*d);
                    let var = adt.variant(*v);
                    for f in var.fields.iter() {
                        fields.push(format!("\"{}\"", esc(&f.name.to_string())));
                    }
                    format!(
                        "adt:{}::{}",
                        dps(tcx, *d),
                        var.name
                    )
                }
                mir::AggregateKind::Tuple => "tuple".to_string(),
                mir::AggregateKind::Array(_) => "array".to_string(),
                mir::AggregateKind::Closure(d, _) => {
                    format!("closure:{}", dps(tcx, *d))
                }
                mir::AggregateKind::Coroutine(d, _) => {
                    format!("coroutine:{}", dps(tcx, *d))
                }
                mir::AggregateKind::CoroutineClosure(d, _) => {
                    format!("closure:{}", dps(tcx, *d))
                }
                _ => "other".to_string(),
            };
            let os: Vec<String> = ops.iter().map(|o| operand_json(tcx, body, o)).collect();
            format!(
                "{{\"rv\":\"agg\",\"kind\":\"{}\",\"fields\":[{}],\"ops\":[{}]}}",
                esc(&akn),
                fields.join(","),
                os.join(",")
            )
        }
        other => format!(
            "{{\"rv\":\"other\",\"dbg\":\"{}\"}}",
            esc(&format!("{:?}", other).chars().take(120).collect::<String>())
        ),
    }
}

fn body_json<'tcx>(tcx: TyCtxt<'tcx>, krate: &str, did: rustc_hir::def_id::DefId, kind: DefKind, body: &mir::Body<'tcx>, suffix: &str) -> String {
    let fname = format!("{}{}", dps(tcx, did), suffix);
    let mut s = String::new();
    let vis = if matches!(kind, DefKind::Fn | DefKind::AssocFn) {
        if tcx.visibility(did).is_public() { "pub" } else { "priv" }
    } else {
        ""
    };
    let parent = match kind {
        DefKind::Closure | DefKind::SyntheticCoroutineBody => {
            dps(tcx, tcx.parent(did))
        }
        _ => String::new(),
    };
    let is_async = matches!(kind, DefKind::Fn | DefKind::AssocFn) && tcx.asyncness(did).is_async();
    let _ = write!(
        s,
        "{{\"crate\":\"{}\",\"fn\":\"{}\",\"kind\":\"{:?}\",\"vis\":\"{}\",\"parent\":\"{}\",\"async\":{},\"span\":{},\"argc\":{},\"locals\":[",
        krate,
        esc(&fname),
        kind,
        vis,
        esc(&parent),
        is_async,
        span_json(tcx, body.span),
        body.arg_count
    );
    let mut first = true;
    for (l, d) in body.local_decls.iter_enumerated() {
        if !first {
            s.push(',');
        }
        first = false;
        let t = with_no_trimmed_paths!(format!("{}", d.ty));
        let _ = write!(
            s,
            "{{\"i\":{},\"ty\":\"{}\",\"user\":{}}}",
            l.index(),
            esc(&t),
            d.is_user_variable()
        );
    }
    s.push_str("],\"names\":{");
    let mut first = true;
    for vdi in &body.var_debug_info {
        if let mir::VarDebugInfoContents::Place(p) = &vdi.value {
            if !first {
                s.push(',');
            }
            first = false;
            let _ = write!(
                s,
                "\"{}#{}\":{}",
                esc(&vdi.name.to_string()),
                p.local.index(),
                place_json(tcx, body, p)
            );
        }
    }
    s.push_str("},\"blocks\":[");
    let mut firstb = true;
    for (bb, data) in body.basic_blocks.iter_enumerated() {
        if !firstb {
            s.push(',');
        }
        firstb = false;
        let _ = write!(s, "{{\"bb\":{},\"cleanup\":{},\"stmts\":[", bb.index(), data.is_cleanup);
        let mut firsts = true;
        for st in &data.statements {
            if let StatementKind::Assign(b) = &st.kind {
                let (pl, rv) = &**b;
                if !firsts {
                    s.push(',');
                }
                firsts = false;
                let _ = write!(
                    s,
                    "{{\"dst\":{},\"r\":{},\"sp\":{}}}",
                    place_json(tcx, body, pl),
                    rvalue_json(tcx, body, rv),
                    span_json(tcx, st.source_info.span)
                );
            }
        }
        s.push_str("],\"term\":");
        if let Some(term) = &data.terminator {
            let sp = span_json(tcx, term.source_info.span);
            match &term.kind {
                TerminatorKind::Call { func, args, destination, target, .. } => {
                    let (callee, resolved, gargs) = match func {
                        Operand::Constant(c) => match c.const_.ty().kind() {
                            ty::FnDef(cdid, ga) => {
                                let typing_env = ty::TypingEnv::post_analysis(tcx, did);
                                let r = ty::Instance::try_resolve(tcx, typing_env, *cdid, ga)
                                    .ok()
                                    .flatten();
                                let rn = match r {
                                    Some(i) => dps(tcx, i.def_id()),
                                    None => String::new(),
                                };
                                let gs: Vec<String> = ga
                                    .iter()
                                    .map(|g| format!("\"{}\"", esc(&with_no_trimmed_paths!(format!("{}", g)))))
                                    .collect();
                                (dps(tcx, *cdid), rn, gs.join(","))
                            }
                            _ => ("<fnptr>".to_string(), String::new(), String::new()),
                        },
                        Operand::Copy(p) | Operand::Move(p) => {
                            (format!("<indirect:_{}>", p.local.index()), String::new(), String::new())
                        }
                        #[allow(unreachable_patterns)]
                        _ => ("<indirect>".to_string(), String::new(), String::new()),
                    };
                    let os: Vec<String> =
                        args.iter().map(|a| operand_json(tcx, body, &a.node)).collect();
                    let _ = write!(
                        s,
                        "{{\"t\":\"call\",\"callee\":\"{}\",\"resolved\":\"{}\",\"gargs\":[{}],\"args\":[{}],\"dst\":{},\"target\":{},\"sp\":{}}}",
                        esc(&callee),
                        esc(&resolved),
                        gargs,
                        os.join(","),
                        place_json(tcx, body, destination),
                        target.map(|t| t.index() as i64).unwrap_or(-1),
                        sp
                    );
                }
                TerminatorKind::SwitchInt { discr, targets } => {
                    let ts: Vec<String> =
                        targets.iter().map(|(v, t)| format!("[{},{}]", v, t.index())).collect();
                    let _ = write!(
                        s,
                        "{{\"t\":\"switch\",\"discr\":{},\"targets\":[{}],\"otherwise\":{},\"sp\":{}}}",
                        operand_json(tcx, body, discr),
                        ts.join(","),
                        targets.otherwise().index(),
                        sp
                    );
                }
                TerminatorKind::Drop { place, target, .. } => {
                    let _ = write!(
                        s,
                        "{{\"t\":\"Drop\",\"pl\":{},\"succ\":[{}],\"sp\":{}}}",
                        place_json(tcx, body, place),
                        target.index(),
                        sp
                    );
                }
                TerminatorKind::Assert { cond, expected, target, msg, .. } => {
                    let m = format!("{:?}", msg);
                    let mk = m.split(|c: char| !c.is_alphanumeric()).next().unwrap_or("").to_string();
                    let _ = write!(
                        s,
                        "{{\"t\":\"Assert\",\"cond\":{},\"expected\":{},\"msg\":\"{}\",\"succ\":[{}],\"sp\":{}}}",
                        operand_json(tcx, body, cond),
                        expected,
                        esc(&mk),
                        target.index(),
                        sp
                    );
                }
                TerminatorKind::Yield { resume, .. } => {
                    let _ = write!(s, "{{\"t\":\"yield\",\"succ\":[{}],\"sp\":{}}}", resume.index(), sp);
                }
                other => {
                    let succ: Vec<String> = other
                        .successors()
                        .filter(|b| !body.basic_blocks[*b].is_cleanup)
                        .map(|b| b.index().to_string())
                        .collect();
                    let name = format!("{:?}", other);
                    let name = name
                        .split(|c: char| !c.is_alphanumeric())
                        .next()
                        .unwrap_or("")
                        .to_string();
                    let _ = write!(
                        s,
                        "{{\"t\":\"{}\",\"succ\":[{}],\"sp\":{}}}",
                        esc(&name),
                        succ.join(","),
                        sp
                    );
                }
            }
        } else {
            s.push_str("null");
        }
        s.push('}');
    }
    s.push_str("]}\n");
    s
}

fn meta_json<'tcx>(tcx: TyCtxt<'tcx>, krate: &str) -> String {
    let mut adts: Vec<String> = Vec::new();
    let mut impls: Vec<String> = Vec::new();
    let mut statics: Vec<String> = Vec::new();
    let mut fns: Vec<String> = Vec::new();
    for id in tcx.hir_free_items() {
        let did = id.owner_id.to_def_id();
        match tcx.def_kind(did) {
            DefKind::Struct | DefKind::Enum | DefKind::Union => {
                let adt = tcx.adt_def(did);
                let mut vars: Vec<String> = Vec::new();
                for v in adt.variants() {
                    let fs: Vec<String> = v
                        .fields
                        .iter()
                        .map(|f| {
                            let fty = tcx.type_of(f.did).instantiate_identity().skip_norm_wip();
                            format!(
                                "{{\"name\":\"{}\",\"ty\":\"{}\",\"pub\":{}}}",
                                esc(&f.name.to_string()),
                                esc(&with_no_trimmed_paths!(format!("{}", fty))),
                                f.vis.is_public()
                            )
                        })
                        .collect();
                    vars.push(format!("{{\"name\":\"{}\",\"fields\":[{}]}}", v.name, fs.join(",")));
                }
                adts.push(format!(
                    "{{\"name\":\"{}\",\"kind\":\"{:?}\",\"pub\":{},\"variants\":[{}],\"sp\":{}}}",
                    esc(&dps(tcx, did)),
                    tcx.def_kind(did),
                    tcx.visibility(did).is_public(),
                    vars.join(","),
                    span_json(tcx, tcx.def_span(did))
                ));
            }
            DefKind::Impl { .. } => {
                let self_ty = tcx.type_of(did).instantiate_identity().skip_norm_wip();
                let tr = tcx.impl_opt_trait_ref(did).map(|t| {
                    let t = t.instantiate_identity().skip_norm_wip();
                    (
                        dps(tcx, t.def_id),
                        with_no_trimmed_paths!(format!("{}", t)),
                    )
                });
                let items: Vec<String> = tcx
                    .associated_item_def_ids(did)
                    .iter()
                    .map(|d| format!("\"{}\"", esc(&dps(tcx, *d))))
                    .collect();
                let (tn, tfull) = tr.unwrap_or_default();
                impls.push(format!(
                    "{{\"self\":\"{}\",\"trait\":\"{}\",\"trait_ref\":\"{}\",\"items\":[{}],\"sp\":{}}}",
                    esc(&with_no_trimmed_paths!(format!("{}", self_ty))),
                    esc(&tn),
                    esc(&tfull),
                    items.join(","),
                    span_json(tcx, tcx.def_span(did))
                ));
            }
            DefKind::Static { mutability, .. } => {
                let t = tcx.type_of(did).instantiate_identity().skip_norm_wip();
                statics.push(format!(
                    "{{\"name\":\"{}\",\"ty\":\"{}\",\"mut\":{}}}",
                    esc(&dps(tcx, did)),
                    esc(&with_no_trimmed_paths!(format!("{}", t))),
                    mutability.is_mut()
                ));
            }
            _ => {}
        }
    }
    // all fn-like items with their signature (inputs / output types) — including trait method decls
    for ldid in tcx.hir_crate_items(()).definitions() {
        let did = ldid.to_def_id();
        if !matches!(tcx.def_kind(did), DefKind::Fn | DefKind::AssocFn) {
            continue;
        }
        let sig = tcx.fn_sig(did).instantiate_identity().skip_norm_wip().skip_binder();
        let ins: Vec<String> = sig
            .inputs()
            .iter()
            .map(|t| format!("\"{}\"", esc(&with_no_trimmed_paths!(format!("{}", t)))))
            .collect();
        fns.push(format!(
            "{{\"name\":\"{}\",\"pub\":{},\"inputs\":[{}],\"output\":\"{}\",\"has_body\":{}}}",
            esc(&dps(tcx, did)),
            tcx.visibility(did).is_public(),
            ins.join(","),
            esc(&with_no_trimmed_paths!(format!("{}", sig.output()))),
            tcx.hir_maybe_body_owned_by(ldid).is_some()
        ));
    }
    format!(
        "{{\"meta\":\"{}\",\"adts\":[{}],\"impls\":[{}],\"statics\":[{}],\"fns\":[{}]}}\n",
        krate,
        adts.join(","),
        impls.join(","),
        statics.join(","),
        fns.join(",")
    )
}

impl rustc_driver::Callbacks for Cb {
    fn config(&mut self, config: &mut rustc_interface::Config) {
        config.opts.unstable_opts.mir_opt_level = Some(0);
    }
    // Export right after expansion, before the analysis passes run: some of them (coroutine layout
    // checks) steal the `mir_promoted` of async fn bodies. Forcing `mir_promoted` here only builds
    // and type-checks the bodies earlier than rustc would.
    fn after_expansion<'tcx>(
        &mut self,
        _c: &rustc_interface::interface::Compiler,
        tcx: TyCtxt<'tcx>,
    ) -> Compilation {
        let outdir = match std::env::var("ACBDRV_OUT") {
            Ok(p) => p,
            Err(_) => return Compilation::Continue,
        };
        let mut krate = tcx.crate_name(rustc_hir::def_id::LOCAL_CRATE).to_string();
        if tcx.crate_types().iter().any(|t| matches!(t, rustc_session::config::CrateType::Executable)) {
            krate.push_str("_bin");
        }
        let mut out = String::new();
        let mut unsafe_blocks = 0usize;
        for ldid in tcx.hir_body_owners() {
            let did = ldid.to_def_id();
            let kind = tcx.def_kind(did);
            let is_fn = matches!(
                kind,
                DefKind::Fn | DefKind::AssocFn | DefKind::Closure | DefKind::SyntheticCoroutineBody
            );
            let is_const = matches!(kind, DefKind::Const { .. } | DefKind::AssocConst { .. } | DefKind::Static { .. });
            if !is_fn && !is_const {
                continue;
            }
            let steal = &tcx.mir_promoted(ldid).0;
            if steal.is_stolen() {
                let fname = dps(tcx, did);
                let _ = write!(out, "{{\"crate\":\"{}\",\"stolen\":\"{}\"}}\n", krate, esc(&fname));
                continue;
            }
            let body = &*steal.borrow();
            for sc in body.source_scopes.iter() {
                if let mir::ClearCrossCrate::Set(d) = &sc.local_data {
                    let _ = d;
                }
            }
            out.push_str(&body_json(tcx, &krate, did, kind, body, ""));
            // promoted constants of this body (e.g. `&MAX_DIFF`, `&[..]` literals)
            let promoted = &tcx.mir_promoted(ldid).1;
            if !promoted.is_stolen() {
                for (pi, pb) in promoted.borrow().iter_enumerated() {
                    out.push_str(&body_json(tcx, &krate, did, DefKind::Const { is_type_const: false }, pb, &format!("::promoted[{}]", pi.index())));
                }
            }
        }
        // meta after the bodies: some of its queries (async fn signatures) steal coroutine MIR
        out.push_str(&meta_json(tcx, &krate));
        // count `unsafe` blocks in HIR (product code has none; R4a relies on it)
        for ldid in tcx.hir_body_owners() {
            if let Some(body) = tcx.hir_maybe_body_owned_by(ldid) {
                struct V(usize);
                impl<'v> rustc_hir::intravisit::Visitor<'v> for V {
                    fn visit_block(&mut self, b: &'v rustc_hir::Block<'v>) {
                        if let rustc_hir::BlockCheckMode::UnsafeBlock(rustc_hir::UnsafeSource::UserProvided) = b.rules {
                            // blocks written in the crate's own source, not inside macro expansions (lazy_static!, wasm_bindgen)
                            if !b.span.from_expansion() {
                                self.0 += 1;
                            }
                        }
                        rustc_hir::intravisit::walk_block(self, b);
                    }
                }
                let mut v = V(0);
                rustc_hir::intravisit::Visitor::visit_body(&mut v, body);
                unsafe_blocks += v.0;
            }
        }
        let _ = write!(out, "{{\"crate\":\"{}\",\"unsafe_blocks\":{}}}\n", krate, unsafe_blocks);
        let path = format!("{}/{}-{}.jsonl", outdir, krate, std::process::id());
        let mut f = std::fs::File::create(path).unwrap();
        f.write_all(out.as_bytes()).unwrap();
        Compilation::Continue
    }
}

fn main() {
    let mut args: Vec<String> = std::env::args().collect();
    args.remove(1);
    rustc_driver::run_compiler(&args, &mut Cb);
}
