#!/bin/bash
# usage: r4_finish.sh <scratch repo> <n>
# Round-4 seeds were made on a scratch repository whose HEAD is /repo's HEAD plus one of the behaviour-preserving patches (tag `base` =
# /repo's HEAD). This turns _seed/<n>/patch.diff (relative to the refactored tree) into the combined change relative to /repo's HEAD,
# keeping the original beside it, so that the stored seed applies to /repo like every other seed.
D="$1"; N="$2"
cd "$D" || exit 2
[ -f "_seed/$N/patch.on_refactored.diff" ] && { echo "already combined"; exit 0; }
git checkout -q -- . ; git apply "_seed/$N/patch.diff" || exit 2
cp "_seed/$N/patch.diff" "_seed/$N/patch.on_refactored.diff"
git diff base -- src acb_wasm > "_seed/$N/patch.diff"
git checkout -q -- .
echo "combined: $(grep -c '^diff --git' _seed/$N/patch.diff) files"
