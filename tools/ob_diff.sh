#!/bin/bash
# Development aid: for each behaviour-preserving patch, the obligation keys that disappear / appear relative to the unchanged tree.
# A key that disappears without a counterpart is a rule that silently stopped judging something (vacuity), not a pass.
cd /verif
S=${SCRATCH:-/tmp/exp5}
IDS=$(python3 -c "import json;print(' '.join(c['property_id'] for c in json.load(open('MANIFEST.json'))['checks']))")
mkdir -p /tmp/obd
for p in $IDS; do ./check $p --no-evidence --no-selftest --json 2>/dev/null | grep -E '"key"|"verdict"' | paste - - | sed 's/ *"key": //; s/ *"verdict": / /' | sort > /tmp/obd/base_$p; done
for b in ${@:-benign_ext/B*}; do
  echo "== $b"
  rsync -a --delete --exclude target --exclude .git /repo/ "$S/" && ( cd "$S" && patch -p1 -s < /verif/$b/patch.diff ) || continue
  for p in $IDS; do
    ./check $p --no-evidence --no-selftest --json --repo "$S" 2>/dev/null | grep -E '"key"|"verdict"' | paste - - | sed 's/ *"key": //; s/ *"verdict": / /' | sort > /tmp/obd/cur_$p
    diff /tmp/obd/base_$p /tmp/obd/cur_$p | grep '^[<>]' | cut -c1-260
  done
done
echo "== done"
