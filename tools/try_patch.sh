#!/bin/bash
# usage: try_patch.sh <patch file> <property ids...>   — applies the patch to a scratch copy of /repo (outside /repo and /verif),
# runs the named checks against it, prints their verdict lines, and removes the scratch copy's changes again. Development aid.
P="$1"; shift
S=${SCRATCH:-/tmp/exp}
rsync -a --delete --exclude target --exclude .git /repo/ "$S/" || exit 2
( cd "$S" && patch -p1 -s --fuzz=3 < "$P" ) || { echo "PATCH DOES NOT APPLY"; exit 2; }
for p in "$@"; do
  ( cd /verif && ./check $p --no-evidence --no-selftest --repo "$S" 2>&1 | grep -E "violation:|tier=|could not" | cut -c1-240 )
done
rsync -a --delete --exclude target --exclude .git /repo/ "$S/"
