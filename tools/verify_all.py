#!/usr/bin/env python3
"""Development aid: every stored variant against the checks, in parallel.
  mutants/*.patch and seeded/*/patch.diff  -> the named check must report a key containing the recorded substrings
  mutants/benign_*.patch, benign_ext/B*/patch.diff (those listed in benign_ext/SILENT) -> every check must stay silent
usage: verify_all.py [-j N] [name-substring ...]"""
import concurrent.futures as cf, json, os, queue, shutil, subprocess, sys
V = os.path.dirname(os.path.dirname(os.path.abspath(__file__)))
args = sys.argv[1:]
J = 5
if args[:1] == ['-j']:
    J = int(args[1]); args = args[2:]
idx = json.load(open(os.path.join(V, 'mutants', 'index.json')))
ALL = [c['property_id'] for c in json.load(open(os.path.join(V, 'MANIFEST.json')))['checks']]
jobs = []
for name, m in sorted(idx['mutants'].items()):
    jobs.append(('mutant', name, os.path.join(V, 'mutants', name + '.patch'), {m['property']: m['expect_key_substrings']}))
for d in sorted(os.listdir(os.path.join(V, 'seeded'))):
    mp = os.path.join(V, 'seeded', d, 'meta.json')
    if os.path.exists(mp):
        cb = json.load(open(mp)).get('caught_by') or {}
        if cb:
            jobs.append(('seeded', d, os.path.join(V, 'seeded', d, 'patch.diff'), cb))
for name in sorted(idx['benign']):
    jobs.append(('benign', name, os.path.join(V, 'mutants', name + '.patch'), None))
sil = os.path.join(V, 'benign_ext', 'SILENT')
if os.path.exists(sil):
    for b in open(sil).read().split():
        jobs.append(('benign', b, os.path.join(V, 'benign_ext', b, 'patch.diff'), None))
if args[:1] == ['--ext']:
    # every independently produced refactoring patch, silent or not (reporting aid)
    jobs = [('benign', b, os.path.join(V, 'benign_ext', b, 'patch.diff'), None) for b in sorted(os.listdir(os.path.join(V, 'benign_ext')))
            if os.path.isdir(os.path.join(V, 'benign_ext', b))]
    args = args[1:]
if args:
    jobs = [j for j in jobs if any(a in j[1] for a in args)]
# refactoring patches that are known NOT to be silent yet (measured, documented in DESIGN 8.7, not hidden): reported, not counted as a failure
OPEN = set()
ns = os.path.join(V, 'benign_ext', 'NOT_SILENT')
if os.path.exists(ns):
    OPEN = {l.split()[0] for l in open(ns) if l.strip() and not l.startswith('#')}
slots = queue.Queue()
for i in range(J):
    slots.put('/tmp/va_%d' % i)


def run(job):
    kind, name, patch, expect = job
    S = slots.get()
    try:
        subprocess.run(['rsync', '-a', '--delete', '--exclude', 'target', '--exclude', '.git', '/repo/', S + '/'], check=True)
        p = subprocess.run('cd %s && patch -p1 -s --fuzz=3 < %s' % (S, patch), shell=True, capture_output=True)
        if p.returncode != 0:
            return (kind, name, 'NOAPPLY', '')
        bad = []
        for pid in (sorted(expect) if expect else ALL):
            out = subprocess.run([os.path.join(V, 'check'), pid, '--no-evidence', '--no-selftest', '--repo', S], capture_output=True, text=True,
                                 env=dict(os.environ, ACB_FACTS_SLOT=S.rsplit('_', 1)[-1])).stdout
            keys = [l.strip() for l in out.splitlines() if 'violation:' in l or 'checker could not complete' in l]
            if 'tier=' not in out:
                bad.append('%s: check did not complete' % pid)
            elif expect:
                if not any(all(sub in k for sub in expect[pid]) for k in keys):
                    bad.append('%s: expected %s got %s' % (pid, expect[pid], keys[:3]))
            elif keys:
                bad.append('%s: FALSE ALARM %s' % (pid, keys[:8]))
        if bad and kind == 'benign' and name in OPEN:
            return (kind, name, 'open', '(recorded in benign_ext/NOT_SILENT) ' + '; '.join(bad))
        return (kind, name, 'FAIL' if bad else 'ok', '; '.join(bad))
    finally:
        slots.put(S)


nbad = 0
with cf.ThreadPoolExecutor(J) as ex:
    for kind, name, st, msg in ex.map(run, jobs):
        if st not in ('ok', 'open'):
            nbad += 1
        print(kind, name, st, msg, flush=True)
for i in range(J):
    shutil.rmtree('/tmp/va_%d' % i, ignore_errors=True)
print('variants: %d, not ok: %d' % (len(jobs), nbad))
sys.exit(1 if nbad else 0)
