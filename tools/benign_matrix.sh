#!/bin/bash
# Development aid: every behaviour-preserving patch x every registered check; prints only checks that are not silent.
cd /verif
IDS=$(python3 -c "import json;print(' '.join(c['property_id'] for c in json.load(open('MANIFEST.json'))['checks']))")
for b in mutants/benign_*.patch; do
  echo "== $b"
  SCRATCH=${SCRATCH:-/tmp/exp2} tools/try_patch.sh /verif/$b $IDS | grep -v " 0 violations"
done
echo "== done"
