#!/bin/bash
# usage: seed_eval.sh <worktree> <n> [verify]
# Applies <worktree>/_seed/<n>/patch.diff in the worktree, runs every registered check against it, reverts.
# With "verify": also rebuilds, runs the baseline suite and the demonstration with and without the patch.
WT="$1"; N="$2"; MODE="$3"
cd "$WT" || exit 2
# private temp dir: the repo's tests pick /tmp/acb-test-N names that collide between parallel runs
mkdir -p "$WT/_tmp"; export TMPDIR="$WT/_tmp"
git checkout -q -- . ; rm -f tests/zz_seed_demo_*.rs
git apply --check "_seed/$N/patch.diff" || { echo "PATCH DOES NOT APPLY"; exit 2; }
git apply "_seed/$N/patch.diff"
echo "== checks against patched tree ($WT seed $N)"
for p in $(python3 -c "import json;print(' '.join(c['property_id'] for c in json.load(open('/verif/MANIFEST.json'))['checks']))") $EXTRA; do
  out=$(cd /verif && ./check $p --no-evidence --repo "$WT" 2>/dev/null)
  rc=$?
  nv=$(echo "$out" | grep -c "^VIOLATION")
  echo "$p rc=$rc violations=$nv"
  echo "$out" | grep "violation:" | sed 's/^/      /' | cut -c1-220
done
if [ "$MODE" = "verify" ]; then
  echo "== build + baseline suite with the patch"
  cargo build --offline --workspace 2>&1 | tail -1
  cargo test --workspace --offline --no-fail-fast 2>&1 | grep -E "^test result|FAILED|panicked" | sort | uniq -c | head -12
  for d in _seed/$N/*.rs; do [ -f "$d" ] && cp "$d" "tests/zz_seed_demo_$(basename $d)"; done
  if ls tests/zz_seed_demo_*.rs >/dev/null 2>&1; then
    echo "== demo WITH patch"
    for t in tests/zz_seed_demo_*.rs; do cargo test --offline --test "$(basename $t .rs)" 2>&1 | grep -E "^test result|FAILED|panicked at" | head -5; done
    git apply -R "_seed/$N/patch.diff"
    echo "== demo WITHOUT patch"
    for t in tests/zz_seed_demo_*.rs; do cargo test --offline --test "$(basename $t .rs)" 2>&1 | grep -E "^test result|FAILED|panicked at" | head -5; done
  fi
fi
git checkout -q -- . ; rm -f tests/zz_seed_demo_*.rs
git status --short | grep -v '_seed\|_tmp' | head -3
