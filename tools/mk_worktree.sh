#!/bin/sh
# usage: mk_worktree.sh <dir>  — scratch git worktree of /repo HEAD with a warm copy of the build cache
set -e
D="$1"
git -C /repo worktree add -f --detach "$D" HEAD >/dev/null 2>&1
cp -r /repo/target "$D/target"
mkdir -p "$D/_seed"
echo "$D ready"
