#!/usr/bin/env python3
"""Copies confirmed seeded changes from the agents' scratch worktrees into /verif/seeded/<id>/ with a meta.json."""
import json, os, shutil, sys
SEEDS = {
 # id: (worktree, n, property, needs, caught_by {pid: [key substrings]}, note)
 'C04-1': ('/tmp/wt_C04', 1, 'C04', 'a Sell at a gain carrying a forced (\'!\') superficial-loss value', {'C02': ['force-only-affects-the-discrepancy-check']}, 'seeded against C04, reported by the C02 check after rule R2e (the force marker only switches off the discrepancy check) was added'),
 'C04-2': ('/tmp/wt_C04', 2, 'C04', '--csv-output-dir mode and a security rejected on its first transaction (empty ledger prefix)', {'C04': ['errors-on-every-path']}, 'caught after R4b was strengthened to "errors exported on every non-error path"'),
 'C05-1': ('/tmp/wt_C05', 1, 'C05', 'a superficial loss split between two buying affiliates where one portion is below 1e-10', {'C05': ['c_maybe_round_to_effective_cent', 'T=Pos']}, ''),
 'C05-2': ('/tmp/wt_C05', 2, 'C05', 'E*TRADE option-exercise text with more Grant headings than rows of some kind', {'C05': ['R5c|peripheral::broker::etrade::parse_eso_data']}, 'caught after rule R5c (index bounded only by another sequence\'s length) was added in the second seeding round'),
 'C07-1': ('/tmp/wt_C07', 1, 'C07', 'three or more input files with same-day rows of one security in different files', {'C07': ['read-index-carried']}, ''),
 'C07-2': ('/tmp/wt_C07', 2, 'C07', 'more than 20 rows of one security, not pre-sorted, with same-day Buy/Sell pairs (two cooperating sites)', {'C07': ['sort-dominates-split']}, ''),
 'C08-1': ('/tmp/wt_C08', 1, 'C08', 'two CSV files; a security with same-day rows in different files; other securities\' rows ahead of it in the later file', {'C07': ['read-index-carried']}, 'seeded against C08, reported by the C07 check (read-index rule R7c)'),
 'C08-2': ('/tmp/wt_C08', 2, 'C08', 'one failing security plus healthy ones, and a hash seed that yields the failing one first', {'C08': ['R8a|app::approot::get_cumulative_capital_gains'], 'C09': ['get_cumulative_capital_gains']}, 'caught after the loop-exit classifier stopped mistaking the element\'s own discriminant for the iterator\'s'),
 'C09-1': ('/tmp/wt_C09', 1, 'C09', '--total-costs and two days tying for a year\'s maximum cost; a hash seed that visits the later day first', {'C09': ['calc_yearly_max_cost_day']}, ''),
 'C09-2': ('/tmp/wt_C09', 2, 'C09', 'a global split on a security held by two affiliates with equal sort key (bool key) ', {'C09': ['replace_global_security_splits']}, 'caught after sort comparators were checked for totality (R9a sort typestate)'),
 'C14-1': ('/tmp/wt_C14', 1, 'C14', 'process killed while the csv writer is dropped after the (premature) rename', {'C14': ['flush-before-sync']}, ''),
 'C14-2': ('/tmp/wt_C14', 2, 'C14', 'first download of a year killed mid-write; a later run finds only the .tmp file', {'C14': ['recover_uncommitted_rates_csv_file']}, 'caught after R14a required every rename onto the live name to be the verified commit step'),
 'C02-1': ('/tmp/wt_C02', 1, 'C02', 'an acquisition near day +-30 whose trade-to-settlement lag differs from the sale\'s', {'C02': ['R2c|anchor-lost']}, 'reported as a lost anchor: the window comparisons on settlement dates are gone'),
 'C02-2': ('/tmp/wt_C02', 2, 'C02', 'an explicit, un-forced superficial loss of 0 on a sale that is superficial', {'C02': ['specified-loss-always-validated-or-forced']}, 'caught after rule R2d\' (validation or force on every accepting path) was added'),
 'C06-1': ('/tmp/wt_C06', 1, 'C06', 'a security whose yearly gains cancel to a zero lifetime total', {'C06': ['R6d|portfolio::cumulative_gains::calc_cumulative_capital_gains']}, 'caught after rule R6d (no conditional skip in the totals loops) was added'),
 'C06-2': ('/tmp/wt_C06', 2, 'C06', 'default precision, two years whose sub-cent parts cross a half-cent boundary', {'C06': ['R6a']}, ''),
 'C11-1': ('/tmp/wt_C11', 1, 'C11', 'commission in the trade\'s own non-CAD currency but at a different rate', {'C11': ['commission-currency-exported-whenever-present']}, 'caught after rule R11h (commission currency exported whenever present) was added in the second seeding round'),
 'C11-2': ('/tmp/wt_C11', 2, 'C11', 'a specified superficial loss with more than two decimals', {'C11': ['writer-formats-losslessly']}, 'caught after rule R11g (no lossy operation reachable from the CSV writer) was added'),
 'C12-1': ('/tmp/wt_C12', 1, 'C12', 'a year cached in late December, then a run in the next year for a date after the cached range', {'C13': ['cache-accepted']}, 'seeded against C12, reported by the C13 check (cache acceptance rule R13b)'),
 'C12-2': ('/tmp/wt_C12', 2, 'C12', 'a publication gap of more than 7 days with two USD rows inside it, earlier row first', {'C12': ['day-map-insert']}, 'caught after rule R12e (the per-day map only holds loaded data) was added'),
 'C13-1': ('/tmp/wt_C13', 1, 'C13', 'a partial year cached during year Y, then a non-forced run in Y+1 looking up a late-Y date', {'C13': ['cache-accepted']}, ''),
 'C13-2': ('/tmp/wt_C13', 2, 'C13', 'CSV cache, year >= 2017, two runs (second served from the file)', {'C06': ['write_rates']}, 'seeded against C13, reported by the C06 check (a rounded value is written instead of formatted)'),
 'C16-1': ('/tmp/wt_C16', 1, 'C16', 'first transaction is a loss Sell that settles on its trade date and leaves shares', {'C02': ['window-of-settlement-date']}, 'seeded against C16, reported by the C02 check (window computed around a trade date)'),
 'C16-2': ('/tmp/wt_C16', 2, 'C16', 'a security name in the CSV that is not all upper case', {'C16': ['symbol-key-unmodified']}, 'caught after rule R16c (the map key is the symbol as given) was added'),
 'C18-1': ('/tmp/wt_C18', 1, 'C18', 'a USD dividend row with a negative net amount (reversal)', {'C18': ['cash-amount-keeps-its-sign']}, 'caught after rule R18f (no abs / neg / max on a cash amount handed to the FX tracker) was added in the third seeding round'),
 'C18-2': ('/tmp/wt_C18', 2, 'C18', 'an --account pattern anchored with ^ on the documented account string', {'C18': ['account-pattern-matches-type-and-number']}, 'caught after rule R18g (the matched account text reads the account type and number only) was added at the end of the third round'),
 'C20-1': ('/tmp/wt_C20', 1, 'C20', 'a statement whose table is on a page numbered below an already loaded page (two cooperating sites)', {'C20': ['popped-page-is-yielded']}, 'caught after rules R20c/R20d (popped page is yielded; requested pages are loaded unfiltered) were added'),
 'C20-2': ('/tmp/wt_C20', 2, 'C20', 'two or more holdings where a later one rounds to 100.0% with a multi-line description', {'C20': ['unfinishable-total-like-line-joins-the-security']}, 'caught after rule R20g was added in the third seeding round (the same change came back as C20-6)'),

 'C01-1': ('/tmp/wt_C01', 1, 'C01', 'a non-CAD trade whose commission currency is explicitly CAD with no commission rate', {'C01': ['R1e']}, 'caught after rule R1e (a named currency is never dropped) was added'),
 'C01-2': ('/tmp/wt_C01', 2, 'C01', 'a sale whose commission exceeds its gross proceeds', {'C01': ['R1f|no-clamping|capital-gain|Sell']}, 'caught after rule R1f (no clamping on the way to a cost base or gain) was added'),
 'C03-1': ('/tmp/wt_C03', 1, 'C03', 'two buying affiliates, the alphabetically first ending the window with zero shares', {'C03': ['sfla-row-for-every-affiliate']}, 'first reported as a lost anchor (the generation loop became an iterator chain with take_while); since the rules follow iterator chains (DESIGN 8.7) it is reported as a chain cut by take_while, and a benign filter-based chain is accepted. Earlier note: a benign filter-based chain would be reported the same way — known fragility'),
 'C03-2': ('/tmp/wt_C03', 2, 'C03', 'a passive holder plus an affiliate that buys and sells out at a loss within 30 days', {'C03': ['flag-overwritten']}, 'caught after rule R3f (who may write the over-applied marker) was added'),
 'C15-1': ('/tmp/wt_C15', 1, 'C15', 'a split inside the after-window and an affiliate with zero shares at the split that buys afterwards', {'C15': ['split-factor-recorded-unconditionally']}, 'caught after R15d was strengthened (factor update unconditional)'),
 'C15-2': ('/tmp/wt_C15', 2, 'C15', 'a split between a superficial-loss sale and the repurchase, by an affiliate holding nothing in between', {'C15': ['split-arm-leaves-cost-base-and-gain-untouched'], 'C01': ['cost-base-changed-by-buy-sell-roc-sfla-only']}, ''),

 'C10-1': ('/tmp/wt_C10', 1, 'C10', '--summarize-annual-gains and a summarised year whose gains net to exactly zero', {'C10': ['one-sale-per-summarised-year']}, 'caught after rule R10e (one synthetic sale per listed year) was added'),
 'C10-2': ('/tmp/wt_C10', 2, 'C10', 'two superficial-loss sales after the summary date whose windows both reach into the summary range, with a row between the two window starts', {'C10': ['first-later-loss-sets-the-boundary']}, 'caught after rule R10f (the forward scan stops at the first later loss) was added'),
 'C17-1': ('/tmp/wt_C17', 1, 'C17', 'an opening position via --symbol-base and a first transaction by a non-default / registered affiliate', {'C17': ['nothing-recorded-before-the-skip-filters']}, 'caught after rule R17e (no state update before the skip filters) was added'),
 'C17-2': ('/tmp/wt_C17', 2, 'C17', 'a year whose every day totals $0.00', {'C17': ['anchor-lost:yearly-maximum function']}, 'reported as a lost anchor only (the yearly function was rewritten without the year->day map)'),
 'C19-1': ('/tmp/wt_C19', 1, 'C19', 'any option-exercise confirmation (all sell-to-cover fields pre-filled)', {'C19': ['benefit-with-sold-shares-is-always-matched']}, 'caught after rule R19e (matching skipped only when no shares were sold) was added'),
 'C19-2': ('/tmp/wt_C19', 2, 'C19', 'exactly one Sell in the five-day window with a share count different from the sold shares', {'C19': ['returned-set-comes-from-the-filtered-sets']}, 'caught after rule R19f (returned set comes from the share-count-filtered collection) was added'),
 # ---- second round (fresh agents, asked to look beyond the most obvious function)
 'C01-3': ('/tmp/wt2_C01', 1, 'C01', 'a commission in the trade\'s own non-CAD currency but with its own, different exchange rate', {'C01': ['commission-pair-reaches-ledger-as-validated']}, 'caught after rule R1g (the validated commission pair is moved unchanged) was added'),
 'C01-4': ('/tmp/wt2_C01', 2, 'C01', '--symbol-base for a security whose name has a lower-case letter (two cooperating sites)', {'C16': ['symbol-key-unmodified']}, 'seeded against C01, reported by the C16 check (R16c)'),
 'C02-3': ('/tmp/wt2_C02', 1, 'C02', 'an un-forced superficial-loss cell of exactly 0 on a sale that is superficial', {'C02': ['specified-loss-always-validated-or-forced']}, ''),
 'C02-4': ('/tmp/wt2_C02', 2, 'C02', 'a supplied value on the same cent as the computed loss but more than 0.001 away', {'C06': ['R6a|portfolio::bookkeeping::delta_list::get_delta_superficial_loss_info']}, 'seeded against C02, reported by the C06 check (a rounded value enters arithmetic)'),
 'C03-3': ('/tmp/wt2_C03', 1, 'C03', 'two affiliates; the adjustment lands on one holding zero shares, and another affiliate trades before it buys', {'C03': ['empty-status-only-when-no-status-recorded']}, 'caught after rule R3g (empty status only on the None edge of the look-up) was added'),
 'C03-4': ('/tmp/wt2_C03', 2, 'C03', 'the window\'s buyers hold nothing at its end while a non-buying affiliate still holds shares', {'C03': ['R3f|@sfl_validation|flag-source']}, ''),
 'C04-3': ('/tmp/wt2_C04', 1, 'C04', 'a loss sale declaring 0 (un-forced) with a purchase within 30 days', {'C02': ['specified-loss-always-validated-or-forced']}, 'seeded against C04, reported by the C02 check (R2d\')'),
 'C04-4': ('/tmp/wt2_C04', 2, 'C04', 'text mode and a security rejected on its first transaction', {'C04': ['errors-on-every-path']}, ''),
 'C05-3': ('/tmp/wt2_C05', 1, 'C05', 'the same symbol in two -b opening-position strings', {'C16': ['R16b|app::input_parse::parse_initial_status']}, 'seeded against C05 (reaches an assert), reported by the C16 check (R16b: an entry is stored as given)'),
 'C05-4': ('/tmp/wt2_C05', 2, 'C05', 'option-exercise text where some per-grant row is missing', {'C05': ['R5c|peripheral::broker::etrade::parse_eso_data']}, 'same change as C05-2, produced independently; caught after rule R5c (index bounded only by another sequence\'s length) was added'),
 'C06-3': ('/tmp/wt2_C06', 1, 'C06', 'a signed figure exactly on a half cent with an even cent digit', {'C06': ['R6a|portfolio::render::PrintHelper::plus_minus_opt_dollar']}, ''),
 'C06-4': ('/tmp/wt2_C06', 2, 'C06', 'a security that realises gains and later fails', {'C04': ['R4c|app::approot::get_cumulative_capital_gains']}, 'seeded against C06, reported by the C04 check (R4c: a failed security contributes no gains)'),
 'C07-3': ('/tmp/wt2_C07', 1, 'C07', 'two files given in non-lexicographic order with same-day rows of one security in both', {'C07': ['files-read-in-the-order-given']}, 'caught after rule R7e (no re-ordering between the argument list and the reader list) was added'),
 'C07-4': ('/tmp/wt2_C07', 2, 'C07', 'more than 20 rows of one security, unsorted input, same-day Buy/Sell', {'C07': ['sort-dominates-split']}, ''),
 'C08-3': ('/tmp/wt2_C08', 1, 'C08', 'more than 20 rows in total and same-day rows of one security', {'C07': ['sort-dominates-split']}, 'seeded against C08, reported by the C07 check (R7b)'),
 'C08-4': ('/tmp/wt2_C08', 2, 'C08', 'a failing security visited before a healthy one in hash order', {'C09': ['get_cumulative_capital_gains|consume|map_while']}, 'seeded against C08, reported by the C09 check (order-selecting adaptor on a hash-ordered iterator; that clause was added shortly before this seed was evaluated)'),
 'C09-3': ('/tmp/wt2_C09', 1, 'C09', '--total-costs, three securities with long-fraction cost bases', {'C09': ['observe_new_cost|consume|fold'], 'C17': ['row-total-kept-equal-to-the-sum']}, ''),
 'C09-4': ('/tmp/wt2_C09', 2, 'C09', 'a header that repeats a recognised column name', {'C09': ['parse_tx_csv|consume|next'], 'C07': ['anchor-lost:column-index-map']}, ''),
 'C10-3': ('/tmp/wt2_C10', 1, 'C10', 'a USD trade with a CAD commission copied verbatim into the summary', {'C11': ['commission-currency-exported-whenever-present']}, 'seeded against C10, reported by the C11 check after rule R11h was added (also catches C11-1)'),
 'C10-4': ('/tmp/wt2_C10', 2, 'C10', '--summarize-annual-gains and a sale traded in December, settled in January', {'C06': ['R6c|portfolio::summary::make_annual_gains_summary_txs']}, 'seeded against C10, reported by the C06 check (R6c: yearly figures keyed by the settlement year)'),
 'C11-3': ('/tmp/wt2_C11', 1, 'C11', 'a foreign-currency row whose exchange rate is exactly 1 (USD at parity)', {'C11': ['rate-written-whatever-its-value']}, 'caught after rule R11i (no comparison on an exchange rate under Tx::to_csvtx) was added'),
 'C11-4': ('/tmp/wt2_C11', 2, 'C11', 'a memo containing a line break, written through a converter front end', {'C11': ['cells-written-unchanged']}, 'caught after rule R11j (table cells reach write_record untransformed) was added; it also exposed a false alarm of C04 R4b (errors written through a helper), which was corrected'),
 'C12-3': ('/tmp/wt2_C12', 1, 'C12', 'a year cached during that year, then a run in a later year for a date after the cached range', {'C13': ['cache-accepted']}, 'seeded against C12, reported by the C13 check (R13b)'),
 'C12-4': ('/tmp/wt2_C12', 2, 'C12', 'a noon (pre-2017) observation below 1, i.e. a date on which the Canadian dollar was above parity', {'C12': ['quote-direction-by-series-not-by-value']}, 'caught after rule R12f (no size comparison on a rate in the remote parser) was added'),
 'C13-3': ('/tmp/wt2_C13', 1, 'C13', 'a partial year cached during year Y, then a non-forced run in Y+1 looking up a later date of Y', {'C13': ['cache-accepted']}, ''),
 'C13-4': ('/tmp/wt2_C13', 2, 'C13', 'the CSV cache, a year from 2017 on, and a second run served from the file', {'C13': ['cache-stores-rates-losslessly']}, 'caught after rule R13e (no lossy operation reachable from the cache writers) was added'),
 'C14-3': ('/tmp/wt2_C14', 1, 'C14', 'a first write of a year killed mid-row; a later run promotes the left-over .tmp', {'C14': ['recover_pending_rates_csv_file']}, ''),
 'C14-4': ('/tmp/wt2_C14', 2, 'C14', 'a kill while the writer drops (flushes) after the rename', {'C14': ['flush-before-sync']}, ''),
 'C15-3': ('/tmp/wt2_C15', 1, 'C15', 'a split inside the window of a loss sale while the later buyer holds nothing', {'C15': ['split-factor-recorded-unconditionally']}, ''),
 'C15-4': ('/tmp/wt2_C15', 2, 'C15', 'a split whose settlement date equals that of a trade listed before it', {'C07': ['order-key-fields']}, 'seeded against C15, reported by the C07 check (R7a: the order key reads only settlement date and read index)'),
 'C16-3': ('/tmp/wt2_C16', 1, 'C16', '--symbol-base for a security traded only by non-default affiliates', {'C16': ['opening-position-handed-on-unchanged']}, 'caught after rule R16d (the looked-up position reaches the ledger seed unfiltered) was added; demonstration is a shell script, run by hand with and without the patch'),
 'C16-4': ('/tmp/wt2_C16', 2, 'C16', 'a specification with four or more fields whose last two are numbers', {'C16': ['specification-has-exactly-three-fields']}, 'caught after rule R16e (unbounded split and a field count of exactly 3) was added'),
 'C17-3': ('/tmp/wt2_C17', 1, 'C17', '--total-costs and a transaction of a non-default affiliate', {'C17': ['every-delta-reaches-the-cost-pass']}, 'caught after rule R17g (no filtering adaptor between the delta lists and the cost pass) was added'),
 'C17-4': ('/tmp/wt2_C17', 2, 'C17', 'two securities, one first settling later and with two or more transactions', {'C17': ['opening-cost-recorded-once']}, 'caught after rule R17h (the opening-cost entry is written only when absent) was added; patch.diff re-based onto the tree with the C17 fix, the delivered patch kept as patch.orig-4ed83c2.diff'),
 'C18-3': ('/tmp/wt2_C18', 1, 'C18', 'a LIQ or DIS row in USD with a non-zero price (cash in lieu)', {'C18': ['foreign-trade-always-gets-its-fx-leg']}, 'caught after rule R18d (only the currency test stands between a trade row and its implicit FX leg) was added'),
 'C18-4': ('/tmp/wt2_C18', 2, 'C18', 'a numeric sheet cell whose value is not exactly representable in binary (10.1)', {'C18': ['no-binary-float-expansion']}, 'caught after rule R18e (no from_f64_retain) was added'),
 'C19-3': ('/tmp/wt2_C19', 1, 'C19', 'an option-exercise confirmation among the inputs (sale dates pre-filled)', {'C19': ['benefit-with-sold-shares-is-always-matched']}, ''),
 'C19-4': ('/tmp/wt2_C19', 2, 'C19', 'two equal sales on one day in the post-2023 confirmation layout', {'C19': ['every-parsed-entry-is-collected']}, 'caught after rule R19g (collected entries are not de-duplicated or conditional on what was collected) was added'),
 'C20-3': ('/tmp/wt2_C20', 1, 'C20', 'a hint group consisting only of pages named by earlier groups', {'C20': ['queue-is-the-whole-group']}, 'caught after rule R20e was added'),
 'C20-4': ('/tmp/wt2_C20', 2, 'C20', 'the page carrying the "Current month" header is also the table page (one-page statement)', {'C20': ['every-page-is-tested-for-the-table']}, 'caught after rule R20f (no path to the next page ahead of the marker test) was added'),
 # ---- third round (fresh agents; asked for plausible refactorings / optimisations / clean-ups, two cooperating edits, less central paths)
 'C01-5': ('/tmp/wt3_C01', 1, 'C01', 'a non-CAD trade with commission currency CAD and an empty commission-rate cell', {'C01': ['R1e|portfolio::model::tx::get_valid_exchange_rate']}, ''),
 'C01-6': ('/tmp/wt3_C01', 2, 'C01', '--symbol-base and a security name with a lower-case letter', {'C16': ['symbol-key-unmodified']}, 'seeded against C01, reported by the C16 check (R16c)'),
 'C02-5': ('/tmp/wt3_C02', 1, 'C02', 'an un-forced 0 in the superficial-loss cell of a superficial sale (dropped at CSV parse time)', {'C02': ['supplied-loss-carried-whatever-its-value']}, 'caught after rule R2j (the supplied value reaches the record unconditionally) was added'),
 'C02-6': ('/tmp/wt3_C02', 2, 'C02', 'two rows with one settlement date and trade dates against file order', {'C07': ['order-key-fields']}, 'seeded against C02, reported by the C07 check (R7a)'),
 'C03-5': ('/tmp/wt3_C03', 1, 'C03', 'three or more buying affiliates holding shares at the end of the window', {'C05': ['@sfl_validation|unwrap<Pos>']}, 'seeded against C03, reported by the C05 check (sign analysis of the remainder handed to PosDecimal)'),
 'C03-6': ('/tmp/wt3_C03', 2, 'C03', 'a superficial sale that carries a commission', {'C01': ['R1b|gain-inputs|Sell']}, 'seeded against C03, reported by the C01 check (R1b: a gain no longer depends on the commission)'),
 'C04-5': ('/tmp/wt3_C04', 1, 'C04', 'more than 20 rows, unsorted concatenation, same-day Buy/Sell pairs', {'C07': ['sort-dominates-split']}, 'seeded against C04, reported by the C07 check (R7b)'),
 'C04-6': ('/tmp/wt3_C04', 2, 'C04', 'two runs with -d into the same directory, the second with a now rejected security', {'C04': ['output-file-starts-empty']}, 'caught after rule R4g (output files are opened truncating) was added'),
 'C05-5': ('/tmp/wt3_C05', 1, 'C05', 'a data row with more fields than the header (two cooperating edits: flexible reader + Vec index)', {'C05': ['R5c|portfolio::io::tx_csv::parse_tx_csv'], 'C07': ['anchor-lost:column-index-map']}, 'first reported only as a lost anchor of C07 R7d; R5c was extended to indices taken from enumerate() over another sequence'),
 'C05-6': ('/tmp/wt3_C05', 2, 'C05', '-b symbol equal to a CSV security up to case', {'C16': ['R16b|app::approot::run_acb_app_to_delta_models']}, 'seeded against C05 (reaches an assert), reported by the C16 check'),
 'C06-5': ('/tmp/wt3_C06', 1, 'C06', 'a gain settling on Dec 29-31 or Jan 1-3 of a year whose ISO week-year differs', {'C06': ['year-key-is-calendar-year']}, 'caught after R6c was extended (the year key is plainly Date::year(), also through helper functions)'),
 'C06-6': ('/tmp/wt3_C06', 2, 'C06', 'a figure within 1e-10 below a half cent', {'C06': ['R6a|util::decimal::dollar_precision_str']}, ''),
 'C07-5': ('/tmp/wt3_C07', 1, 'C07', 'input listed in trade-date order with two rows settling in the reverse order', {'C07': ['sort-dominates-split']}, ''),
 'C07-6': ('/tmp/wt3_C07', 2, 'C07', 'files named in non-lexicographic order (same edit as C07-3, independently)', {'C07': ['files-read-in-the-order-given']}, ''),
 'C08-5': ('/tmp/wt3_C08', 1, 'C08', 'a failing security whose name sorts before a healthy one', {'C08': ['R8d|app::approot::run_acb_app_to_render_model']}, 'caught after R8d was extended (per-security data is not taken from a list by position)'),
 'C08-6': ('/tmp/wt3_C08', 2, 'C08', 'another security spelling the default affiliate in a different case earlier in the input', {'C08': ['R8f|']}, 'caught after rule R8f (an Affiliate is only built inside the interning table) was added'),
 'C09-5': ('/tmp/wt3_C09', 1, 'C09', 'a header repeating a recognised column (same edit as C09-4, independently)', {'C09': ['parse_tx_csv|consume|next'], 'C07': ['anchor-lost:column-index-map']}, ''),
 'C09-6': ('/tmp/wt3_C09', 2, 'C09', 'a denied loss shared by three affiliates with non-terminating ratios', {'C09': ['split_adjustment_amount|consume']}, ''),
 'C10-5': ('/tmp/wt3_C10', 1, 'C10', '--summarize-annual-gains and a year netting to zero (same idea as C10-1)', {'C10': ['one-sale-per-summarised-year']}, ''),
 'C10-6': ('/tmp/wt3_C10', 2, 'C10', 'a forced zero ("0!") on an unsummarisable sale', {'C11': ['R11d|trigger-guard|superficial loss']}, 'seeded against C10, reported by the C11 check (R11c/R11d/R11e)'),
 'C11-5': ('/tmp/wt3_C11', 1, 'C11', 'a memo containing a backslash that also needs quoting', {'C11': ['reader-and-writers-use-one-dialect']}, 'caught after rule R11k (no dialect setter on the csv reader / writer builders) was added'),
 'C11-6': ('/tmp/wt3_C11', 2, 'C11', 'trade and commission in the same non-CAD currency at different rates (same spot as C11-1 / C10-3, third time)', {'C11': ['commission-currency-exported-whenever-present']}, ''),
 'C12-5': ('/tmp/wt3_C12', 1, 'C12', 'a USD row dated 31 December of a leap year', {'C12': ['every-observation-is-kept']}, 'caught after rule R12g (the padding function pushes every downloaded observation) was added'),
 'C12-6': ('/tmp/wt3_C12', 2, 'C12', 'a publication gap of more than 7 days with rows on two days inside it, looked up in ascending order', {'C12': ['day-map-insert']}, ''),
 'C13-5': ('/tmp/wt3_C13', 1, 'C13', 'a look-back across New Year into a year memoised from a stale cache', {'C13': ['download-guarded-by-year-memo'], 'C12': ['R12b|fx::io::rate_loader::RateLoader::find_usd_cad_preceding_relevant_spot_rate']}, ''),
 'C13-6': ('/tmp/wt3_C13', 2, 'C13', 'the CSV cache, a year from 2017 on, a second run (same idea as C13-4, independently)', {'C13': ['cache-stores-rates-losslessly'], 'C06': ['R6a|fx::io::rates_cache::csv::cached_rate_string']}, ''),
 'C14-5': ('/tmp/wt3_C14', 1, 'C14', 'a first write killed mid-row; the reader promotes the left-over temp file (third independent occurrence)', {'C14': ['recover_pending_rates_csv_file']}, ''),
 'C14-6': ('/tmp/wt3_C14', 2, 'C14', 'a guard struct that fsyncs and renames without flushing the csv writer', {'C14': ['no-rename-into-place']}, ''),
 'C15-5': ('/tmp/wt3_C15', 1, 'C15', 'two CSV files with affiliates of one security in different files and a blank-affiliate split', {'C07': ['mutation-between-sort-and-split'], 'C09': ['run_acb_app_to_delta_models']}, 'seeded against C15, reported by the C07 and C09 checks (rows changed between the sort and the split; a list filled in hash order)'),
 'C15-6': ('/tmp/wt3_C15', 2, 'C15', 'same edit as C15-1 / C15-3 (third independent occurrence)', {'C15': ['split-factor-recorded-unconditionally']}, ''),
 'C16-5': ('/tmp/wt3_C16', 1, 'C16', 'same idea as C16-3 at the call site in approot', {'C16': ['opening-position-handed-on-unchanged']}, ''),
 'C16-6': ('/tmp/wt3_C16', 2, 'C16', 'a specification with four or more fields (three next() calls on split)', {'C16': ['specification-has-exactly-three-fields']}, ''),
 'C17-5': ('/tmp/wt3_C17', 1, 'C17', 'more than 20 deltas, interleaved securities, a superficial-loss sale whose adjustment goes to the default affiliate', {'C17': ['every-delta-reaches-the-cost-pass']}, 'caught after R17g was extended (the delta list is not re-ordered either)'),
 'C17-6': ('/tmp/wt3_C17', 2, 'C17', '--symbol-base and a first transaction of the security by another affiliate', {'C17': ['nothing-recorded-before-the-skip-filters']}, ''),
 'C18-5': ('/tmp/wt3_C18', 1, 'C18', 'same edit as C18-4, independently', {'C18': ['no-binary-float-expansion']}, ''),
 'C18-6': ('/tmp/wt3_C18', 2, 'C18', 'a blank-headed column inside the table (two cooperating edits)', {'C18': ['R18b|peripheral::broker::questrade::sheet_to_txs']}, ''),
 'C19-5': ('/tmp/wt3_C19', 1, 'C19', 'another security sold in the window with exactly the benefit\'s sold-share count', {'C19': ['benefit-with-sold-shares-is-always-matched']}, ''),
 'C19-6': ('/tmp/wt3_C19', 2, 'C19', 'same idea as C19-4, independently', {'C19': ['every-parsed-entry-is-collected']}, ''),
 'C20-5': ('/tmp/wt3_C20', 1, 'C20', 'a statement of nine or more pages with the table on page 9, 18, ...', {'C20': ['remainder-ranges-cover-every-page']}, 'caught after rule R20h (remainder ranges start at 1, reach num_pages and are contiguous) was added; the corrected windowing is silent'),
 'C20-6': ('/tmp/wt3_C20', 2, 'C20', 'same idea as C20-2, independently', {'C20': ['unfinishable-total-like-line-joins-the-security']}, 'caught after rule R20g was added (it now also reports C20-2)'),
}
VERIF = os.path.dirname(os.path.dirname(os.path.abspath(__file__)))
def main(ids):
    for sid in ids:
        wt, n, pid, needs, caught, note = SEEDS[sid]
        src = os.path.join(wt, '_seed', str(n))
        dst = os.path.join(VERIF, 'seeded', sid)
        if not os.path.isdir(src):
            print('missing', src); continue
        if os.path.exists(dst): shutil.rmtree(dst)
        os.makedirs(dst)
        for fn in os.listdir(src):
            p = os.path.join(src, fn)
            if fn.endswith('.log') or fn.startswith('suite_') or fn.startswith('build'):
                continue
            if os.path.isdir(p): shutil.copytree(p, os.path.join(dst, fn))
            elif os.path.getsize(p) < 400000: shutil.copy(p, dst)
        meta = {'id': sid, 'property': pid, 'breaks': pid, 'needs_to_manifest': needs, 'caught_by': caught,
                'detected': bool(caught), 'note': note,
                'what_was_run': ['git apply patch.diff in a scratch worktree of /repo at its HEAD at the time (round 1: bc25aab; round 2: bc25aab / 4ed83c2, re-checked on 89537fd; round 3: 6e5b063, re-checked on 4ac4f3b)', 'cargo build --offline --workspace',
                                 'cargo test --workspace --offline --no-fail-fast: 114 lib + all integration tests pass (only the network test test_sample_csv_file_validity fails, as on the clean tree)',
                                 'demonstration test copied into tests/: FAILS with the patch, PASSES without it',
                                 './check <every registered property> --repo <patched worktree>'],
                'source': 'independent sub-agent given only the property text and its own worktree'}
        json.dump(meta, open(os.path.join(dst, 'meta.json'), 'w'), indent=1)
        print('stored', sid, sorted(os.listdir(dst)))
if __name__ == '__main__':
    main(sys.argv[1:] or sorted(SEEDS))
