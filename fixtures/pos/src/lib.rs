//! Positive examples for the repository-independent rules (DESIGN.md E4). This crate is analysed on EVERY run;
//! each `bad_*` function must be reported and each `ok_*` function must not, so that a rule which silently
//! stopped matching anything cannot pass vacuously.
use std::collections::{HashMap, HashSet};

// ---- hash-order rule (C09)
pub fn bad_hash_loop_push(m: &HashMap<String, i32>) -> String {
    let mut out = Vec::new();
    for (k, _v) in m {
        out.push(k.clone());
    }
    // used in hash order: the loop made `out` a hash-ordered sequence, exactly as `collect()` would have
    out.join(",")
}

// the same loop followed by a total sort is fine (must NOT be reported)
pub fn ok_hash_loop_push_sorted(m: &HashMap<String, i32>) -> String {
    let mut out = Vec::new();
    for (k, _v) in m {
        out.push(k.clone());
    }
    out.sort();
    out.join(",")
}

pub fn bad_hash_collect_join(s: HashSet<String>) -> String {
    let v: Vec<String> = s.into_iter().collect();
    v.join(",")
}

pub fn bad_sort_with_bool_key(s: HashSet<String>) -> Vec<String> {
    let mut v: Vec<String> = s.into_iter().collect();
    v.sort_by_key(|x| x.is_empty());
    v
}

pub fn ok_hash_collect_sorted(m: &HashMap<String, i32>) -> Vec<String> {
    let mut v: Vec<String> = m.keys().cloned().collect();
    v.sort();
    v
}

pub fn ok_hash_rekeyed(m: &HashMap<String, i32>) -> HashMap<String, i32> {
    let mut out = HashMap::new();
    for (k, v) in m {
        out.insert(k.clone(), *v);
    }
    out
}

// ---- index-stability rule (C18 / C07)
pub fn bad_header_map_filtered(cells: Vec<String>) -> HashMap<String, usize> {
    cells.into_iter().filter(|c| !c.is_empty()).enumerate().map(|(i, c)| (c, i)).collect()
}

pub fn ok_header_map(cells: Vec<String>) -> HashMap<String, usize> {
    cells.into_iter().enumerate().filter(|(_, c)| !c.is_empty()).map(|(i, c)| (c, i)).collect()
}

// ---- parser-result discipline (C05)
pub fn bad_unwrap_user_number(s: &str) -> i64 {
    s.parse::<i64>().unwrap()
}

pub fn ok_unwrap_constant() -> i64 {
    "42".parse::<i64>().unwrap()
}

pub fn ok_propagate_user_number(s: &str) -> Result<i64, String> {
    s.parse::<i64>().map_err(|e| e.to_string())
}

// ---- parallel-array indexing (C05 R5c)
pub fn bad_parallel_index(names: &Vec<String>, values: &Vec<i64>) -> Vec<(String, i64)> {
    let mut out = Vec::new();
    for i in 0..names.len() {
        out.push((names[i].clone(), values[i]));
    }
    out
}

pub fn bad_parallel_index_slice(names: &[String], values: &[i64]) -> i64 {
    let mut t = 0;
    let mut i = 0;
    while i < names.len() {
        t += values[i];
        i += 1;
    }
    t
}

pub fn ok_same_vec_index(values: &Vec<i64>) -> i64 {
    let mut t = 0;
    for i in 0..values.len() {
        t += values[i];
    }
    t
}

pub fn ok_parallel_index_checked(names: &Vec<String>, values: &Vec<i64>) -> Result<i64, String> {
    if names.len() != values.len() {
        return Err("length mismatch".to_string());
    }
    let mut t = 0;
    for i in 0..names.len() {
        t += values[i];
    }
    Ok(t)
}

pub fn ok_parallel_zip(names: &Vec<String>, values: &Vec<i64>) -> Vec<(String, i64)> {
    names.iter().cloned().zip(values.iter().copied()).collect()
}
