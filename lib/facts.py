"""Produce MIR-lite facts for /repo's current working tree with the acbdrv driver.

Facts are keyed by a hash of everything the build reads (sources, manifests, lock file, build.rs,
the driver binary); any edit to /repo gives a new key, so nothing stale is ever reused.
"""
import fcntl
import hashlib
import os, re
import shutil
import subprocess
import sys
import time

VERIF = os.path.dirname(os.path.dirname(os.path.abspath(__file__)))
REPO = os.environ.get('ACB_REPO', '/repo')
BUILD = os.environ.get('ACB_VERIF_BUILD', os.path.join(VERIF, 'build'))
DRV_SRC = os.path.join(VERIF, 'tools', 'acbdrv')
DRV_BIN = os.path.join(BUILD, 'drv', 'release', 'acbdrv')
WRAPPER = os.path.join(VERIF, 'tools', 'rustc_wrapper.sh')

# configuration name -> (cargo args, crates whose fact files must exist afterwards)
CONFIGS = {
    # what `cargo test --workspace` builds for the product targets
    'default': (['--workspace', '--lib', '--bins'],
                ['acb', 'acb_bin', 'acb_wasm', 'csv_to_xlsx_bin', 'etrade_plan_pdf_tx_extract_bin', 'pdf_text_bin',
                 'questrade_statement_fmv_bin', 'tx_export_convert_bin']),
    # what acb_wasm links: the library without the CLI-only features
    'wasm': (['-p', 'acb', '--lib', '--no-default-features', '--features', 'wasm'], ['acb']),
    'allfeatures': (['-p', 'acb', '--lib', '--bins', '--all-features'], ['acb']),
}


def log(msg):
    sys.stderr.write('[facts] %s\n' % msg)
    sys.stderr.flush()


def nightly_sysroot():
    return subprocess.check_output(['rustc', '+nightly', '--print', 'sysroot'], text=True).strip()


def build_driver():
    env = dict(os.environ, CARGO_NET_OFFLINE='true', CARGO_TARGET_DIR=os.path.join(BUILD, 'drv'))
    srcs = [os.path.join(DRV_SRC, 'src', 'main.rs'), os.path.join(DRV_SRC, 'Cargo.toml')]
    if os.path.exists(DRV_BIN) and all(os.path.getmtime(DRV_BIN) >= os.path.getmtime(s) for s in srcs):
        return
    log('building acbdrv')
    subprocess.check_call(['cargo', 'build', '--offline', '--release', '-q'], cwd=DRV_SRC, env=env)


def _iter_source_files(repo):
    roots = ['src', 'acb_wasm/src']
    singles = ['Cargo.toml', 'Cargo.lock', 'build.rs', 'acb_wasm/Cargo.toml', 'rust-toolchain.toml',
               'rust-toolchain', '.cargo/config.toml']
    for r in roots:
        base = os.path.join(repo, r)
        for dp, dns, fns in os.walk(base):
            dns.sort()
            for fn in sorted(fns):
                yield os.path.join(dp, fn)
    for s in singles:
        p = os.path.join(repo, s)
        if os.path.exists(p):
            yield p


def tree_hash(repo=REPO):
    h = hashlib.sha256()
    for p in _iter_source_files(repo):
        h.update(os.path.relpath(p, repo).encode())
        h.update(b'\0')
        with open(p, 'rb') as f:
            h.update(f.read())
        h.update(b'\0')
    with open(DRV_BIN, 'rb') as f:
        h.update(hashlib.sha256(f.read()).digest())
    return h.hexdigest()[:20]


def ensure(config='default', repo=REPO):
    """Return the directory holding fresh fact files for `repo` under `config`."""
    os.makedirs(BUILD, exist_ok=True)
    # ACB_FACTS_SLOT=<n>: development aid for analysing several scratch trees at once — one cargo target directory (and lock) per slot
    slot = re.sub(r'[^0-9A-Za-z]', '', os.environ.get('ACB_FACTS_SLOT', ''))
    glock = open(os.path.join(BUILD, '.lock'), 'w')
    fcntl.flock(glock, fcntl.LOCK_EX)
    try:
        build_driver()
    finally:
        fcntl.flock(glock, fcntl.LOCK_UN)
        glock.close()
    lock = open(os.path.join(BUILD, '.lock' + slot), 'w')
    fcntl.flock(lock, fcntl.LOCK_EX)
    try:
        key = tree_hash(repo)
        tag = hashlib.sha256(os.path.abspath(repo).encode()).hexdigest()[:6]
        out = os.path.join(BUILD, 'facts', '%s-%s-%s' % (config, tag, key))
        if os.path.exists(os.path.join(out, '.ok')):
            try:
                os.utime(out, None)   # most-recently-used: pruning evicts the oldest directory
            except OSError:
                pass
            return out
        final = out
        out = '%s.tmp-%d' % (final, os.getpid())
        if os.path.exists(out):
            shutil.rmtree(out)
        os.makedirs(out)
        tgt = os.path.join(BUILD, 'target' + ('-' + slot if slot else ''))
        # cargo replays cached diagnostics and skips the wrapper when a member is fresh: clear the
        # members' fingerprints so that the driver really runs.
        for prof in ('debug',):
            fp = os.path.join(tgt, prof, '.fingerprint')
            if os.path.isdir(fp):
                for d in os.listdir(fp):
                    if d.startswith('acb-') or d.startswith('acb_wasm-'):
                        shutil.rmtree(os.path.join(fp, d), ignore_errors=True)
        args, expect = CONFIGS[config]
        env = dict(os.environ)
        env.update({
            'CARGO_NET_OFFLINE': 'true',
            'CARGO_TARGET_DIR': tgt,
            'RUSTC_WRAPPER': WRAPPER,
            'RUSTC_WORKSPACE_WRAPPER': DRV_BIN,
            'LD_LIBRARY_PATH': nightly_sysroot() + '/lib' + (':' + env['LD_LIBRARY_PATH'] if env.get('LD_LIBRARY_PATH') else ''),
            'RUSTFLAGS': '-Awarnings',
            'ACBDRV_OUT': out,
        })
        env.pop('RUSTUP_TOOLCHAIN', None)
        t0 = time.time()
        cmd = ['cargo', '+nightly', 'check', '--offline', '-q'] + args
        log('running driver: %s (in %s)' % (' '.join(cmd), repo))
        p = subprocess.run(cmd, cwd=repo, env=env, stdout=subprocess.PIPE, stderr=subprocess.STDOUT, text=True)
        if p.returncode != 0 and 'could not execute process' in p.stdout:
            # the compiler process could not be started (a transient lack of memory / process slots on a busy machine): once more
            log('driver could not be started, retrying once')
            time.sleep(5)
            for fn_ in os.listdir(out):
                os.remove(os.path.join(out, fn_))
            p = subprocess.run(cmd, cwd=repo, env=env, stdout=subprocess.PIPE, stderr=subprocess.STDOUT, text=True)
        if p.returncode != 0:
            sys.stderr.write(p.stdout[-6000:])
            shutil.rmtree(out, ignore_errors=True)
            raise RuntimeError('driver build failed for config %s (the tree does not compile?)' % config)
        have = {}
        for fn in os.listdir(out):
            if fn.endswith('.jsonl'):
                have.setdefault(fn.rsplit('-', 1)[0], []).append(fn)
        missing = [c for c in expect if c not in have]
        if missing:
            shutil.rmtree(out, ignore_errors=True)
            raise RuntimeError('driver produced no facts for crates %s (cargo skipped the wrapper?)' % missing)
        with open(os.path.join(out, '.ok'), 'w') as f:
            f.write('%s %.1f\n' % (config, time.time() - t0))
        # publish atomically (another slot may have produced the same facts meanwhile)
        if os.path.exists(os.path.join(final, '.ok')):
            shutil.rmtree(out, ignore_errors=True)
        else:
            if os.path.exists(final):
                shutil.rmtree(final, ignore_errors=True)
            os.rename(out, final)
        out = final
        log('facts ready in %.1fs: %s' % (time.time() - t0, out))
        _prune(os.path.join(BUILD, 'facts'), keep=out)
        return out
    finally:
        fcntl.flock(lock, fcntl.LOCK_UN)
        lock.close()


def ensure_fixture():
    """facts for the positive-example crate /verif/fixtures/pos (analysed on every run)"""
    os.makedirs(BUILD, exist_ok=True)
    lock = open(os.path.join(BUILD, '.lock'), 'w')
    fcntl.flock(lock, fcntl.LOCK_EX)
    try:
        build_driver()
        fx = os.path.join(VERIF, 'fixtures', 'pos')
        h = hashlib.sha256()
        for rel in ('Cargo.toml', 'src/lib.rs'):
            with open(os.path.join(fx, rel), 'rb') as f:
                h.update(f.read())
        with open(DRV_BIN, 'rb') as f:
            h.update(hashlib.sha256(f.read()).digest())
        out = os.path.join(BUILD, 'facts', 'fixture-%s' % h.hexdigest()[:20])
        if os.path.exists(os.path.join(out, '.ok')):
            os.utime(out, None)
            return out
        if os.path.exists(out):
            shutil.rmtree(out)
        os.makedirs(out)
        tgt = os.path.join(BUILD, 'target-fixture')
        shutil.rmtree(os.path.join(tgt, 'debug', '.fingerprint'), ignore_errors=True)
        env = dict(os.environ)
        env.update({'CARGO_NET_OFFLINE': 'true', 'CARGO_TARGET_DIR': tgt, 'RUSTC_WORKSPACE_WRAPPER': DRV_BIN,
                    'LD_LIBRARY_PATH': nightly_sysroot() + '/lib', 'RUSTFLAGS': '-Awarnings', 'ACBDRV_OUT': out})
        env.pop('RUSTC_WRAPPER', None)
        p = subprocess.run(['cargo', '+nightly', 'check', '--offline', '-q'], cwd=fx, env=env, stdout=subprocess.PIPE,
                           stderr=subprocess.STDOUT, text=True)
        if p.returncode != 0 or not [f for f in os.listdir(out) if f.endswith('.jsonl')]:
            sys.stderr.write(p.stdout[-3000:])
            shutil.rmtree(out, ignore_errors=True)
            raise RuntimeError('fixture crate could not be analysed')
        with open(os.path.join(out, '.ok'), 'w') as f:
            f.write('fixture\n')
        return out
    finally:
        fcntl.flock(lock, fcntl.LOCK_UN)
        lock.close()


def _prune(root, keep, max_dirs=32):
    # the facts of the repository under verification are not evicted by scratch analyses (development aids run many of those)
    own = '-%s-' % hashlib.sha256(os.path.abspath(REPO).encode()).hexdigest()[:6]
    mine = sorted([d for d in os.listdir(root) if own in d], key=lambda d: os.path.getmtime(os.path.join(root, d)))[-6:]
    ds = [os.path.join(root, d) for d in os.listdir(root) if d not in mine]
    ds = [d for d in ds if os.path.isdir(d) and d != keep and not ('.tmp-' in d and time.time() - os.path.getmtime(d) < 3600)]
    ds.sort(key=os.path.getmtime)
    while len(ds) > max_dirs - 1:
        shutil.rmtree(ds.pop(0), ignore_errors=True)


if __name__ == '__main__':
    cfg = sys.argv[1] if len(sys.argv) > 1 else 'default'
    repo = sys.argv[2] if len(sys.argv) > 2 else REPO
    print(ensure(cfg, repo))
