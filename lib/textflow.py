"""Forward flow of a piece of text (or of a value the text is part of): where can it end up?

`TextFlow(prog, is_error_stream).run(fn, local)` follows a local through copies, references, Option / Result / tuple wrappers,
formatting (format!, to_string, join, concat, Display adaptors), error plumbing (`?`, map_err, ok_or..), captures into closures,
arguments into functions of the crate, and returns into every product caller.  It stops at *sinks*:

    ok sinks   : write_fmt / write_str / write_all on a stream that `is_error_stream(fn, call, arg index)` proves to be the error stream;
                 eprint; tracing events; drop
    bad sinks  : everything else that takes the value and is not modelled (a stdout / file write, a store into a struct or a field,
                 an unmodelled callee) — reported with the place

Returns (ok_sinks, bad) with bad = [(fn, where, why)].  Used to decide "this hash-ordered text reaches nothing but the error
stream" without a reviewed-table entry (C09)."""
import re

import mir
from mir import is_place, op_local

PASS = {'deref', 'deref_mut', 'borrow', 'borrow_mut', 'as_ref', 'as_mut', 'as_str', 'as_bytes', 'clone', 'to_owned', 'to_string', 'into', 'from',
        'join', 'concat', 'format', 'must_use', 'new_display', 'new_debug', 'new_v1', 'new_const', 'new_v1_formatted', 'new', 'as_statically_known_str',
        'unwrap', 'expect', 'unwrap_or_default', 'branch', 'from_residual', 'from_output', 'map_err', 'ok_or', 'ok_or_else', 'ok', 'err', 'map',
        'unwrap_err', 'expect_err', 'as_deref', 'cloned', 'copied', 'to_lowercase', 'to_uppercase', 'trim', 'iter', 'into_iter', 'collect', 'from_iter',
        'push_str', 'push', 'extend', 'fmt', 'write_fmt_args', 'into_boxed_str', 'into_string', 'and_then', 'or_else', 'unwrap_or_else', 'unwrap_or'}
STREAM_WRITE = {'write_fmt', 'write_str', 'write_all', 'write'}


class TextFlow:
    def __init__(self, prog, is_error_stream, max_nodes=4000):
        self.prog, self.is_error_stream, self.max_nodes = prog, is_error_stream, max_nodes

    def run(self, fn, local):
        """follow `local` of fn; the state of a tracked local is the enum variant the text is known to sit in (None = the value itself)"""
        prog = self.prog
        seen = set()
        work = [(fn, local, None)]
        ok_sinks, bad = [], []

        def add(f, l, var=None):
            if l is not None and (f.name, l, var) not in seen:
                seen.add((f.name, l, var))
                work.append((f, l, var))
        seen.add((fn.name, local, None))
        n = 0
        while work:
            f, l, var = work.pop()
            n += 1
            if n > self.max_nodes:
                bad.append((f, '', 'flow too large to follow'))
                break
            if l == 0:
                if f.kind in ('Closure', 'SyntheticCoroutineBody'):
                    hs = mir.handed_to(prog, f)
                    if not hs:
                        cs = [c for c in prog.callers.get(f.name, []) if not mir.is_testsupport(c.fn.name)]
                        if not cs:
                            bad.append((f, '', 'returned from a closure whose use is not followed'))
                        for c in cs:
                            # Future::poll of an async body: Poll::Ready(value)
                            add(c.fn, c.dst_local(), None)
                    for (par, hc, ai) in hs:
                        # result of the adaptor the closure was handed to: map_err(.., f) keeps the value in Err, ok_or_else likewise
                        v2 = 'Err' if hc.short in ('map_err', 'ok_or_else', 'or_else') and 'result' in hc.callee.lower() or hc.short == 'ok_or_else' else None
                        add(par, hc.dst_local(), v2)
                    continue
                cs = [c for c in prog.callers.get(f.name, []) if not mir.is_testsupport(c.fn.name)]
                if not cs and f.vis.startswith('pub') and f.crate == 'acb' and not f.name.startswith('<'):
                    bad.append((f, '%s:%d' % (f.file, f.line), 'returned from public function %s, which has no caller in the product' % f.name))
                for c in cs:
                    if c.dst_local() is not None:
                        add(c.fn, c.dst_local(), var)
                    else:
                        bad.append((c.fn, c.where(), 'result of %s stored through a projection' % f.name))
                continue
            for (bb, idx, kind, node) in f.uses_of(l):
                if kind == 'stmt':
                    r = node['r']
                    # which variant does this statement read the local through?
                    dcs = [e['dc'] for pl in f.stmt_sources(node) if pl['l'] == l for e in pl['p'] if isinstance(e, dict) and 'dc' in e]
                    nvar = var
                    if dcs:
                        if var is not None and dcs[0] != var:
                            continue          # the other variant's payload: the text is not in it
                        nvar = None
                    if r['rv'] == 'discr':
                        continue
                    if node['dst']['p']:
                        if node['dst']['l'] == 0 or not any(isinstance(e, dict) and 'f' in e for e in node['dst']['p']):
                            add(f, node['dst']['l'], None)
                        else:
                            bad.append((f, f.where(node), 'stored into a field'))
                    elif r['rv'] in ('use', 'ref', 'cast', 'rawptr'):
                        add(f, node['dst']['l'], nvar)
                    elif r['rv'] == 'agg':
                        kd = r['kind']
                        m = re.search(r'^adt:std::(?:option::Option|result::Result)::(\w+)$', kd)
                        if m:
                            add(f, node['dst']['l'], m.group(1) if m.group(1) != 'None' else None)
                        elif kd in ('tuple', 'array') or kd.startswith('adt:std::option::Option') or kd.startswith('adt:std::result::Result') or \
                                kd.startswith('adt:std::fmt::') or kd.startswith('adt:core::fmt::') or kd.startswith('adt:std::ops::ControlFlow'):
                            add(f, node['dst']['l'], None)
                        elif kd.startswith('closure:') or kd.startswith('coroutine:'):
                            g = prog.by_crate[f.crate].get(kd.split(':', 1)[1])
                            if g is not None:
                                for k, o in enumerate(r['ops']):
                                    if op_local(o) == l:
                                        self._taint_upvar(g, k, add, bad)
                        else:
                            bad.append((f, f.where(node), 'stored in a %s' % kd[:60]))
                elif kind == 'call':
                    c = f.call_at[bb]
                    if '$crate::event' in c.exp or c.short in ('drop', 'drop_in_place'):
                        ok_sinks.append((f, c.where(), 'tracing / drop'))
                        continue
                    if c.callee.endswith('_eprint'):
                        ok_sinks.append((f, c.where(), 'eprint'))
                        continue
                    if c.callee.endswith('io::_print') or c.callee.endswith('stdio::_print'):
                        bad.append((f, c.where(), 'printed to standard output'))
                        continue
                    ai = [i for i, a in enumerate(c.args) if op_local(a) == l]
                    if c.short in STREAM_WRITE and ai and ai[0] >= 1:
                        if self.is_error_stream(f, c, 0):
                            ok_sinks.append((f, c.where(), 'written to the error stream'))
                        else:
                            bad.append((f, c.where(), 'written to a stream that is not provably the error stream (%s)' % f.ty.get(c.arg_local(0), '')[:50]))
                        continue
                    g = prog.resolve(c.callee, f.crate) or prog.resolve(c.decl, f.crate)
                    if g is not None and not mir.is_testsupport(g.name) and g.kind in ('Fn', 'AssocFn'):
                        for i in ai:
                            add(g, i + 1, var)
                        continue
                    dl = c.dst_local() if c.dst_local() is not None else c.dst['l']
                    if c.short == 'branch':
                        add(f, dl, {'Err': 'Break', 'Ok': 'Continue', None: None}.get(var))
                        continue
                    if c.short == 'from_residual':
                        add(f, dl, 'Err')
                        continue
                    if c.short == 'from_output':
                        add(f, dl, 'Ok')
                        continue
                    if c.short in ('unwrap', 'expect', 'unwrap_or_default', 'unwrap_or', 'unwrap_or_else') and var == 'Err':
                        continue      # the Err payload is dropped (or the program panics)
                    if c.short in ('unwrap_err', 'expect_err', 'err') and var == 'Ok':
                        continue
                    if c.short in ('map_err', 'or_else', 'unwrap_or_else') and var in (None, 'Err') and len(c.args) > 1:
                        g2 = mir._closure_fn_of(prog, f, c.args[1])
                        if g2 is not None:
                            add(g2, 2, None)          # the closure receives the payload
                            continue
                    if c.short in ('map', 'and_then') and var in (None, 'Ok', 'Some') and len(c.args) > 1 and ai and ai[0] == 0:
                        g2 = mir._closure_fn_of(prog, f, c.args[1])
                        if g2 is not None:
                            add(g2, 2, None)
                            if var is None:
                                add(f, dl, None)
                            continue
                    if c.short in PASS or re.search(r'^(std|core|alloc)::fmt::', c.callee):
                        keep = var if c.short in ('clone', 'as_ref', 'as_mut', 'as_deref', 'borrow', 'deref', 'map_err', 'map', 'cloned', 'copied', 'into', 'from') else None
                        add(f, dl, keep)
                        if c.short in ('push_str', 'push', 'extend') and ai and ai[0] >= 1:
                            add(f, mir.nearest_user_local(f, c.args[0]) or c.arg_local(0), None)
                        continue
                    bad.append((f, c.where(), 'passed to %s' % c.callee))
        return ok_sinks, bad

    def _taint_upvar(self, g, k, add, bad):
        for b2 in g.blocks.values():
            for s2 in b2['stmts']:
                for pl in g.stmt_sources(s2):
                    fs = [e for e in pl['p'] if isinstance(e, dict) and 'f' in e]
                    if pl['l'] == 1 and fs and fs[0]['f'] == str(k):
                        add(g, s2['dst']['l'], None)
            t2 = b2['term']
            if t2 and t2['t'] == 'call':
                for a2 in t2['args']:
                    if is_place(a2) and a2['pl']['l'] == 1:
                        fs = [e for e in a2['pl']['p'] if isinstance(e, dict) and 'f' in e]
                        if fs and fs[0]['f'] == str(k):
                            bad.append((g, g.where(t2), 'captured text passed on directly'))
