"""Which capture groups of a regular expression (syntax of the `regex` crate) take part in EVERY match?

parse(pattern) -> Groups. A group is *mandatory* when no enclosing construct can succeed without it: it is not inside a branch of
an alternation, and neither it nor an enclosing group carries a quantifier that admits zero repetitions (`?`, `*`, `{0,n}`).
`Captures::get(i)` / `name(n)` is `Some` for every successful match exactly for those groups (an empty match still participates).
The judgement is conservative: anything not understood (verbose mode, an unbalanced pattern) raises Unsupported and the caller
fails closed.

decode_rust_str / decode_rust_bytes turn the debug rendering of a constant (as exported in the facts) back into text;
template_pieces decodes a `fmt::Arguments` template (library/core/src/fmt/mod.rs: length-prefixed literal pieces, 0b11______
placeholder bytes, terminated by 0) into literal pieces and holes.
"""


class Unsupported(Exception):
    pass


class Group:
    __slots__ = ('index', 'name', 'mandatory', 'why')

    def __init__(self, index, name):
        self.index = index
        self.name = name
        self.mandatory = True
        self.why = ''

    def __repr__(self):
        return 'Group(%d,%r,%s)' % (self.index, self.name, 'mandatory' if self.mandatory else 'optional: ' + self.why)


class Groups:
    def __init__(self, groups):
        self.groups = groups

    def by_index(self, i):
        if i == 0:
            g = Group(0, None)
            return g
        for g in self.groups:
            if g.index == i:
                return g
        return None

    def by_name(self, n):
        for g in self.groups:
            if g.name == n:
                return g
        return None


HOLE = '￼'     # stands for one format hole: an opaque, balanced sub-pattern without groups of its own


def parse(pat):
    st = {'i': 0, 'n': 0, 'groups': []}

    def peek():
        return pat[st['i']] if st['i'] < len(pat) else ''

    def take():
        c = peek()
        st['i'] += 1
        return c

    def skip_class():
        # at '[' (already consumed)
        if peek() == '^':
            take()
        if peek() == ']':
            take()
        depth = 1
        while depth:
            c = take()
            if c == '':
                raise Unsupported('unterminated character class')
            if c == '\\':
                take()
            elif c == '[':
                if peek() == ':':
                    # [:alpha:]
                    j = pat.find(':]', st['i'])
                    if j < 0:
                        raise Unsupported('unterminated [: :]')
                    st['i'] = j + 2
                else:
                    depth += 1
                    if peek() == '^':
                        take()
                    if peek() == ']':
                        take()
            elif c == ']':
                depth -= 1

    def skip_escape():
        c = take()
        if c == '':
            raise Unsupported('dangling backslash')
        if c in 'pP':
            if peek() == '{':
                j = pat.find('}', st['i'])
                if j < 0:
                    raise Unsupported('unterminated \\p{')
                st['i'] = j + 1
            else:
                take()
        elif c in 'xuU':
            if peek() == '{':
                j = pat.find('}', st['i'])
                if j < 0:
                    raise Unsupported('unterminated \\x{')
                st['i'] = j + 1
            else:
                n = {'x': 2, 'u': 4, 'U': 8}[c]
                st['i'] += n

    def quantifier_min():
        """consume a quantifier if there is one; return its minimum repetition count (None: no quantifier)"""
        c = peek()
        mn = None
        if c == '?':
            take(); mn = 0
        elif c == '*':
            take(); mn = 0
        elif c == '+':
            take(); mn = 1
        elif c == '{':
            j = pat.find('}', st['i'])
            body = pat[st['i'] + 1:j] if j > 0 else ''
            import re as _re
            m = _re.fullmatch(r'\s*(\d*)\s*(,\s*(\d*)\s*)?', body)
            if j > 0 and m and (m.group(1) or m.group(2)):
                st['i'] = j + 1
                mn = int(m.group(1)) if m.group(1) else 0
            else:
                return None     # a literal brace
        if mn is not None and peek() == '?':
            take()              # lazy
        return mn

    def alternation(verbose):
        branches = [concat(verbose)]
        while peek() == '|':
            take()
            branches.append(concat(verbose))
        if len(branches) > 1:
            for br in branches:
                for g in br:
                    if g.mandatory:
                        g.mandatory = False
                        g.why = 'inside one branch of an alternation'
        return [g for br in branches for g in br]

    def concat(verbose):
        out = []
        while True:
            c = peek()
            if c == '' or c == '|' or c == ')':
                return out
            inner = []
            take()
            if c == '(':
                capturing, name = True, None
                if peek() == '?':
                    take()
                    if pat.startswith('P<', st['i']) or (peek() == '<' and not pat.startswith('<=', st['i']) and not pat.startswith('<!', st['i'])):
                        if peek() == 'P':
                            take()
                        take()
                        j = pat.find('>', st['i'])
                        if j < 0:
                            raise Unsupported('unterminated group name')
                        name = pat[st['i']:j]
                        st['i'] = j + 1
                    else:
                        # flags: (?i) or (?i:...)
                        flags = ''
                        while peek() not in (')', ':', ''):
                            flags += take()
                        if 'x' in flags.split('-')[0]:
                            raise Unsupported('verbose mode')
                        if peek() == ')':
                            take()
                            continue        # a flag setting, not a group
                        if peek() == ':':
                            take()
                        capturing = False
                g = None
                if capturing:
                    st['n'] += 1
                    g = Group(st['n'], name)
                    st['groups'].append(g)
                inner = alternation(verbose)
                if take() != ')':
                    raise Unsupported('unbalanced parenthesis')
                if g is not None:
                    inner = [g] + inner
            elif c == '[':
                skip_class()
            elif c == '\\':
                skip_escape()
            mn = quantifier_min()
            if mn == 0:
                for g in inner:
                    if g.mandatory:
                        g.mandatory = False
                        g.why = 'under a quantifier that admits zero repetitions'
            out += inner

    gs = alternation(False)
    if st['i'] != len(pat):
        raise Unsupported('unbalanced pattern at %d' % st['i'])
    return Groups(st['groups'])


def neutral(text):
    """may `text` be spliced into a pattern as one opaque atom sequence?  balanced, no top-level `|`, and it defines no capture
    group (which would shift the numbering)"""
    try:
        g = parse('(?:' + text + ')')
    except Unsupported:
        return False, 'not a balanced sub-pattern'
    depth = 0
    i = 0
    while i < len(text):
        c = text[i]
        if c == '\\':
            i += 2
            continue
        if c == '[':
            j = i + 1
            if j < len(text) and text[j] == '^':
                j += 1
            if j < len(text) and text[j] == ']':
                j += 1
            while j < len(text) and text[j] != ']':
                if text[j] == '\\':
                    j += 1
                j += 1
            i = j + 1
            continue
        if c == '(':
            depth += 1
        elif c == ')':
            depth -= 1
        elif c == '|' and depth == 0:
            return False, 'an alternation at its top level'
        i += 1
    return True, ('%d group(s)' % len(g.groups))


def _unescape(body, as_bytes):
    out = bytearray() if as_bytes else []
    i = 0
    while i < len(body):
        c = body[i]
        if c != '\\':
            if as_bytes:
                out += c.encode('utf-8')
            else:
                out.append(c)
            i += 1
            continue
        d = body[i + 1] if i + 1 < len(body) else ''
        simple = {'n': '\n', 't': '\t', 'r': '\r', '0': '\0', '\\': '\\', '"': '"', "'": "'"}
        if d in simple:
            if as_bytes:
                out += simple[d].encode()
            else:
                out.append(simple[d])
            i += 2
        elif d == 'x':
            v = int(body[i + 2:i + 4], 16)
            if as_bytes:
                out.append(v)
            else:
                out.append(chr(v))
            i += 4
        elif d == 'u':
            j = body.index('}', i)
            v = int(body[i + 3:j], 16)
            if as_bytes:
                out += chr(v).encode('utf-8')
            else:
                out.append(chr(v))
            i = j + 1
        else:
            raise Unsupported('escape \\%s in a constant' % d)
    return bytes(out) if as_bytes else ''.join(out)


def decode_rust_str(v):
    """'"a\\\\d"' (debug rendering of a &str constant) -> 'a\\d'"""
    v = v.strip()
    if not (v.startswith('"') and v.endswith('"')):
        return None
    return _unescape(v[1:-1], False)


def decode_rust_bytes(v):
    v = v.strip()
    if not (v.startswith('b"') and v.endswith('"')):
        return None
    return _unescape(v[2:-1], True)


def template_pieces(raw):
    """fmt::Arguments template bytes -> list of ('lit', text) / ('hole', arg_index)"""
    out = []
    i = 0
    nxt = 0
    while True:
        if i >= len(raw):
            raise Unsupported('template not terminated')
        n = raw[i]
        i += 1
        if n == 0:
            if i != len(raw):
                raise Unsupported('bytes after the end of the template')
            return out
        if n < 0x80:
            out.append(('lit', raw[i:i + n].decode('utf-8')))
            i += n
        elif n == 0x80:
            ln = raw[i] | (raw[i + 1] << 8)
            i += 2
            out.append(('lit', raw[i:i + ln].decode('utf-8')))
            i += ln
        elif n >= 0xC0:
            if n & 0x01:
                i += 4
            if n & 0x02:
                i += 2
            if n & 0x04:
                i += 2
            if n & 0x08:
                idx = raw[i] | (raw[i + 1] << 8)
                i += 2
            else:
                idx = nxt
            nxt = idx + 1
            out.append(('hole', idx))
        else:
            raise Unsupported('template byte 0x%02x' % n)


if __name__ == '__main__':
    import sys
    for p in sys.argv[1:]:
        print(p, parse(p).groups)
