"""C02 — superficial-loss rule: the clauses fixed as numbers and comparison operators.  DESIGN.md 5.C02
(R2a 30-day window constants, R2b one shared notion of the window, R2c inclusive bounds, R2d 0.001 tolerance / force)."""
import re
from fractions import Fraction

import mir
from mir import short, is_place, op_local

LEVEL = 'other'
EXPLANATION = ('Decides the clauses of C02 that the statement fixes as numbers and operators (where the off-by-one risk lives): (R2a) the window '
               'is settlement date - 30 days .. settlement date + 30 days, from exactly two public functions; (R2b) bookkeeping and summary use '
               'those two functions and no private date arithmetic of their own; (R2c) both scan loops leave the window strictly outside the '
               'bounds (day +-30 is inside) and compare settlement dates; (R2d) a user-supplied superficial loss is rejected when it differs by '
               'strictly more than 0.001, and only when not forced. Not decided: accumulation of buys/sells/splits inside the window, the '
               'min(sold, acquired, held)/sold ratio, split scaling, the reported gain.')
TRUSTED_BASE = ['rustc nightly MIR construction and trait resolution', 'time::Date +- Duration::days(n) moves n calendar days',
                'rust_decimal::Decimal::from_parts(lo, mid, hi, negative, scale) = (hi*2^64 + mid*2^32 + lo) / 10^scale']
ASSUMPTIONS = []

SFL = 'portfolio::bookkeeping::superficial_loss::'
DATE_ARITH = re.compile(r'^time::Date::(saturating_sub|saturating_add|checked_sub|checked_add|previous_day|next_day)$|'
                        r'<time::Date as std::ops::(Sub|Add)<time::Duration>>::(sub|add)$')
CMP_OPS = {'gt': 'gt', 'lt': 'lt', 'ge': 'ge', 'le': 'le'}


def const_int(prog, fn, o):
    if o['k'] == 'const':
        m = re.match(r'^(-?\d+)_[iu]\w+$', o.get('v', ''))
        if m:
            return int(m.group(1))
        d = o.get('def')
        g = prog.resolve(d, fn.crate) if d else None
        if g is not None:
            for b in g.blocks.values():
                for s in b['stmts']:
                    if s['dst']['l'] == 0 and s['r']['rv'] == 'use':
                        return const_int(prog, g, s['r']['ops'][0])
        return None
    org = mir.provenance(fn, o)
    vals = set()
    for (ty, v, d) in org.consts:
        x = const_int(prog, fn, {'k': 'const', 'v': v, 'def': d})
        if x is not None:
            vals.add(x)
    if len(vals) == 1 and not org.params and not org.binops:
        return vals.pop()
    if org.binops and not org.params and not org.calls:
        return fold_int(prog, fn, o)
    return None


def fold_int(prog, fn, o, depth=0):
    """evaluate an integer expression over literals (`15 * 2`, `7 * 4 + 2`): MIR keeps such arithmetic as checked binops"""
    if depth > 12:
        return None
    if o['k'] == 'const':
        return const_int(prog, fn, o)
    l = o['pl']['l']
    d = fn.single_def(l)
    if d is None or d[2] != 'stmt':
        return None
    r = d[3]['r']
    if r['rv'] == 'use':
        return fold_int(prog, fn, r['ops'][0], depth + 1)
    if r['rv'] == 'cast' and r.get('ops'):
        return fold_int(prog, fn, r['ops'][0], depth + 1)
    if r['rv'] == 'binop':
        a = fold_int(prog, fn, r['ops'][0], depth + 1)
        b = fold_int(prog, fn, r['ops'][1], depth + 1)
        if a is None or b is None:
            return None
        op = r['op'].replace('WithOverflow', '').replace('Unchecked', '')
        if op == 'Add':
            return a + b
        if op == 'Sub':
            return a - b
        if op == 'Mul':
            return a * b
    return None


def days_of(prog, fn, operand):
    """number of days of a Duration operand (Duration::days(n) / Duration::weeks(n))"""
    org = mir.provenance(fn, operand)
    out = []
    for c in org.calls:
        if c.callee == 'time::Duration::days':
            n = const_int(prog, fn, c.args[0])
            out.append(n)
        elif c.callee == 'time::Duration::weeks':
            n = const_int(prog, fn, c.args[0])
            out.append(None if n is None else 7 * n)
        elif c.callee.startswith('time::Duration::'):
            out.append(None)
    for (ty, v, d) in org.consts:
        if d and 'Duration' in ty:
            g = prog.resolve(d, fn.crate)
            if g is not None:
                out.append(days_of(prog, g, 0))
    if len(out) == 1:
        return out[0]
    return None


def decimal_const(prog, fn, o):
    """value of a Decimal constant operand as a Fraction (dec!() / Decimal::new / named const)"""
    if o['k'] == 'const' and o.get('def'):
        g = prog.resolve(o['def'], fn.crate)
        if g is not None:
            return decimal_const(prog, g, {'k': 'copy', 'pl': {'l': 0, 'p': []}})
    if not is_place(o):
        return None
    org = mir.provenance(fn, o)
    for c in org.calls:
        if c.callee.endswith('Decimal::from_parts') and all(a['k'] == 'const' for a in c.args):
            lo, mid, hi = [int(re.match(r'\d+', a['v']).group(0)) for a in c.args[:3]]
            negv = c.args[3]['v'] == 'true'
            scale = int(re.match(r'\d+', c.args[4]['v']).group(0))
            v = Fraction(hi * 2 ** 64 + mid * 2 ** 32 + lo, 10 ** scale)
            return -v if negv else v
        if c.callee.endswith('Decimal::new') and all(a['k'] == 'const' for a in c.args):
            n = int(re.match(r'-?\d+', c.args[0]['v']).group(0))
            scale = int(re.match(r'\d+', c.args[1]['v']).group(0))
            return Fraction(n, 10 ** scale)
    for (ty, v, d) in org.consts:
        if d:
            g = prog.resolve(d, fn.crate)
            if g is not None and g is not fn:
                return decimal_const(prog, g, {'k': 'copy', 'pl': {'l': 0, 'p': []}})
    return None


def run(prog, rep, tier='quick', config='default'):
    r2j(prog, rep)
    r2k(prog, rep)
    # ------------------------------------------------------------------ R2a
    wfns = {}
    for fn in prog.product_fns():
        if not fn.name.startswith('portfolio::bookkeeping::') or fn.kind not in ('Fn', 'AssocFn'):
            continue      # anywhere in the bookkeeping (the helpers may live in a sub-module of their own)
        if fn.ty.get(0) != 'time::Date' or fn.argc != 1 or fn.ty.get(1) != 'time::Date':
            continue
        ar = [c for c in fn.calls if DATE_ARITH.search(c.callee)]
        if len(ar) == 1:
            wfns[fn.name] = (fn, ar[0])
    if not rep.anchor('window functions Date -> Date in the superficial-loss module', sorted(wfns)):
        return
    subs = {n: v for n, v in wfns.items() if re.search(r'sub|previous', v[1].callee)}
    adds = {n: v for n, v in wfns.items() if re.search(r'add|next', v[1].callee)}
    if len(subs) != 1 or len(adds) != 1:
        rep.violation('R2a', 'one-lower-one-upper', detail='expected exactly one "first day" (date - n) and one "last day" (date + n) function, found %s / %s'
                      % (sorted(subs), sorted(adds)))
        return
    first, last = list(subs.values())[0], list(adds.values())[0]
    for label, (fn, c) in (('first-day', first), ('last-day', last)):
        n = days_of(prog, fn, c.args[1]) if len(c.args) > 1 else (1 if re.search(r'previous_day|next_day', c.callee) else None)
        recv = mir.provenance(fn, c.args[0])
        k = '%s|%s-is-30-days' % (fn.name, label)
        if n == 30 and recv.params == {1} and fn.vis == 'pub':
            rep.ok('R2a', k, where=c.where(), fn=fn.name, detail='%s(settlement_date, Duration::days(30))' % short(c.callee))
        else:
            rep.violation('R2a', k, where=c.where(), fn=fn.name,
                          detail='the superficial-loss window bound is settlement date %s %s days (must be 30)%s'
                                 % ('-' if label == 'first-day' else '+', n, '' if fn.vis == 'pub' else '; function is no longer public'))

    # ------------------------------------------------------------------ R2b
    wnames = {first[0].name, last[0].name}
    n_private = 0
    for fn in prog.product_fns():
        if not (fn.name.startswith('portfolio::bookkeeping::') or fn.name.startswith('portfolio::summary::')):
            continue
        if fn.name in wnames:
            continue
        for c in fn.calls:
            if DATE_ARITH.search(c.callee) and not c.in_macro:
                n_private += 1
                rep.violation('R2b', '%s|private-date-arithmetic' % fn.name, where=c.where(), fn=fn.name,
                              detail='%s computes a date offset itself (%s) instead of using the two window functions: a second notion of the '
                                     '30-day window' % (fn.name, short(c.callee)))
    users = {}
    for w in wnames:
        for c in prog.callers.get(w, []):
            if not mir.is_testsupport(c.fn.name):
                users.setdefault(prog.owner_of(c.fn).name.split('::')[1] if '::' in c.fn.name else c.fn.name, []).append(c)
    mods = {('summary' if 'summary' in c.fn.name else 'bookkeeping') for w in wnames for c in prog.callers.get(w, []) if not mir.is_testsupport(c.fn.name)}
    if n_private == 0 and mods >= {'summary', 'bookkeeping'}:
        rep.ok('R2b', 'one-shared-window', fn=SFL, detail='bookkeeping and summary both call the two window functions; no other Date +- Duration in those modules')
    elif n_private == 0:
        rep.violation('R2b', 'one-shared-window', fn=SFL, detail='the window functions are no longer used by both bookkeeping and summary (users: %s)' % sorted(mods))
    # the argument of the window functions is a settlement date
    for w in wnames:
        for c in prog.callers.get(w, []):
            if mir.is_testsupport(c.fn.name):
                continue
            org = mir.provenance(c.fn, c.args[0], follow_all_call_args=False)
            dates = {f for (of, f) in org.fields if of.endswith('model::tx::Tx') and 'date' in f}
            k = '%s|window-of-settlement-date|%s' % (c.fn.name, short(w))
            if dates and dates != {'settlement_date'}:
                rep.violation('R2b', k, where=c.where(), fn=c.fn.name, detail='the window is computed around Tx.%s (must be the settlement date)' % sorted(dates))
            elif dates:
                rep.ok('R2b', k, where=c.where(), fn=c.fn.name, detail='window computed around Tx.settlement_date', trivial=True)

    # ------------------------------------------------------------------ R2c
    from props import anchors as _an
    scan = _an.window_scan(prog, first[0].name, last[0].name) or prog.fn(SFL + 'get_superficial_loss_info')
    if rep.anchor('get_superficial_loss_info (window scan)', scan):
        found = {'upper': 0, 'lower': 0}
        for c in scan.calls:
            m = re.search(r'PartialOrd::(gt|lt|ge|le)$', c.decl)
            if not m or len(c.args) != 2:
                continue
            op = m.group(1)
            o = [mir.provenance(scan, a, follow_all_call_args=False) for a in c.args]
            side = None
            for i in (0, 1):
                if o[i].has_call(re.escape(last[0].name) + '$'):
                    side = ('upper', i)
                if o[i].has_call(re.escape(first[0].name) + '$'):
                    side = ('lower', i)
            if side is None:
                continue
            which, bi = side
            xi = 1 - bi
            xf = {f for (of, f) in o[xi].fields if of.endswith('model::tx::Tx') and 'date' in f}
            found[which] += 1
            k = 'scan-%s-bound#%d' % (which, found[which])
            if xf != {'settlement_date'}:
                rep.violation('R2c', k + '|settlement-date', where=c.where(), fn=scan.name,
                              detail='the %s window bound is compared with Tx.%s: acquisitions count by settlement date' % (which, sorted(xf) or '?'))
                continue
            # on which outcome of the comparison does control leave the enclosing loop?
            lp = None
            for (nc, header, body) in scan.iterator_loops():
                if c.bb in body and (lp is None or len(body) < len(lp[2])):
                    lp = (nc, header, body)
            sw = scan.blocks[c.target]['term'] if c.target in scan.blocks else None
            if lp is None or not sw or sw['t'] != 'switch':
                rep.violation('R2c', k, where=c.where(), fn=scan.name, detail='the window comparison does not control a loop exit')
                continue
            false_t = [t for v, t in sw['targets'] if v == 0]
            true_t = sw['otherwise']
            body = lp[2]

            def leaves(b):
                return b not in body or not scan.reaches(b, lp[1], avoid=set()) or (b not in body)
            exit_on_true = true_t not in body or not scan.reaches(true_t, lp[1])
            exit_on_false = bool(false_t) and (false_t[0] not in body or not scan.reaches(false_t[0], lp[1]))
            if exit_on_true == exit_on_false:
                rep.violation('R2c', k, where=c.where(), fn=scan.name, detail='cannot tell which outcome of the window comparison leaves the scan loop')
                continue
            truth = exit_on_true
            # normalise to: exit when  x OP bound
            opn = op if xi == 0 else {'gt': 'lt', 'lt': 'gt', 'ge': 'le', 'le': 'ge'}[op]
            if not truth:
                opn = {'gt': 'le', 'le': 'gt', 'lt': 'ge', 'ge': 'lt'}[opn]
            want = 'gt' if which == 'upper' else 'lt'
            if opn == want:
                rep.ok('R2c', k, where=c.where(), fn=scan.name,
                       detail='the scan stops when settlement_date %s %s bound: day %s30 is inside the window' % ('>' if want == 'gt' else '<', which, '+' if which == 'upper' else '-'))
            else:
                sym = {'gt': '>', 'ge': '>=', 'lt': '<', 'le': '<='}[opn]
                rep.violation('R2c', k, where=c.where(), fn=scan.name,
                              detail='the scan stops when settlement_date %s %s bound (must be %s): an acquisition exactly 30 days %s the sale would be '
                                     '%s' % (sym, which, '>' if want == 'gt' else '<', 'after' if which == 'upper' else 'before',
                                             'excluded' if opn in ('ge', 'le') else 'handled wrongly'))
        # the same scans written as `txs.iter().skip(i + 1).take_while(|t| t.settlement_date <= last)`: the scan leaves the window
        # when the predicate is false
        for g in prog.closures_of(scan):
            tw = [(par, hc) for (par, hc, ai) in mir.handed_to(prog, g) if hc.decl.endswith('Iterator::take_while')]
            if not tw:
                continue
            for c in g.calls:
                m = re.search(r'PartialOrd::(gt|lt|ge|le)$', c.decl)
                if not m or len(c.args) != 2:
                    continue
                op = m.group(1)
                o = [mir.origins_with_captures(prog, scan, g, a) for a in c.args]
                side = None
                for i in (0, 1):
                    if any(re.search(re.escape(last[0].name) + '$', x.callee) for x in o[i][1]):
                        side = ('upper', i)
                    if any(re.search(re.escape(first[0].name) + '$', x.callee) for x in o[i][1]):
                        side = ('lower', i)
                if side is None:
                    continue
                which, bi = side
                xi = 1 - bi
                xf = {f for (of, f) in o[xi][0] if of.endswith('model::tx::Tx') and 'date' in f}
                found[which] += 1
                k = 'scan-%s-bound#%d' % (which, found[which])
                if xf != {'settlement_date'}:
                    rep.violation('R2c', k + '|settlement-date', where=c.where(), fn=scan.name,
                                  detail='the %s window bound is compared with Tx.%s: acquisitions count by settlement date' % (which, sorted(xf) or '?'))
                    continue
                ret = mir.provenance(g, 0)
                if c not in ret.calls or ret.unops or ret.binops or len([x for x in ret.calls if re.search(r'PartialOrd::', x.decl)]) != 1:
                    rep.violation('R2c', k, where=c.where(), fn=scan.name, detail='the take_while predicate is not the plain window comparison')
                    continue
                # continue while  x OP bound  ->  exit when the negation holds
                opn = op if xi == 0 else {'gt': 'lt', 'lt': 'gt', 'ge': 'le', 'le': 'ge'}[op]
                opn = {'gt': 'le', 'le': 'gt', 'lt': 'ge', 'ge': 'lt'}[opn]
                want = 'gt' if which == 'upper' else 'lt'
                if opn == want:
                    rep.ok('R2c', k, where=c.where(), fn=scan.name,
                           detail='take_while: the scan stops when settlement_date %s %s bound: day %s30 is inside the window' % ('>' if want == 'gt' else '<', which, '+' if which == 'upper' else '-'))
                else:
                    sym = {'gt': '>', 'ge': '>=', 'lt': '<', 'le': '<='}[opn]
                    rep.violation('R2c', k, where=c.where(), fn=scan.name,
                                  detail='the scan stops when settlement_date %s %s bound (must be %s): an acquisition exactly 30 days %s the sale would be '
                                         'excluded' % (sym, which, '>' if want == 'gt' else '<', 'after' if which == 'upper' else 'before'))
        for which in ('upper', 'lower'):
            if found[which] == 0:
                rep.violation('R2c', 'anchor-lost:%s-bound-comparison' % which, fn=scan.name,
                              detail='anchor lost: no comparison of a transaction date with the %s window bound in the scan' % which)

    # ------------------------------------------------------------------ R2d
    from props import anchors
    val = anchors.sfl_validation(prog) or prog.fn('portfolio::bookkeeping::delta_list::get_delta_superficial_loss_info')
    if rep.anchor('get_delta_superficial_loss_info (specified-SFL validation)', val):
        hits = 0
        for c in val.calls:
            m = re.search(r'PartialOrd::(gt|lt|ge|le)$', c.decl)
            if not m or len(c.args) != 2:
                continue
            vals = [decimal_const(prog, val, a) for a in c.args]
            ci = [i for i, v in enumerate(vals) if v is not None]
            if len(ci) != 1:
                continue
            other = mir.provenance(val, c.args[1 - ci[0]], follow_all_call_args=True)
            if not other.has_call(r'Decimal::abs$'):
                continue
            hits += 1
            tol = vals[ci[0]]
            op = m.group(1)
            opn = op if ci[0] == 1 else {'gt': 'lt', 'lt': 'gt', 'ge': 'le', 'le': 'ge'}[op]
            # which outcome reaches the Err return
            sw = val.blocks[c.target]['term'] if c.target in val.blocks else None
            k = 'tolerance'
            if tol != Fraction(1, 1000):
                rep.violation('R2d', k + '|value', where=c.where(), fn=val.name, detail='the allowed discrepancy is %s (must be 0.001)' % float(tol))
            else:
                rep.ok('R2d', k + '|value', where=c.where(), fn=val.name, detail='MAX_DIFF evaluates to 0.001')
            errs = {i for i, b in val.blocks.items() for s in b['stmts'] if not s['dst']['p'] and s['r']['rv'] == 'agg' and s['r']['kind'].endswith('Result::Err')}
            if sw and sw['t'] == 'switch':
                true_t = sw['otherwise']
                false_t = [t for v, t in sw['targets'] if v == 0]
                # the Err block that does not also follow the other branch
                t_err = any(e == true_t or val.reaches(true_t, e) for e in errs)
                f_err = bool(false_t) and any(e == false_t[0] or val.reaches(false_t[0], e) for e in errs)
                t_only = {e for e in errs if (e == true_t or val.reaches(true_t, e))} - {e for e in errs if false_t and (e == false_t[0] or val.reaches(false_t[0], e))}
                f_only = {e for e in errs if false_t and (e == false_t[0] or val.reaches(false_t[0], e))} - {e for e in errs if (e == true_t or val.reaches(true_t, e))}
                if t_only and not f_only:
                    rej = opn
                elif f_only and not t_only:
                    rej = {'gt': 'le', 'le': 'gt', 'lt': 'ge', 'ge': 'lt'}[opn]
                else:
                    rej = None
                if rej == 'gt':
                    rep.ok('R2d', k + '|strict', where=c.where(), fn=val.name, detail='rejected iff |computed - specified| > 0.001 (strict)')
                else:
                    rep.violation('R2d', k + '|strict', where=c.where(), fn=val.name,
                                  detail='the specified loss is rejected when the difference is %s 0.001 (must be strictly greater)' % {'ge': '>=', 'lt': '<', 'le': '<=', None: '?'}.get(rej, rej))
                # Err only when not forced
                err_b = sorted(t_only or f_only)
                forced_guard = False
                for e in err_b:
                    for (sbb, discr, vs, neg) in val.conditions_at(e):
                        d = mir.provenance(val, discr, follow_all_call_args=True)
                        if any(f == 'force' for of, f in d.fields):
                            t = (vs != [0]) if vs is not None else (0 in (neg or []))
                            if any(o2 == 'Not' for o2, _ in d.binops):
                                t = not t
                            if not t:
                                forced_guard = True
                if forced_guard:
                    rep.ok('R2d', k + '|only-when-not-forced', where=c.where(), fn=val.name, detail='the rejection is reachable only when SFLInput.force is false')
                else:
                    rep.violation('R2d', k + '|only-when-not-forced', where=c.where(), fn=val.name,
                                  detail='the discrepancy rejection is not confined to un-forced values: a forced superficial loss must be accepted')
        # R2d': a specified loss is never accepted without either passing the discrepancy check or being forced
        if hits:
            cmp_blocks = set()
            for c in val.calls:
                m = re.search(r'PartialOrd::(gt|lt|ge|le)$', c.decl)
                if m and len(c.args) == 2 and any(decimal_const(prog, val, a) is not None for a in c.args):
                    cmp_blocks.add(c.bb)
            entry = None
            forced_edges = set()
            for i, b in val.blocks.items():
                t = b['term']
                if not t or t['t'] != 'switch':
                    continue
                d = mir.provenance(val, t['discr'], follow_all_call_args=True)
                if any(f == 'specified_superficial_loss' for of, f in d.fields) and not any(f == 'force' for of, f in d.fields) and entry is None:
                    # the arm taken when a value is present: the discriminant value 1 (Some)
                    some_t = [tg for v, tg in t['targets'] if v == 1] or [t['otherwise']]
                    entry = some_t[0]
                if any(f == 'force' for of, f in d.fields):
                    neg_op = any(o2 == 'Not' for o2, _ in d.binops)
                    true_t = t['otherwise']
                    false_t = [tg for v, tg in t['targets'] if v == 0]
                    # successor taken when force == true
                    forced_edges.add(false_t[0] if (neg_op and false_t) else true_t)
            errs = {i for i, b in val.blocks.items() for s2 in b['stmts'] if not s2['dst']['p'] and s2['r']['rv'] == 'agg' and s2['r']['kind'].endswith('Result::Err')}
            errs |= {c.bb for c in val.calls if c.short == 'from_residual'}
            if entry is None or not forced_edges:
                rep.violation('R2d', 'anchor-lost:specified-branch', fn=val.name, detail='anchor lost: the branch handling a user-specified superficial loss / its force flag')
            else:
                reach = {entry} | val.reachable_from(entry, avoid=cmp_blocks | forced_edges | errs)
                leaks = [e for e in val.exits if e in reach]
                if entry in cmp_blocks | forced_edges:
                    leaks = []
                if leaks:
                    rep.violation('R2d', 'specified-loss-always-validated-or-forced', fn=val.name, where='%s:%d' % (val.file, val.line),
                                  detail='a user-specified superficial loss can be accepted on a path that neither passes the 0.001 discrepancy check nor '
                                         'requires the force marker (an early return precedes the validation)')
                else:
                    rep.ok('R2d', 'specified-loss-always-validated-or-forced', fn=val.name,
                           detail='every non-error path through the specified-loss branch passes the discrepancy check or the force==true edge')
        # R2e: the force marker influences nothing but the discrepancy check
        readers = []
        allowed = {val.name}
        for fn in prog.product_fns():
            if not fn.name.startswith('portfolio::bookkeeping::') and not fn.name.startswith('portfolio::summary::'):
                continue
            own = set(getattr(fn, 'origin', fn).blocks)       # on a view with helpers spliced in, a read is attributed to the function it is written in
            for c in fn.calls:
                if c.bb in own and not c.inlined and re.search(r'PartialOrd::(gt|lt|ge|le)$', c.decl) and len(c.args) == 2 and \
                        any(decimal_const(prog, fn, a) is not None for a in c.args) and \
                        any(mir.provenance(fn, a, follow_all_call_args=True).has_call(r'Decimal::abs$') for a in c.args):
                    allowed.add(fn.name)      # the helper holding the discrepancy comparison itself
            for bi, b in fn.blocks.items():
                if bi not in own:
                    continue
                for s2 in b['stmts']:
                    for pl in fn.stmt_sources(s2):
                        if any(of.endswith('model::tx::SFLInput') and fl == 'force' for of, fl in mir.place_fields(pl)):
                            readers.append((fn, s2))
                tm = b['term']
                if tm and tm['t'] == 'switch' and is_place(tm['discr']) and any(of.endswith('model::tx::SFLInput') and fl == 'force' for of, fl in mir.place_fields(tm['discr']['pl'])):
                    readers.append((fn, tm))
        bad = [(fn, n2) for (fn, n2) in readers if fn.name not in allowed]
        # summary re-emits rows with an explicit (forced) loss: constructing SFLInput is not a read
        if bad:
            fn, n2 = bad[0]
            rep.violation('R2e', 'force-only-affects-the-discrepancy-check', where=fn.where(n2), fn=fn.name,
                          detail='SFLInput.force is consulted in %s: the force marker must only switch off the 0.001 discrepancy check (e.g. a declared loss on a sale '
                                 'without a loss is rejected whether forced or not)' % fn.name)
        elif readers:
            rep.ok('R2e', 'force-only-affects-the-discrepancy-check', fn=val.name, detail='%d read(s) of SFLInput.force in the bookkeeping, all in the validation function' % len(readers))
        else:
            rep.violation('R2e', 'anchor-lost:force-reads', fn=val.name, detail='anchor lost: no read of SFLInput.force in the bookkeeping')
        if hits == 0:
            rep.violation('R2d', 'anchor-lost:tolerance-comparison', fn=val.name, detail='anchor lost: comparison of |computed - specified| with a Decimal constant')


def error_only_otherwise(fn, sw, towards):
    """the branch at block `sw` is a validation: every way out of it that does not lead on to block `towards` ends in an error
    return (the function's result is only ever set to Err(..) / a propagated residual there) — nothing is skipped silently"""
    for t in fn.succ.get(sw, []):
        region = {t} | fn.reachable_from(t)
        if towards in region:
            continue
        if not any(e in region for e in fn.exits):
            continue        # diverges (panic)
        for b in region:
            for st in fn.blocks[b]['stmts']:
                if st['dst']['l'] == 0 and not (st['r']['rv'] == 'agg' and st['r']['kind'].endswith('Result::Err')):
                    return False
            c = fn.call_at.get(b)
            if c is not None and c.dst['l'] == 0 and c.short != 'from_residual':
                return False
    return True


def r2k(prog, rep):
    """every capital loss is examined: in the ledger step the superficial-loss examination of a sale is entered exactly when the
    computed capital gain converts to a strictly negative decimal (`NegDecimal::try_from(gain)` is Ok) — the value tested is that
    conversion and nothing else, and no other comparison of amounts decides whether the examination runs (a loss that exists only
    because of the commission, or only after currency conversion, is a loss)"""
    from props import anchors
    ls, root = anchors.ledger_step(prog), anchors.sfl_validation(prog)
    if not rep.anchor('ledger step and superficial-loss examination (R2k)', ls and root):
        return
    NEG_TF = r'ConstrainedDecimal<(util::decimal::constraint::)?Neg>'

    def pure_conversion(g, l, depth=0, seen=None):
        """local l of g holds (a Result / Option made from) NegDecimal::try_from(x) and nothing else"""
        seen = seen if seen is not None else set()
        if (g.name, l) in seen or depth > 6:
            return False
        seen.add((g.name, l))
        defs = [d for d in g.defs.get(l, []) if not d[3]['dst']['p']]
        if not defs:
            return False
        for (bb, idx, kind, node) in defs:
            if kind == 'stmt':
                r = node['r']
                if r['rv'] in ('use', 'ref') and (is_place(r['ops'][0]) if r['rv'] == 'use' else True):
                    src = r['ops'][0]['pl'] if r['rv'] == 'use' else r['pl']
                    if [e for e in src['p'] if isinstance(e, dict)]:
                        return False
                    if not pure_conversion(g, src['l'], depth + 1, seen):
                        return False
                    continue
                return False          # a literal None / Err / Some: not the conversion
            c = g.call_at[bb]
            if c.short == 'try_from' and re.search(NEG_TF, g.ty.get(c.dst['l'], '') or ''):
                continue
            if c.short in ('ok', 'as_ref', 'clone', 'cloned', 'copied') and c.args and is_place(c.args[0]) and not c.args[0]['pl']['p']:
                if not pure_conversion(g, c.args[0]['pl']['l'], depth + 1, seen):
                    return False
                continue
            h = prog.resolve(c.callee, g.crate)
            if h is not None and h.kind in ('Fn', 'AssocFn') and re.search(NEG_TF, h.ty.get(0) or ''):
                if not pure_conversion(h, 0, depth + 1, seen):
                    return False
                continue
            return False
        return True
    calls = [c for c in ls.calls if c.callee == root.name]      # on an inline view the spliced call is still listed, at its own block
    # when the action arms are functions of their own (`step.apply_sell(..)`), the outermost function that builds adjustments is the
    # whole Sell arm, entered for every sale: the examination proper is the first function below it whose call is entered on a
    # NegDecimal test (its spliced call is listed on the view as well)
    def has_loss_test(c):
        for (sbb, discr, vals, neg) in ls.conditions_at(c.bb):
            dl = mir.op_local(discr) if isinstance(discr, dict) and 'k' in discr else None
            dd = ls.single_def(dl) if dl is not None else None
            if dd and dd[2] == 'stmt' and dd[3]['r']['rv'] == 'discr' and re.search(NEG_TF, ls.ty.get(dd[3]['r']['pl']['l'], '') or ''):
                return True
        return False
    if calls and not any(has_loss_test(c) for c in calls):
        below = [g for g in prog.callees_closure([getattr(root, 'origin', root)]).values()
                 if g.name != root.name and g.name.startswith('portfolio::bookkeeping::') and g.kind in ('Fn', 'AssocFn')]
        for g in below:
            deeper = [c for c in ls.calls if c.callee == g.name]
            if deeper and any(has_loss_test(c) for c in deeper):
                calls = deeper
                break
    if not rep.anchor('call of the superficial-loss examination in the ledger step', calls):
        return
    for n, c in enumerate(calls, 1):
        loss_tests, amount_tests = [], []
        for (sbb, discr, vals, neg) in ls.conditions_at(c.bb):
            d = mir.provenance(ls, discr, follow_all_call_args=False)
            dl = mir.op_local(discr) if isinstance(discr, dict) and 'k' in discr else None
            dd = ls.single_def(dl) if dl is not None else None
            tested = dd[3]['r']['pl']['l'] if dd and dd[2] == 'stmt' and dd[3]['r']['rv'] == 'discr' and not [e for e in dd[3]['r']['pl']['p'] if isinstance(e, dict)] else None
            if tested is not None and re.search(NEG_TF, ls.ty.get(tested, '') or ''):
                loss_tests.append((sbb, tested, vals))
                continue
            cmps = [x for x in d.calls if re.search(r'PartialOrd::(lt|le|gt|ge)$|PartialEq::(eq|ne)$|Decimal::(is_zero|is_sign_negative|is_sign_positive)$|::is_negative$|::is_positive$', x.decl + ' ' + x.callee)
                    and any(re.search(r'Decimal', ls.ty.get(a, '') or '') for a in x.arg_locals())]
            if cmps and not error_only_otherwise(ls, sbb, c.bb):
                amount_tests.append((sbb, cmps[0]))
        k = 'loss-examined-iff-gain-is-negative#%d' % n
        if not loss_tests:
            rep.violation('R2k', k, where=c.where(), fn=ls.name,
                          detail='the superficial-loss examination is not entered on the outcome of NegDecimal::try_from(capital gain)')
        elif not all(pure_conversion(ls, t) for (_, t, _) in loss_tests):
            rep.violation('R2k', k, where=c.where(), fn=ls.name,
                          detail='whether a sale counts as a loss is not decided by the sign of the computed capital gain alone: the tested value is '
                                 'produced by something that can answer "no loss" for other reasons (e.g. a price comparison that ignores the commission)')
        elif amount_tests:
            sbb, x = amount_tests[0]
            rep.violation('R2k', k, where=x.where(), fn=ls.name,
                          detail='the superficial-loss examination also depends on a comparison of amounts (%s): a capital loss can escape it' % short(x.callee))
        else:
            rep.ok('R2k', k, where=c.where(), fn=ls.name, detail='entered exactly on the Ok outcome of NegDecimal::try_from(capital gain); no other amount comparison on the way')


def r2j(prog, rep):
    """a superficial-loss value supplied in the CSV reaches the ledger whatever it is: on its way from the parsed cell to the
    transaction record (CSV row -> CsvTx -> Tx) it is neither dropped through an Option filter nor made conditional on its own
    amount or force marker. (Otherwise an un-forced `0` on a superficial sale is never seen by the 0.001 check.)"""
    SFL_FIELDS = {'superficial_loss', 'force'}
    DROP = {'filter', 'and_then', 'take_if', 'xor', 'or', 'or_else', 'zip', 'take', 'replace', 'unwrap_or', 'unwrap_or_else', 'unwrap_or_default',
            'is_some_and', 'map_or', 'map_or_else', 'then', 'then_some', 'filter_map'}
    n = 0
    for f in prog.product_fns():
        if not re.match(r'^(portfolio::io::tx_csv|portfolio::model::tx)::|^<portfolio::model::tx::', f.name) or mir.is_testsupport(f.name):
            continue
        for i, b in f.blocks.items():
            for st in b['stmts']:
                r = st['r']
                if r['rv'] != 'agg' or 'specified_superficial_loss' not in r.get('fields', []):
                    continue
                o = r['ops'][r['fields'].index('specified_superficial_loss')]
                if not is_place(o):
                    continue
                org = mir.provenance(f, o, follow_all_call_args=True)
                from_input = any(x.short == 'parse_csv_superficial_loss' for x in org.calls) or \
                    any(fl == 'specified_superficial_loss' for (_, fl) in org.fields)
                if not from_input:
                    continue
                n += 1
                k = '%s|supplied-loss-carried-whatever-its-value' % f.name.split('::{')[0]
                bad = [x for x in org.calls if x.short in DROP and x.decl.startswith('std::')]
                why = None
                if bad:
                    why = 'it passes through Option::%s' % bad[0].short
                for l in org.locals:
                    for (bb, idx, kind, node) in f.defs.get(l, []):
                        if kind != 'stmt' or node['r']['rv'] != 'agg' or not re.search(r'Option::(None|Some)$', node['r']['kind']):
                            continue
                        for (sbb, discr, vals, neg) in f.conditions_at(bb):
                            d = mir.provenance(f, discr, follow_all_call_args=True)
                            if any(fl in SFL_FIELDS and 'SFLInput' in of for (of, fl) in d.fields):
                                why = why or 'whether it is kept depends on its own amount / force marker (condition at %s)' % f.where(f.blocks[sbb]['term'])
                if why:
                    rep.violation('R2j', k, where=f.where(st), fn=f.name,
                                  detail='the supplied superficial-loss value does not reach the transaction record unconditionally: %s. A value that is '
                                         'dropped here is never compared with the computed loss' % why)
                else:
                    rep.ok('R2j', k, where=f.where(st), fn=f.name, detail='the parsed cell / CsvTx field is moved into the record as it is')
    if n < 2:
        rep.violation('R2j', 'anchor-lost:supplied-loss-transport', detail='anchor lost: only %d records built from a supplied superficial-loss value found' % n)
