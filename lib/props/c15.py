"""C15 — stock splits are value-neutral: structural clauses.
  R15a  the Split arm of the ledger step changes share balances only: it assigns neither the cost base nor a gain;
  R15b  the new share balance depends on the split ratio and the previous balance (and nothing of another arm);
  R15c  expanding a global split clones the row and overwrites the affiliate only (same ratio, dates, memo for every
        affiliate), so "once for all affiliates" and "once per affiliate" are the same rows;
  R15d  both superficial-loss scans handle Split rows (a split inside the 30-day window is not ignored)."""
import re

import mir
from mir import short, is_place, op_local
from props import ledger

LEVEL = 'other'
EXPLANATION = ('Decides four necessary structural clauses of C15 (the metamorphic relation itself — equal gains on rescaled inputs — is a relation '
               'between two runs and is not decided): the Split arm assigns neither cost base nor gain; the new balance depends on the ratio '
               'and the old balance; global-split expansion clones the row and changes only the affiliate; both window scans of the '
               'superficial-loss computation have a Split case that feeds the per-affiliate adjustment factor.')
TRUSTED_BASE = ['rustc nightly MIR construction and trait resolution']
ASSUMPTIONS = []
TX = 'portfolio::model::tx::Tx'


def run(prog, rep, tier='quick', config='default'):
    L = ledger.Ledger(prog)
    if not rep.anchor('delta_for_tx with its five action arms', L.ok and L.fn):
        rep.notes.append(L.why)
        return
    f = L.fn
    reg = L.region['Split']
    a = [x for x in L.assignments(L.acb_locals, reg) if not L.is_copy_of_previous_acb(x[1], x[2])]
    g = L.assignments(L.gain_locals, reg)
    if not a and not g:
        rep.ok('R15a', 'split-arm-leaves-cost-base-and-gain-untouched', fn=f.name, detail='no assignment of the cost base or the capital gain in the Split arm (%d blocks)' % len(reg))
    else:
        bb, node, kind = (a or g)[0]
        rep.violation('R15a', 'split-arm-leaves-cost-base-and-gain-untouched', where=f.where(node), fn=f.name,
                      detail='the Split arm assigns %s: a split must rescale shares without changing the total cost or realising a gain' % ('the cost base' if a else 'a capital gain'))
    # R15b: balance depends on ratio and previous balance
    bal_locals = set()
    for b in f.blocks.values():
        for s in b['stmts']:
            if s['r']['rv'] == 'agg' and s['r']['kind'].startswith('adt:' + ledger.PSS):
                for name, o in zip(s['r'].get('fields', []), s['r']['ops']):
                    if name == 'share_balance' and is_place(o):
                        bal_locals |= L._user_roots(o)
    assigns = L.assignments(bal_locals, reg)
    if not assigns:
        rep.violation('R15b', 'split-arm-rescales-balance', fn=f.name, where='%s:%d' % (f.file, f.line), detail='the Split arm does not assign the new share balance')
    else:
        bb, node, kind = assigns[0]
        skip = set().union(*[r for a2, r in L.region.items() if a2 != 'Split'])
        start = node['r']['ops'][0] if kind == 'stmt' and node['r'].get('ops') else node['dst']['l']
        if kind == 'call':
            org = mir.Origins()
            for x in node['args']:
                if is_place(x):
                    o2 = mir.provenance(f, x, follow_all_call_args=True, skip_blocks=skip)
                    org.fields |= o2.fields
                    org.calls += o2.calls
        else:
            org = mir.provenance(f, start, follow_all_call_args=True, skip_blocks=skip)
        fs = {(of.rsplit('::', 1)[-1], fl) for of, fl in org.fields}
        need = {('SplitTxSpecifics', 'ratio'), ('PortfolioSecurityStatus', 'share_balance')}
        if need <= fs:
            rep.ok('R15b', 'split-arm-rescales-balance', where=f.where(node), fn=f.name, detail='new balance depends on SplitTxSpecifics.ratio and the previous share balance')
        else:
            rep.violation('R15b', 'split-arm-rescales-balance', where=f.where(node), fn=f.name,
                          detail='the new share balance of a split does not depend on %s' % sorted(need - fs))

    # ------------------------------------------------------------------ R15c: expansion clones, changes the affiliate only
    ex = prog.fn('portfolio::splits::replace_global_security_splits')
    if rep.anchor('replace_global_security_splits', ex):
        stores = {}
        for b in ex.blocks.values():
            for s in b['stmts']:
                fs = mir.place_fields(s['dst'])
                if fs and fs[-1][0] == TX:
                    stores.setdefault(fs[-1][1], ex.where(s))
                # stores through index_mut / deref results typed Tx
                elif fs and any(of == TX for of, fl in fs):
                    stores.setdefault([fl for of, fl in fs if of == TX][0], ex.where(s))
        aggs = [s for b in ex.blocks.values() for s in b['stmts'] if s['r']['rv'] == 'agg' and s['r']['kind'].startswith('adt:' + TX + '::')]
        # functional-update form `Tx { affiliate: a.clone(), ..global.clone() }` (possibly in a closure of the expansion):
        # every field but `affiliate` is taken, same name, from one local that is the result of a clone of a Tx
        fu_ok, fu_bad = [], []
        for g in [ex] + list(prog.closures_of(ex)):
            for b in g.blocks.values():
                for s in b['stmts']:
                    if s['r']['rv'] != 'agg' or not s['r']['kind'].startswith('adt:' + TX + '::'):
                        continue
                    srcs, good = set(), True
                    for fname, op in zip(s['r'].get('fields', []), s['r']['ops']):
                        if fname == 'affiliate':
                            continue
                        pl = op.get('pl')
                        if not pl or len(pl['p']) != 1 or not isinstance(pl['p'][0], dict) or pl['p'][0].get('f') != fname or pl['p'][0].get('of') != TX:
                            good = False
                            break
                        srcs.add(pl['l'])
                    if good and len(srcs) == 1:
                        l = next(iter(srcs))
                        good = any(c.short == 'clone' and c.dst and c.dst['l'] == l and not c.dst['p'] for c in g.calls)
                    else:
                        good = False
                    (fu_ok if good else fu_bad).append((g, s))
        if fu_ok and not fu_bad:
            aggs = []
        elif fu_bad and fu_bad[0][0] is not ex:
            aggs = [fu_bad[0][1]]
        clones = [c for c in ex.calls if c.short == 'clone' and TX in (ex.ty.get(c.dst['l'], ''))]
        inserts = [c for c in ex.calls if c.short == 'insert' and re.search(r'vec::Vec', c.callee)]
        if aggs:
            rep.violation('R15c', 'expansion-clones-the-split-row', where=ex.where(aggs[0]), fn=ex.name,
                          detail='a per-affiliate split row is built field by field instead of cloned from the global row (ratio, dates or memo could differ)')
        elif set(stores) - {'affiliate'}:
            other = sorted(set(stores) - {'affiliate'})
            rep.violation('R15c', 'expansion-changes-affiliate-only', where=stores[other[0]], fn=ex.name,
                          detail='global-split expansion also overwrites Tx.%s: the per-affiliate rows must equal the global row except for the affiliate' % ', '.join(other))
        elif fu_ok and not fu_bad and not (set(stores) - {'affiliate'}) and \
                any(c.short in ('splice', 'insert', 'extend', 'push') and re.search(r'vec::Vec', c.callee) for c in ex.calls):
            g, s0 = fu_ok[0]
            rep.ok('R15c', 'expansion-changes-affiliate-only', where=g.where(s0), fn=ex.name,
                   detail='each new row is `Tx { affiliate, ..clone of the global split }`: every other field is taken from the clone')
        elif 'affiliate' in stores and clones and inserts:
            ok = True
            for c in inserts:
                o = mir.provenance(ex, c.args[-1])
                if not any(x.short == 'clone' for x in o.calls):
                    ok = False
            if ok:
                rep.ok('R15c', 'expansion-changes-affiliate-only', where=stores['affiliate'], fn=ex.name,
                       detail='each inserted row is a clone of the global split with only Tx.affiliate overwritten')
            else:
                rep.violation('R15c', 'expansion-changes-affiliate-only', fn=ex.name, where=inserts[0].where(), detail='an inserted split row is not a clone of the global row')
        else:
            # the per-affiliate rows made in a closure of an adaptor chain and put in with splice / extend:
            # `affiliates.iter().map(|a| { let mut t = global.clone(); t.affiliate = a.clone(); t })`
            cl_stores, cl_ok = {}, []
            for g in prog.closures_of(ex):
                st_here = {}
                for b in g.blocks.values():
                    for s2 in b['stmts']:
                        fs = mir.place_fields(s2['dst'])
                        if fs and any(of == TX for of, fl in fs):
                            st_here.setdefault([fl for of, fl in fs if of == TX][0], g.where(s2))
                if not st_here:
                    continue
                cl_stores.update(st_here)
                ret = mir.provenance(g, 0)
                cl_ok.append(any(c.short == 'clone' and TX in (g.ty.get(c.dst['l'], '') or '') for c in ret.calls))
            puts = [c for c in ex.calls if c.short in ('splice', 'extend', 'insert', 'push') and re.search(r'vec::Vec', c.callee)]
            all_stores = dict(stores)
            all_stores.update(cl_stores)
            if set(all_stores) - {'affiliate'}:
                other = sorted(set(all_stores) - {'affiliate'})
                rep.violation('R15c', 'expansion-changes-affiliate-only', where=all_stores[other[0]], fn=ex.name,
                              detail='global-split expansion also overwrites Tx.%s: the per-affiliate rows must equal the global row except for the affiliate' % ', '.join(other))
            elif cl_ok and all(cl_ok) and puts and 'affiliate' in all_stores:
                rep.ok('R15c', 'expansion-changes-affiliate-only', where=all_stores['affiliate'], fn=ex.name,
                       detail='each new row is a clone of the global split with only Tx.affiliate overwritten (built in a closure, put in with %s)' % puts[0].short)
            else:
                rep.violation('R15c', 'anchor-lost:expansion-shape', fn=ex.name, detail='anchor lost: clone / affiliate store / insert in the global-split expansion')

    # ------------------------------------------------------------------ R15d: the window scans handle splits
    scan = None
    for cand in prog.product_fns():
        if cand.name.startswith('portfolio::bookkeeping::') and cand.kind in ('Fn', 'AssocFn') and \
                len([x for x in cand.calls if x.short == 'insert' and
                     re.search(r'HashMap<&portfolio::model::affiliate::Affiliate, util::decimal::ConstrainedDecimal', cand.ty.get(x.arg_local(0), ''))]) >= 2:
            scan = cand
    scan = scan or prog.fn('portfolio::bookkeeping::superficial_loss::get_superficial_loss_info')
    if rep.anchor('get_superficial_loss_info', scan):
        loops = scan.iterator_loops()
        n_ok = 0
        conditional = []
        for (nc, header, body) in loops:
            has_split = False
            feeds = False
            entry = None
            for i in sorted(body):
                for s in scan.blocks[i]['stmts']:
                    for pl in scan.stmt_sources(s):
                        if any(isinstance(e, dict) and e.get('dc') == 'Split' for e in pl['p']):
                            has_split = True
                            if entry is None:
                                entry = i
            ins_blocks = set()
            for c in scan.calls:
                if c.bb in body and c.short == 'insert' and re.search(r'HashMap<&portfolio::model::affiliate::Affiliate, util::decimal::ConstrainedDecimal', scan.ty.get(c.arg_local(0), '')):
                    o = mir.provenance(scan, c.args[-1], follow_all_call_args=True)
                    # the new factor derives from the split's ratio: through a SplitRatio method or its two terms
                    if o.has_call(r'SplitRatio::\w+$') or any(of.endswith('SplitRatio') for (of, fl) in o.fields):
                        feeds = True
                        ins_blocks.add(c.bb)
            if has_split and feeds:
                n_ok += 1
                # the factor is recorded for every split row of the window, unconditionally
                if entry is not None and entry not in ins_blocks and scan.reaches(entry, header, avoid=ins_blocks):
                    conditional.append((nc, entry))
        for (nc, entry) in conditional:
            rep.violation('R15d', 'split-factor-recorded-unconditionally', where=nc.where(), fn=scan.name,
                          detail='a Split row inside the 30-day window can be passed over without updating the affiliate\'s adjustment factor (the update is '
                                 'conditional): later share counts of that affiliate are then compared in the wrong split period')
        if n_ok >= 2 and not conditional:
            rep.ok('R15d', 'split-factor-recorded-unconditionally', fn=scan.name, detail='in both scans every Split row reaches the factor update')
        if n_ok >= 2:
            rep.ok('R15d', 'both-window-scans-apply-splits', fn=scan.name, detail='%d scan loops have a Split case that updates the per-affiliate adjustment factor from the split ratio' % n_ok)
        else:
            rep.violation('R15d', 'both-window-scans-apply-splits', fn=scan.name, where='%s:%d' % (scan.file, scan.line),
                          detail='only %d of the two window scans (after / before the sale) adjust share counts for a split inside the window' % n_ok)

    # ------------------------------------------------------------------ R15e: a split in the window belongs to the affiliate of the split row
    # every write into a per-affiliate split-adjustment map is keyed by the affiliate of the transaction being *scanned* (the loop's
    # element), never by a fixed affiliate such as the seller's: otherwise all splits of the window compound on one affiliate
    SPLITMAP = re.compile(r'HashMap<&(\'\w+ )?(portfolio::model::affiliate::)?Affiliate, util::decimal::ConstrainedDecimal')

    def element_keyed(g, c, operand, depth=0):
        o = mir.provenance(g, operand, follow_all_call_args=True)
        loops_here = [body for (h, body) in g.loops if c.bb in body]
        if any(x.short == 'next' and x.decl.endswith('Iterator::next') and any(x.bb in body for body in loops_here) for x in o.calls):
            return True, None
        ps = sorted(o.params - ({1} if g.kind in ('Closure', 'SyntheticCoroutineBody') else set()))
        if ps and depth < 2:
            sites = [x for x in prog.callers.get(g.name, []) if not mir.is_testsupport(x.fn.name) and not x.inlined]
            if not sites:
                return False, (g, c)
            for x in sites:
                for p_ in ps:
                    if p_ - 1 >= len(x.args):
                        return False, (x.fn, x)
                    ok, where = element_keyed(x.fn, x, x.args[p_ - 1], depth + 1)
                    if ok:
                        break
                else:
                    return False, (x.fn, x)
            return True, None
        return False, (g, c)
    n_w = 0
    for g in prog.product_fns():
        if not g.name.startswith('portfolio::bookkeeping::') or mir.is_testsupport(g.name):
            continue
        for c in g.calls:
            if c.inlined or c.short not in ('insert', 'entry') or len(c.args) < 2 or not SPLITMAP.search(g.ty.get(c.arg_local(0), '') or ''):
                continue
            n_w += 1
            ok, where = element_keyed(g, c, c.args[1])
            k = '%s|split-adjustment-keyed-by-the-scanned-row#%d' % (g.name, n_w)
            if ok:
                rep.ok('R15e', k, where=c.where(), fn=g.name, detail='the key is the affiliate of the transaction the window scan is looking at')
            else:
                wf, wc = where
                rep.violation('R15e', k, where=wc.where(), fn=wf.name,
                              detail='a split found in the 30-day window is recorded under an affiliate that is not the split row\'s own (the key does not '
                                     'come from the scanned transaction): with several affiliates every split of the window compounds on one of them, and '
                                     'the shares acquired in the window are mis-counted')
    if n_w < 1:
        rep.violation('R15e', 'anchor-lost:split-adjustment-writes', detail='anchor lost: only %d writes into a per-affiliate split-adjustment map found' % n_w)
