"""C13 — the exchange-rate cache never changes an answer: structural clauses.  DESIGN.md 5.C13
(R13a single guarded download chain, R13b cache acceptance, R13c force bypasses the cache)."""
import re

import mir
from mir import short, is_place, op_local

LEVEL = 'other'
EXPLANATION = ('Decides the necessary structural clauses of C13 (answer equality across runs is a typestate over run-time data and is not '
               'decided): (R13a) the remote download is reachable through exactly one call chain, entered only on paths on which the year '
               'is not memoised or not yet downloaded in this run, and followed by memoising the year, so a year is downloaded at most once '
               'per run; (R13b) rates read from the cache are returned only if the cache '
               'contains the requested date or the year was downloaded in this run; (R13c) the cache is not consulted when a download is '
               'forced; (R13d) the per-run memo answers a date only if it contains it or the year was downloaded in this run; (R13e) nothing '
               'lossy is reachable from the cache writers; (R-TS) no product code calls the test-only date override or the mock loader.')
TRUSTED_BASE = ['rustc nightly MIR construction and trait resolution']
ASSUMPTIONS = []

MOD = 'fx::io::'       # the rate loader and the helper modules beside it (shapes, not paths, select the functions)
REMOTE_TRAIT = 'fx::io::remote_rate_loader::RemoteRateLoader'
CACHE_TRAIT = 'fx::io::rates_cache::RatesCache'


def truth_of(vals, neg):
    return (vals != [0]) if vals is not None else (0 in (neg or []))


MEMO_T = r'HashMap<u32, std::collections::HashMap<time::Date'      # re-bound in run(): also newtypes around the per-day map
DAYMAP_T = r'HashMap<time::Date, '


def rate_atom(fn, c):
    """atoms of the rate look-up: memo (year memoised in this run), date (a day map contains the requested date), fresh (year
    downloaded in this run)"""
    a0 = fn.ty.get(c.arg_local(0), '') if c.args else ''
    if c.short == 'contains_key' and re.search(MEMO_T, a0):
        return ('memo', 'bool')
    if c.short == 'get' and re.search(MEMO_T, a0):
        return ('memo', 'option')
    if c.short == 'contains_key' and re.search(DAYMAP_T, a0):
        return ('date', 'bool')
    if c.short == 'contains' and re.search(r'HashSet<u32', a0):
        return ('fresh', 'bool')
    return None


def alias_fn(fn):
    return '@rate_lookup' if re.search(r'rate_loader::', fn.name) else fn.name


def product_callers(prog, name):
    return [c for c in prog.callers.get(name, []) if not mir.is_testsupport(c.fn.name) and 'testlib' not in c.fn.name]


def run(prog, rep, tier='quick', config='default'):
    # the per-year memo may hold the per-day map inside a private newtype (`struct RatesByDate(HashMap<Date, DailyRate>)`)
    global MEMO_T
    wrappers = []
    for crate in prog.meta:
        for a in prog.meta[crate].get('adts', []):
            if a.get('kind') == 'Struct' and len(a['variants']) == 1 and len(a['variants'][0]['fields']) == 1 and \
                    re.search(r'^std::collections::HashMap<time::Date, ', a['variants'][0]['fields'][0]['ty']):
                wrappers.append(re.escape(a['name']))
    MEMO_T = r'HashMap<u32, (std::collections::HashMap<time::Date' + ''.join('|' + w for w in wrappers) + ')'
    # ------------------------------------------------------------------ R13a
    dl_sites = [c for c in prog.all_calls() if c.decl == REMOTE_TRAIT + '::get_remote_usd_cad_rates' and 'testlib' not in c.fn.name]
    if not rep.anchor('call sites of RemoteRateLoader::get_remote_usd_cad_rates (dyn)', dl_sites):
        return
    if len(dl_sites) != 1:
        rep.violation('R13a', 'single-download-site', fn=dl_sites[0].fn.name, where=dl_sites[1].where(),
                      detail='the remote download is issued from %d places (%s): the once-per-year guard covers only one chain'
                             % (len(dl_sites), sorted({c.fn.name for c in dl_sites})))
        return
    chain = []
    cur = prog.owner_of(dl_sites[0].fn)
    rep.ok('R13a', 'single-download-site', where=dl_sites[0].where(), fn=cur.name, detail='one call site of the remote loader')
    ok_chain = True
    guard_site = None
    for hop in range(6):
        callers = product_callers(prog, cur.name)
        callers = [c for c in callers if prog.owner_of(c.fn).name != cur.name]
        if not callers:
            break
        if len(callers) != 1:
            # stop at the public entry points: above the guard the number of callers is irrelevant
            break
        chain.append(callers[0])
        c = callers[0]
        # is this call confined to "year not memoised yet" / "year not downloaded in this run"?  Guard edges: the false edge of
        # contains_key(memo, year), the None edge of memo.get(year), the false edge of fresh_years.contains(year). Every path from
        # the function entry to the call must use one of them (edge cut), so after a download (memoised and fresh) it is unreachable.
        MEMO_RX = MEMO_T
        keycall = None
        for x in c.fn.calls:
            if x.short in ('contains_key', 'get') and x.args and re.search(MEMO_RX, c.fn.ty.get(x.arg_local(0), '')):
                keycall = keycall or x
        key_op = keycall.args[1] if keycall is not None and len(keycall.args) > 1 else None
        if keycall is None:
            # the memo test sits in a bool-valued helper (`if self.year_needs_load(year, date)`): the key is the helper's argument
            for hc in c.fn.calls:
                h = prog.resolve(hc.callee, c.fn.crate)
                if h is None or h.kind not in ('Fn', 'AssocFn') or not (h.ty.get(0) == 'bool' or mir._is_flag_enum(prog, c.fn.crate, h.ty.get(0, '') or '')):
                    continue
                for x in h.calls:
                    if x.short in ('contains_key', 'get') and len(x.args) > 1 and re.search(MEMO_RX, h.ty.get(x.arg_local(0), '')):
                        ps = sorted(mir.provenance(h, x.args[1]).params)
                        if len(ps) == 1 and ps[0] - 1 < len(hc.args) and keycall is None:
                            keycall, key_op = x, hc.args[ps[0] - 1]
        if keycall is not None:
            paths = mir.symbolic_paths(c.fn, 0, c.bb, rate_atom, prog=prog)
            rep.extra['download_guard_paths'] = None if paths is None else sorted({str(sorted(p.items())) for p in paths})
            if paths and all(p.get('memo') is False or p.get('fresh') is False for p in paths):
                guard_site = (c, key_op)
        if guard_site:
            break
        cur = prog.owner_of(c.fn)
    rep.extra['download_chain'] = ['%s @%s' % (c.fn.name, c.where()) for c in chain]
    if not guard_site:
        rep.violation('R13a', 'download-guarded-by-year-memo', fn=cur.name, where=chain[-1].where() if chain else '',
                      detail='no call on the (single) chain to the remote download is confined to the "year not memoised yet" / "year not downloaded '
                             'in this run" edges: a year could be downloaded more than once per run')
    else:
        c, ck = guard_site
        fn = c.fn
        rep.ok('R13a', 'download-guarded-by-year-memo', where=c.where(), fn=fn.name,
               detail='the chain %s is entered only over a "year not memoised" or "year not downloaded in this run" edge' % ' <- '.join(short(x.fn.name.split('::{')[0]) for x in chain))
        # after a successful fetch the same key is inserted before any return
        ins = [x for x in fn.calls if x.short == 'insert' and re.search(MEMO_T, fn.ty.get(x.arg_local(0), ''))
               and fn.dominates(c.bb, x.bb)]
        same_key = False
        if ins:
            k1 = mir.provenance(fn, ck, follow_all_call_args=True)
            k2 = mir.provenance(fn, ins[0].args[1], follow_all_call_args=True)
            same_key = bool((k1.locals & k2.locals) & (fn.user | set(range(1, fn.argc + 1))) or (k1.locals & k2.locals))
        if ins and same_key:
            # every path from the fetch to a return passes the insert or an error exit
            err = {x.bb for x in fn.calls if x.short == 'from_residual'}
            err |= {i for i, b in fn.blocks.items() for s in b['stmts'] if s['dst']['l'] == 0 and s['r']['rv'] == 'agg' and s['r']['kind'].endswith('Result::Err')}
            reach = fn.reachable_from(c.bb, avoid={ins[0].bb} | err)
            leaks = [e for e in fn.exits if e in reach]
            if leaks:
                rep.violation('R13a', 'year-memoised-after-download', where=ins[0].where(), fn=fn.name,
                              detail='a successful download can return without memoising the year: the next look-up in the same year downloads again')
            else:
                rep.ok('R13a', 'year-memoised-after-download', where=ins[0].where(), fn=fn.name,
                       detail='insert(year_rates, year, ..) follows the fetch on every non-error path')
        else:
            rep.violation('R13a', 'year-memoised-after-download', where=c.where(), fn=fn.name,
                          detail='the downloaded year is not inserted into the per-run memo under the key that was tested')
        for l in chain:
            pass
    # every link of the chain below the guard has exactly one caller (checked while walking); report it
    for c in chain:
        rep.info('R13a-chain', '%s' % c.fn.name, where=c.where(), fn=c.fn.name, detail='link of the download chain')

    # ------------------------------------------------------------------ R13d: the per-run memo is trusted like the cache, not more
    if guard_site:
        c, ck = guard_site
        fn = c.fn
        MEMO = MEMO_T
        DAYMAP = r'HashMap<time::Date, '
        answers = []
        for x in fn.calls:
            if x.short not in ('get', 'index', 'get_key_value') or not re.search(DAYMAP, fn.ty.get(x.arg_local(0), '')) or \
                    re.search(MEMO, fn.ty.get(x.arg_local(0), '')):
                continue
            o = mir.provenance(fn, x.args[0], follow_all_call_args=True)
            if any(re.search(MEMO, fn.ty.get(l, '')) for l in o.locals) or any(f == 'year_rates' for (_, f) in o.fields):
                answers.append(x)
        if not answers:
            rep.violation('R13d', 'anchor-lost:memo-answer', fn=fn.name, detail='anchor lost: no look-up of the requested date in the memoised year map')
        else:
            reach = set()
            for x in answers:
                paths = mir.symbolic_paths(fn, 0, x.bb, rate_atom, avoid={c.bb}, prog=prog)
                if paths is None or any(not (p.get('date') is True or p.get('fresh') is True) for p in paths):
                    reach.add(x.bb)
            for n, x in enumerate(answers, 1):
                k = '%s|memo-answer#%d|covers-date-or-downloaded-this-run' % (alias_fn(fn), n)
                if x.bb in reach:
                    rep.violation('R13d', k, where=x.where(), fn=fn.name,
                                  detail='the year map memoised earlier in this run is used for the requested date without going through the loader and '
                                         'without checking that it contains that date (or that the year was downloaded in this run): a map served from an '
                                         'older cache answers a newer date by falling back to the preceding day, where a run without cache downloads the real rate')
                else:
                    rep.ok('R13d', k, where=x.where(), fn=fn.name,
                           detail='every path to the look-up passes the loader, a contains_key(date) test on the memoised map, or the downloaded-this-run test')

    # ------------------------------------------------------------------ R13b / R13c
    cache_gets = [c for c in prog.all_calls() if c.decl == CACHE_TRAIT + '::get_usd_cad_rates' and 'testlib' not in c.fn.name and
                  c.fn.name.startswith(MOD)]
    if not rep.anchor('call sites of RatesCache::get_usd_cad_rates in the rate loader', cache_gets):
        return
    for n, g in enumerate(cache_gets):
        fn = g.fn
        # R13c
        forced = False
        for (sbb, discr, vals, neg) in fn.conditions_at(g.bb):
            d = mir.provenance(fn, discr, follow_all_call_args=True)
            if any(f == 'force_download' for of, f in d.fields):
                neg_op = (len({id(st) for op, st in list(d.binops) + list(d.unops) if op == 'Not'}) % 2 == 1)
                t = truth_of(vals, neg)
                if neg_op:
                    t = not t
                if not t:
                    forced = True
        k = '%s|cache-read#%d' % (fn.name, n)
        if forced:
            rep.ok('R13c', k + '|not-when-forced', where=g.where(), fn=fn.name, detail='the cache is read only on the false edge of force_download')
        else:
            rep.violation('R13c', k + '|not-when-forced', where=g.where(), fn=fn.name,
                          detail='the cache is consulted even when a download is forced (no dominating test of RateLoader.force_download)')
        # R13b: returns of cache-derived data. Acceptance edges: the true edge of `map.contains_key(requested date)` and the
        # true edge of `fresh_years.contains(year)`. Every path from the cache read to a return of cached data must
        # use at least one of them (handles `a || b` as well as nested ifs).
        seeds = {g.dst['l']}
        t = mir.forward_taint(fn, seeds)
        accept = set()
        reasons = {}
        for i, b in fn.blocks.items():
            e = fn.bool_switch_edges(i)
            if e is None:
                continue
            d = mir.provenance(fn, b['term']['discr'], follow_all_call_args=True)
            flipped = (len({id(st) for op, st in list(d.binops) + list(d.unops) if op == 'Not'}) % 2 == 1)
            true_t, false_t = (e[1], e[0]) if flipped else e
            for x in d.calls:
                if x.short == 'contains_key' and re.search(r'HashMap<time::Date, ', fn.ty.get(x.arg_local(0), '')):
                    ko = mir.provenance(fn, x.args[1], follow_all_call_args=True)
                    if ko.params or ko.upvars:
                        accept.add((i, true_t))
                        reasons[(i, true_t)] = 'the cached year contains the requested date'
                if x.short == 'contains' and re.search(r'HashSet<u32', fn.ty.get(x.arg_local(0), '')):
                    accept.add((i, true_t))
                    reasons[(i, true_t)] = 'the year was downloaded during this run'
        # the same two facts kept as the variant of a private flag enum computed by a helper (`match self.freshness(year) { Downloaded =>
        # .. }`): the edges of a switch over that enum on which the helper's summary says "downloaded in this run" / "contains the date"
        for i, b in fn.blocks.items():
            tt = b['term']
            if not tt or tt['t'] != 'switch' or not is_place(tt['discr']):
                continue
            dd = fn.single_def(tt['discr']['pl']['l'])
            if not (dd and dd[2] == 'stmt' and dd[3]['r']['rv'] == 'discr'):
                continue
            po = mir.provenance(fn, {'k': 'copy', 'pl': dd[3]['r']['pl']})
            hs = [x for x in po.calls if prog.resolve(x.callee, fn.crate) is not None and
                  mir._is_flag_enum(prog, fn.crate, prog.resolve(x.callee, fn.crate).ty.get(0, '') or '')]
            if len(hs) != 1:
                continue
            vc = mir.variant_cases(prog, prog.resolve(hs[0].callee, fn.crate), rate_atom)
            if not vc:
                continue
            good_idx = {idx for cc, idx in vc} - {idx for cc, idx in vc if not (cc.get('fresh') is True or cc.get('date') is True)}
            vals = [v for v, _ in tt['targets']]
            for v, tg in tt['targets']:
                if v in good_idx:
                    accept.add((i, tg))
                    reasons[(i, tg)] = 'the year was downloaded during this run (variant of a flag enum)'
            rest = {idx for cc, idx in vc} - set(vals)
            if rest and rest <= good_idx:
                accept.add((i, tt['otherwise']))
                reasons[(i, tt['otherwise'])] = 'the year was downloaded during this run (variant of a flag enum)'
        n_ret = 0
        reach_plain = fn.reachable_avoiding_edges(g.bb, accept)
        for i, b in fn.blocks.items():
            for s in b['stmts']:
                if s['dst']['l'] == 0 and s['r']['rv'] == 'agg' and s['r']['kind'].endswith('Result::Ok') and \
                        any(is_place(o) and o['pl']['l'] in t for o in s['r']['ops']):
                    n_ret += 1
                    kk = '%s|cache-accepted#%d' % (fn.name, n_ret)
                    if i in reach_plain:
                        rep.violation('R13b', kk, where=fn.where(s), fn=fn.name,
                                      detail='rates read from the cache are returned without checking that the cache covers the requested date '
                                             '(or that the year was downloaded in this run): a stale cache would change the answer')
                    else:
                        used = sorted({reasons[e2] for e2 in accept if i in ({e2[1]} | fn.reachable_from(e2[1]))})
                        rep.ok('R13b', kk, where=fn.where(s), fn=fn.name, detail='cached rates are returned only when %s' % ' / '.join(used))
        if n_ret == 0:
            rep.violation('R13b', '%s|anchor-lost:cache-return' % fn.name, fn=fn.name, detail='anchor lost: no return of cache-derived rates found')

    # ------------------------------------------------------------------ R13e: the cache stores the downloaded rates losslessly
    from props import c06
    wr = prog.trait_impl_methods(CACHE_TRAIT, 'write_rates') if hasattr(prog, 'trait_impl_methods') else []
    wr = [w for w in wr if w is not None and not mir.is_testsupport(w.name) and 'testlib' not in w.name]
    if not wr:
        rep.violation('R13e', 'anchor-lost:cache-writers', detail='anchor lost: no implementation of RatesCache::write_rates')
    for w in wr:
        grp = {n: g for n, g in prog.callees_closure([w]).items() if g.crate == w.crate}
        for h in list(grp.values()):
            for cl in prog.closures_of(h):
                grp[cl.name] = cl
        lossy = [(g, c) for g in grp.values() for c in g.calls if c06.LOSSY.search(c.callee) or c06.LOSSY.search(c.decl)]
        k = '%s|cache-stores-rates-losslessly' % w.name
        if lossy:
            g, c = lossy[0]
            rep.violation('R13e', k, where=c.where(), fn=g.name,
                          detail='writing the cache reaches %s: the run that downloads a year computes with the exact rate, every later run served '
                                 'from the cache with the rounded one' % short(c.callee))
        else:
            rep.ok('R13e', k, fn=w.name, detail='no rounding / truncating / float conversion reachable from the cache writer (%d functions)' % len(grp))

    # ------------------------------------------------------------------ R-TS
    n_ts = 0
    for name, f in prog.fns.items():
        if mir.is_testsupport(name) or re.search(r'(^|::)testlib::', name) or 'MockRemoteRateLoader' in name:
            for c in prog.callers.get(name, []):
                if not (mir.is_testsupport(c.fn.name) or re.search(r'(^|::)testlib::', c.fn.name) or 'Mock' in c.fn.name):
                    n_ts += 1
                    rep.violation('R-TS', '%s|calls|%s' % (c.fn.name, short(name)), where=c.where(), fn=c.fn.name,
                                  detail='product code calls the test-only item %s (e.g. the "today" override): look-ups would not see the real date' % name)
    if n_ts == 0:
        rep.ok('R-TS', 'no-product-caller-of-test-support', fn='(all product crates)', detail='set_todays_date_for_test and the mock loaders have no product callers', trivial=True)
