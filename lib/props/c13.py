"""C13 — the exchange-rate cache never changes an answer: structural clauses.  DESIGN.md 5.C13
(R13a single guarded download chain, R13b cache acceptance, R13c force bypasses the cache)."""
import re

import mir
from mir import short, is_place, op_local

LEVEL = 'other'
EXPLANATION = ('Decides the necessary structural clauses of C13 (answer equality across runs is a typestate over run-time data and is not '
               'decided — a known stale-memo defect lies outside these rules, see DESIGN.md): (R13a) the remote download is reachable '
               'through exactly one call chain, entered only when the year is not yet memoised in this run and followed by memoising the '
               'year, so a year is downloaded at most once per run; (R13b) rates read from the cache are returned only if the cache '
               'contains the requested date or the year was downloaded in this run; (R13c) the cache is not consulted when a download is '
               'forced; (R-TS) no product code calls the test-only date override or the mock loader.')
TRUSTED_BASE = ['rustc nightly MIR construction and trait resolution']
ASSUMPTIONS = []

MOD = 'fx::io::rate_loader::'
REMOTE_TRAIT = 'fx::io::remote_rate_loader::RemoteRateLoader'
CACHE_TRAIT = 'fx::io::rates_cache::RatesCache'


def truth_of(vals, neg):
    return (vals != [0]) if vals is not None else (0 in (neg or []))


def product_callers(prog, name):
    return [c for c in prog.callers.get(name, []) if not mir.is_testsupport(c.fn.name) and 'testlib' not in c.fn.name]


def run(prog, rep, tier='quick', config='default'):
    # ------------------------------------------------------------------ R13a
    dl_sites = [c for c in prog.all_calls() if c.decl == REMOTE_TRAIT + '::get_remote_usd_cad_rates' and 'testlib' not in c.fn.name]
    if not rep.anchor('call sites of RemoteRateLoader::get_remote_usd_cad_rates (dyn)', dl_sites):
        return
    if len(dl_sites) != 1:
        rep.violation('R13a', 'single-download-site', fn=dl_sites[0].fn.name, where=dl_sites[1].where(),
                      detail='the remote download is issued from %d places (%s): the once-per-year guard covers only one chain'
                             % (len(dl_sites), sorted({c.fn.name for c in dl_sites})))
        return
    chain = []
    cur = prog.owner_of(dl_sites[0].fn)
    rep.ok('R13a', 'single-download-site', where=dl_sites[0].where(), fn=cur.name, detail='one call site of the remote loader')
    ok_chain = True
    guard_site = None
    for hop in range(6):
        callers = product_callers(prog, cur.name)
        callers = [c for c in callers if prog.owner_of(c.fn).name != cur.name]
        if not callers:
            break
        if len(callers) != 1:
            # stop at the public entry points: above the guard the number of callers is irrelevant
            break
        chain.append(callers[0])
        c = callers[0]
        # is this call guarded by !contains_key(year) ?
        for (sbb, discr, vals, neg) in c.fn.conditions_at(c.bb):
            d = mir.provenance(c.fn, discr, follow_all_call_args=True)
            ck = [x for x in d.calls if x.short == 'contains_key' and re.search(r'HashMap<u32, std::collections::HashMap<time::Date', c.fn.ty.get(x.arg_local(0), ''))]
            if ck and not truth_of(vals, neg):
                guard_site = (c, ck[0])
        if guard_site:
            break
        cur = prog.owner_of(c.fn)
    rep.extra['download_chain'] = ['%s @%s' % (c.fn.name, c.where()) for c in chain]
    if not guard_site:
        rep.violation('R13a', 'download-guarded-by-year-memo', fn=cur.name, where=chain[-1].where() if chain else '',
                      detail='no call on the (single) chain to the remote download is confined to the "year not yet loaded in this run" edge of '
                             'contains_key(year): a year could be downloaded more than once per run')
    else:
        c, ck = guard_site
        fn = c.fn
        rep.ok('R13a', 'download-guarded-by-year-memo', where=c.where(), fn=fn.name,
               detail='the chain %s is entered only on the false edge of contains_key(year_rates, year)' % ' <- '.join(short(x.fn.name.split('::{')[0]) for x in chain))
        # after a successful fetch the same key is inserted before any return
        ins = [x for x in fn.calls if x.short == 'insert' and re.search(r'HashMap<u32, std::collections::HashMap<time::Date', fn.ty.get(x.arg_local(0), ''))
               and fn.dominates(c.bb, x.bb)]
        same_key = False
        if ins:
            k1 = mir.provenance(fn, ck.args[1], follow_all_call_args=True)
            k2 = mir.provenance(fn, ins[0].args[1], follow_all_call_args=True)
            same_key = bool((k1.locals & k2.locals) & (fn.user | set(range(1, fn.argc + 1))) or (k1.locals & k2.locals))
        if ins and same_key:
            # every path from the fetch to a return passes the insert or an error exit
            err = {x.bb for x in fn.calls if x.short == 'from_residual'}
            err |= {i for i, b in fn.blocks.items() for s in b['stmts'] if s['dst']['l'] == 0 and s['r']['rv'] == 'agg' and s['r']['kind'].endswith('Result::Err')}
            reach = fn.reachable_from(c.bb, avoid={ins[0].bb} | err)
            leaks = [e for e in fn.exits if e in reach]
            if leaks:
                rep.violation('R13a', 'year-memoised-after-download', where=ins[0].where(), fn=fn.name,
                              detail='a successful download can return without memoising the year: the next look-up in the same year downloads again')
            else:
                rep.ok('R13a', 'year-memoised-after-download', where=ins[0].where(), fn=fn.name,
                       detail='insert(year_rates, year, ..) follows the fetch on every non-error path')
        else:
            rep.violation('R13a', 'year-memoised-after-download', where=c.where(), fn=fn.name,
                          detail='the downloaded year is not inserted into the per-run memo under the key that was tested')
        for l in chain:
            pass
    # every link of the chain below the guard has exactly one caller (checked while walking); report it
    for c in chain:
        rep.info('R13a-chain', '%s' % c.fn.name, where=c.where(), fn=c.fn.name, detail='link of the download chain')

    # ------------------------------------------------------------------ R13b / R13c
    cache_gets = [c for c in prog.all_calls() if c.decl == CACHE_TRAIT + '::get_usd_cad_rates' and 'testlib' not in c.fn.name and
                  c.fn.name.startswith(MOD)]
    if not rep.anchor('call sites of RatesCache::get_usd_cad_rates in the rate loader', cache_gets):
        return
    for n, g in enumerate(cache_gets):
        fn = g.fn
        # R13c
        forced = False
        for (sbb, discr, vals, neg) in fn.conditions_at(g.bb):
            d = mir.provenance(fn, discr, follow_all_call_args=True)
            if any(f == 'force_download' for of, f in d.fields):
                neg_op = any(op == 'Not' for op, _ in d.binops)
                t = truth_of(vals, neg)
                if neg_op:
                    t = not t
                if not t:
                    forced = True
        k = '%s|cache-read#%d' % (fn.name, n)
        if forced:
            rep.ok('R13c', k + '|not-when-forced', where=g.where(), fn=fn.name, detail='the cache is read only on the false edge of force_download')
        else:
            rep.violation('R13c', k + '|not-when-forced', where=g.where(), fn=fn.name,
                          detail='the cache is consulted even when a download is forced (no dominating test of RateLoader.force_download)')
        # R13b: returns of cache-derived data. Acceptance edges: the true edge of `map.contains_key(requested date)` and the
        # true edge of `fresh_years.contains(year)`. Every path from the cache read to a return of cached data must
        # use at least one of them (handles `a || b` as well as nested ifs).
        seeds = {g.dst['l']}
        t = mir.forward_taint(fn, seeds)
        accept = set()
        reasons = {}
        for i, b in fn.blocks.items():
            e = fn.bool_switch_edges(i)
            if e is None:
                continue
            d = mir.provenance(fn, b['term']['discr'], follow_all_call_args=True)
            flipped = any(op == 'Not' for op, _ in d.binops)
            true_t, false_t = (e[1], e[0]) if flipped else e
            for x in d.calls:
                if x.short == 'contains_key' and re.search(r'HashMap<time::Date, ', fn.ty.get(x.arg_local(0), '')):
                    ko = mir.provenance(fn, x.args[1], follow_all_call_args=True)
                    if ko.params or ko.upvars:
                        accept.add((i, true_t))
                        reasons[(i, true_t)] = 'the cached year contains the requested date'
                if x.short == 'contains' and re.search(r'HashSet<u32', fn.ty.get(x.arg_local(0), '')):
                    accept.add((i, true_t))
                    reasons[(i, true_t)] = 'the year was downloaded during this run'
        n_ret = 0
        reach_plain = fn.reachable_avoiding_edges(g.bb, accept)
        for i, b in fn.blocks.items():
            for s in b['stmts']:
                if s['dst']['l'] == 0 and s['r']['rv'] == 'agg' and s['r']['kind'].endswith('Result::Ok') and \
                        any(is_place(o) and o['pl']['l'] in t for o in s['r']['ops']):
                    n_ret += 1
                    kk = '%s|cache-accepted#%d' % (fn.name, n_ret)
                    if i in reach_plain:
                        rep.violation('R13b', kk, where=fn.where(s), fn=fn.name,
                                      detail='rates read from the cache are returned without checking that the cache covers the requested date '
                                             '(or that the year was downloaded in this run): a stale cache would change the answer')
                    else:
                        used = sorted({reasons[e2] for e2 in accept if i in ({e2[1]} | fn.reachable_from(e2[1]))})
                        rep.ok('R13b', kk, where=fn.where(s), fn=fn.name, detail='cached rates are returned only when %s' % ' / '.join(used))
        if n_ret == 0:
            rep.violation('R13b', '%s|anchor-lost:cache-return' % fn.name, fn=fn.name, detail='anchor lost: no return of cache-derived rates found')

    # ------------------------------------------------------------------ R-TS
    n_ts = 0
    for name, f in prog.fns.items():
        if mir.is_testsupport(name) or re.search(r'(^|::)testlib::', name) or 'MockRemoteRateLoader' in name:
            for c in prog.callers.get(name, []):
                if not (mir.is_testsupport(c.fn.name) or re.search(r'(^|::)testlib::', c.fn.name) or 'Mock' in c.fn.name):
                    n_ts += 1
                    rep.violation('R-TS', '%s|calls|%s' % (c.fn.name, short(name)), where=c.where(), fn=c.fn.name,
                                  detail='product code calls the test-only item %s (e.g. the "today" override): look-ups would not see the real date' % name)
    if n_ts == 0:
        rep.ok('R-TS', 'no-product-caller-of-test-support', fn='(all product crates)', detail='set_todays_date_for_test and the mock loaders have no product callers', trivial=True)
