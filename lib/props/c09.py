"""C09 — same input, same output: no hash-iteration order (or other per-process randomness)
reaches standard output or an output file.  DESIGN.md 5.C09 (rules R9a-R9d)."""
import collections
import re

import mir
from mir import short, is_place, op_local

LEVEL = 'proof'
EXPLANATION = ('Every creation of a HashMap/HashSet iterator in the type-checked MIR of all product crates is followed '
               'to its consumers; each consumer is discharged as order-insensitive (re-keyed into a map/set, sorted before '
               'use, integer/count reduction, per-key map update) or reported. Other randomness sources are censused by '
               'who-may-call rules.')
TRUSTED_BASE = [
    'rustc nightly MIR construction and trait resolution (tcx.mir_promoted, Instance::try_resolve)',
    'std/hashbrown: iteration order is the only observable effect of RandomState on HashMap/HashSet',
    'the callee model tables in lib/props/c09.py (which std callees consume an iterator order-insensitively)',
    'comparators handed to sort_by*/sorted_by* are total on the elements present (reviewed per site)',
]
ASSUMPTIONS = [
    'the host (non-wasm) build contains every product code path (no cfg distinguishes stable from nightly)',
    'stderr is outside the property ("standard output and output files")',
]

H = re.compile(r'std::collections::hash_(map|set)::(Iter|IterMut|IntoIter|Keys|Values|ValuesMut|IntoKeys|IntoValues|Drain|'
               r'Difference|SymmetricDifference|Intersection|Union|ExtractIf)\b')
HASHC = re.compile(r'^(&(mut )?)*std::collections::(HashMap|HashSet|BTreeMap|BTreeSet)<')
HASHONLY = re.compile(r'std::collections::(HashMap|HashSet)<')
SEQ = re.compile(r'^(&(mut )?)*(std::vec::Vec|std::collections::VecDeque|std::string::String|std::collections::LinkedList|'
                 r'std::collections::BinaryHeap|std::boxed::Box<\[)')
WRAPSEQ = re.compile(r'^std::(result::Result|option::Option)<(std::vec::Vec|std::collections::VecDeque|std::string::String)')
DEC = re.compile(r'rust_decimal::Decimal|util::decimal::ConstrainedDecimal|\bf64\b|\bf32\b')
INTTY = re.compile(r'^(&(mut )?)*(u8|u16|u32|u64|u128|usize|i8|i16|i32|i64|i128|isize|bool)$')
TOTAL_IDENT = re.compile(r'^(u8|u16|u32|u64|u128|usize|i8|i16|i32|i64|i128|isize|bool|char|std::string::String|&str|time::Date|'
                         r'&time::Date|&std::string::String|&u32|&i32|&usize|&u64|&i64)$')

SORTS = {'sort', 'sort_by', 'sort_by_key', 'sort_unstable', 'sort_unstable_by', 'sort_unstable_by_key', 'sort_by_cached_key'}
ITERTOOLS_SORTED = {'sorted', 'sorted_by', 'sorted_by_key', 'sorted_unstable', 'sorted_unstable_by', 'sorted_unstable_by_key',
                    'sorted_by_cached_key'}
REDUCE_OK = {'count', 'len', 'any', 'all', 'is_empty', 'size_hint'}
REDUCE_TYPED = {'sum', 'product', 'min', 'max'}
# adaptors whose output depends on the *position* of an element in the iteration: everything downstream (even a commutative
# reduction or a re-keying) then depends on the hash order
ORDER_SELECT = {'take', 'skip', 'step_by', 'take_while', 'skip_while', 'map_while', 'enumerate', 'zip', 'scan', 'array_chunks',
                'chunks', 'tuples', 'tuple_windows', 'dedup', 'dedup_by', 'dedup_by_key', 'coalesce', 'group_by', 'chunk_by',
                'interleave', 'merge', 'batching', 'with_position', 'positions', 'next_chunk', 'advance_by', 'nth_back',
                'take_while_ref', 'take_while_inclusive', 'skip_last', 'zip_eq', 'zip_longest', 'intersperse', 'tail', 'while_some'}
REDUCE_BAD = {'fold', 'reduce', 'for_each', 'find', 'find_map', 'position', 'last', 'nth', 'min_by', 'max_by', 'min_by_key',
              'max_by_key', 'try_fold', 'try_for_each', 'join', 'unzip', 'partition', 'next_back', 'nth_back', 'rposition',
              'rfind', 'next_tuple', 'collect_tuple', 'exactly_one', 'at_most_one', 'format', 'format_with'}
SEQ_NEUTRAL = {'len', 'is_empty', 'contains', 'capacity', 'deref', 'deref_mut', 'as_mut_slice', 'as_slice', 'as_mut', 'as_ref',
               'borrow', 'borrow_mut', 'reserve', 'shrink_to_fit', 'drop', 'drop_in_place', 'binary_search'}
# &mut-taking methods on keyed containers whose effect does not depend on call order when the key is the element's own
MAP_KEYED = {'insert', 'remove', 'entry', 'get_mut', 'or_insert', 'or_insert_with', 'or_default', 'contains_key', 'get',
             'contains', 'reserve', 'and_modify', 'or_insert_with_key', 'take', 'replace'}
SEQ_MUT = {'push', 'push_str', 'push_back', 'push_front', 'insert', 'extend', 'append', 'extend_from_slice', 'write',
           'write_all', 'write_fmt', 'write_str', 'write_record', 'write_field', 'serialize', 'flush', 'print', 'println'}
KEY_PASS = {'clone', 'deref', 'borrow', 'as_ref', 'to_string', 'to_owned', 'as_str', 'into', 'from', 'copied', 'cloned'}


def is_tracing(exp):
    return exp.startswith('m:') and '$crate::event' in exp


def htyped(fn, l):
    return l is not None and H.search(fn.ty.get(l, '')) is not None


# the same consumption spelled two ways gets one label: `Vec::from_iter(set)` / `set.into_iter().collect()`
CONSUMER_ALIAS = {'from_iter': 'collect'}

class Analysis:
    def __init__(self, prog, rep, reviewed):
        self.prog = prog
        self.rep = rep
        self.reviewed = reviewed
        self.hseq_fns = {}        # fn name -> reason: functions returning a hash-ordered (unsorted) sequence
        self.hseq_paths = {}      # fn name -> tuple field path of the sequence inside the returned value
        self.extra_h = {}         # fn name -> locals holding iterators over hash-ordered sequences
        self.fn_changed = False
        self.param_summ = {}      # (fn name, param local) -> 'sens'|'ok'|'keyed'
        self.keyarg_of = {}       # (fn name, bb of a call to a helper with a keyed summary) -> index of the argument selecting the slot
        self.sites = []
        self.n_creation = 0

    # ------------------------------------------------------------------ effect summaries (bottom-up, memoised)
    def param_effect(self, g, pl, depth=0):
        """does crate-local function g perform an order-sensitive effect through its &mut parameter local `pl`?"""
        key = (g.name, pl)
        if key in self.param_summ:
            return self.param_summ[key]
        self.param_summ[key] = 'ok'  # break recursion optimistically
        res = 'ok'
        why = ''
        if depth > 8:
            res, why = 'sens', 'summary depth exceeded'
        else:
            roots = self._aliases(g, {pl})
            keyed_params = set()
            keyed_why = ''
            for c in g.calls:
                if is_tracing(c.exp):
                    continue
                for ai, a in enumerate(c.args):
                    l = op_local(a)
                    if l is None or l not in roots:
                        continue
                    ty = g.ty.get(l, '')
                    if not ty.startswith('&mut') and not g.ty.get(pl, '').startswith('&mut'):
                        continue
                    v, w = self._classify_mut_call(g, c, ai, l, depth + 1, in_loop_keys=None)
                    if v == 'seqpush':
                        v = 'sens'
                    if v == 'keyed' and (self.prog.resolve(c.callee, g.crate) or self.prog.resolve(c.decl, g.crate)) is not None:
                        v, w = 'sens', w + ' (keyed effect of a nested helper: not summarised further)'
                    if v == 'sens':
                        pk = self._slot_key_param(g, l, roots)
                        if pk is not None:
                            keyed_params.add(pk)      # lands in the slot `map.entry(<parameter pk>)`: keyed by that parameter
                            keyed_why = '%s at %s' % (w, c.where())
                            continue
                        res, why = 'sens', '%s at %s' % (w, c.where())
                        break
                if res == 'sens':
                    break
            if res == 'ok':
                # direct stores through the parameter: `self.total = <computed>` is a read-modify-write or a
                # last-writer-wins selection unless it stores a constant or an integer update
                for b in g.blocks.values():
                    for s in b['stmts']:
                        if s['dst']['l'] in roots and s['dst']['p'] and not is_tracing(s['sp']['exp']):
                            v, w = self.store_effect(g, s)
                            if v == 'sens':
                                res, why = 'sens', '%s at %s' % (w, g.where(s))
                    t = b['term']
                    if t and t['t'] == 'call' and t['dst']['l'] in roots and t['dst']['p']:
                        res, why = 'sens', 'stores the result of %s through the parameter at %s' % (short(t['callee']), g.where(t))
            if res == 'ok' and keyed_params:
                if len(keyed_params) == 1:
                    res, why = 'keyed', keyed_why
                    self.param_summ[(g.name, pl, 'keyarg')] = next(iter(keyed_params)) - 1
                else:
                    res, why = 'sens', keyed_why + ' (slots selected by several parameters)'
        self.param_summ[key] = res
        self.param_summ[(g.name, pl, 'why')] = why
        return res

    def _slot_key_param(self, g, l, roots):
        """the &mut place `l` of helper g is a slot of a keyed container reached through g's parameter, selected by a key that is
        (a copy of) one other parameter of g: returns that parameter's local, else None"""
        cur = l
        seen = set()
        while cur is not None and cur not in seen:
            seen.add(cur)
            d = g.single_def(cur)
            if d is None:
                return None
            bb, idx, kind, node = d
            if kind == 'stmt':
                r = node['r']
                if r['rv'] in ('ref', 'rawptr'):
                    cur = r['pl']['l']
                elif r['rv'] == 'use' and is_place(r['ops'][0]):
                    cur = r['ops'][0]['pl']['l']
                else:
                    return None
                continue
            c = g.call_at[bb]
            if c.short in ('unwrap', 'expect', 'deref_mut', 'as_mut', 'or_insert', 'or_insert_with', 'or_default', 'deref', 'unwrap_or_default'):
                cur = c.arg_local(0)
                continue
            if c.short in ('get_mut', 'entry', 'index_mut') and re.search(r'(HashMap|BTreeMap)<', g.ty.get(c.arg_local(0), '') or '') and \
                    c.arg_local(0) in roots and len(c.args) > 1:
                org = mir.provenance(g, c.args[1], pass_through=KEY_PASS)
                if len(org.params) == 1 and not org.binops and not [x for x in org.calls if x.short not in KEY_PASS]:
                    return next(iter(org.params))
            return None
        return None

    def store_effect(self, fn, s):
        """a MIR store `place = rvalue` whose place is reached through outer mutable state"""
        r = s['r']
        pty = self.prog.place_type(fn, s['dst']) or ''
        if r['rv'] == 'use' and r['ops'][0]['k'] == 'const':
            return 'ok', 'constant store'
        if r['rv'] == 'agg' and not any(is_place(o) for o in r['ops']):
            return 'ok', 'constant store'
        if INTTY.search(pty) and r['rv'] in ('binop', 'use', 'cast', 'unop'):
            if r['rv'] == 'binop':
                return 'ok', 'integer update'
            # integer copied from a checked-arithmetic tuple (`_t = CheckedAdd(a, b); x = move _t.0`)
            o = r['ops'][0]
            if is_place(o) and any(isinstance(e, dict) and 'f' in e for e in o['pl']['p']) and 'bool)' in fn.ty.get(o['pl']['l'], ''):
                return 'ok', 'integer update'
            return 'sens', 'stores a selected integer value (last writer wins)'
        if DEC.search(pty):
            return 'sens', 'Decimal store through outer state (read-modify-write or last-writer-wins; rust_decimal arithmetic is not associative at 28 digits)'
        return 'sens', 'stores a computed value of type %s through outer state (last writer wins)' % (pty[:60] or '?')

    def _aliases(self, fn, start, within=None):
        """locals derived from `start` by copy/move/ref/reborrow/deref-style calls (forward closure)"""
        al = set(start)
        changed = True
        while changed:
            changed = False
            for i, b in fn.blocks.items():
                if within is not None and i not in within:
                    continue
                for s in b['stmts']:
                    d = s['dst']
                    if d['l'] in al:
                        continue
                    if any(p['l'] in al for p in fn.stmt_sources(s)) and s['r']['rv'] in ('use', 'ref', 'cast', 'rawptr'):
                        al.add(d['l'])
                        changed = True
                t = b['term']
                if t and t['t'] == 'call':
                    c = fn.call_at[i]
                    dl = c.dst['l']
                    if dl in al:
                        continue
                    if c.short in ('deref', 'deref_mut', 'as_mut', 'borrow_mut', 'as_mut_slice', 'as_deref_mut', 'as_ref',
                                   'borrow', 'by_ref', 'unwrap', 'expect', 'branch', 'get_mut', 'entry', 'or_insert',
                                   'or_insert_with', 'or_default', 'index_mut', 'iter_mut', 'last_mut', 'first_mut'):
                        a0 = c.arg_local(0)
                        if a0 in al:
                            al.add(dl)
                            changed = True
        return al

    HANDLE_TRANSPORT = {'clone', 'deref', 'deref_mut', 'borrow', 'borrow_mut', 'as_mut', 'as_ref', 'by_ref', 'into', 'from'}

    def error_stream_only(self, fn, c, ai):
        """the stream written to is a WriteHandle and every origin of it, through parameters into all product callers and through
        closure captures, is the stderr (or the discarding) handle constructor"""
        if ai >= len(c.args) or not is_place(c.args[ai]) or 'util::rw::WriteHandle' not in (fn.ty.get(c.args[ai]['pl']['l'], '') or ''):
            return False
        key = (fn.name, c.bb, ai)
        cache = self.__dict__.setdefault('_err_stream_cache', {})
        if key in cache:
            return cache[key]
        org = mir.deep_origins(self.prog, fn, c.args[ai], depth=6, follow_all=False)
        ctors = [x for x in org.calls if re.search(r'WriteHandle::\w*write_handle$', x.callee)]
        other = [x for x in org.calls if x not in ctors and x.short not in self.HANDLE_TRANSPORT]
        ok = bool(ctors) and not org.params and not other and \
            all(re.search(r'WriteHandle::(stderr|empty)_write_handle$', x.callee) for x in ctors)
        cache[key] = ok
        return ok

    def _classify_mut_call(self, fn, c, ai, l, depth, in_loop_keys):
        """classify a call that receives (an alias of) outer mutable state as argument ai.
        returns (verdict, description); verdict in ok|sens|keyed"""
        ty = fn.ty.get(l, '')
        cn = c.short
        full = c.callee
        if cn in ('next', 'next_back', 'peek', 'size_hint') and ai == 0:
            return 'ok', 'inner iterator advance'
        if cn in ('deref', 'deref_mut', 'as_mut', 'as_ref', 'borrow', 'borrow_mut', 'by_ref', 'as_mut_slice', 'iter',
                  'iter_mut', 'len', 'is_empty', 'contains', 'contains_key', 'get', 'clone', 'is_some', 'is_none',
                  'as_deref_mut', 'as_deref', 'unwrap', 'expect', 'last_mut', 'first_mut', 'index_mut', 'index'):
            return 'ok', 'reborrow/read'
        tgt = ty
        g0 = None
        for nm in set(c.names()):
            g0 = g0 or self.prog.resolve(nm, fn.crate)
        if g0 is not None:
            # crate-local callee (a helper that received the container): summary of the corresponding parameter
            res = self.param_effect(g0, ai + 1, depth)
            if res == 'keyed':
                self.keyarg_of[(fn.name, c.bb)] = self.param_summ.get((g0.name, ai + 1, 'keyarg'))
                return 'keyed', 'callee %s updates the slot selected by its parameter %s (%s)' % (
                    g0.name, self.param_summ.get((g0.name, ai + 1, 'keyarg')), self.param_summ.get((g0.name, ai + 1, 'why'), ''))
            if res == 'sens':
                return 'sens', 'callee %s has an order-sensitive effect through parameter %d (%s)' % (
                    g0.name, ai, self.param_summ.get((g0.name, ai + 1, 'why'), ''))
            return 'ok', 'callee %s: no order-sensitive effect through parameter %d' % (g0.name, ai)
        if re.search(r'std::collections::(HashMap|HashSet|BTreeMap|BTreeSet)<', tgt) or 'hash_map::' in tgt or 'btree_map::' in tgt \
                or 'Entry<' in tgt:
            if cn in MAP_KEYED:
                return 'keyed', 'map.%s' % cn
            if cn in ('extend',):
                return 'ok', 'map.extend (re-keyed)'
            if cn in ('clear', 'retain', 'drain'):
                return 'sens', 'map.%s' % cn
            return 'sens', 'unmodelled map method %s' % cn
        if cn in SORTS:
            return 'ok', 'sort'
        if SEQ.search(tgt) and cn in SEQ_MUT | {'remove', 'pop', 'truncate', 'clear', 'drain', 'retain', 'swap', 'dedup'}:
            if cn in ('push', 'push_back', 'extend', 'extend_from_slice', 'append') and re.search(r'(vec::Vec|VecDeque)<', tgt) and ai == 0:
                # appending to a sequence: the sequence becomes hash-ordered (like `collect`); whether that matters is decided by what
                # happens to it afterwards (classify_loop hands it to the sequence typestate when it is a local of the function)
                return 'seqpush', 'sequence %s on %s' % (cn, tgt[:50])
            return 'sens', 'sequence %s on %s' % (cn, tgt[:50])
        if cn == 'flush':
            return 'ok', 'flush (adds no content)'
        if cn in ('write', 'write_all', 'write_fmt', 'write_str', 'write_record', 'serialize_field', 'serialize_element'):
            if cn in ('write', 'write_all', 'write_fmt', 'write_str') and self.error_stream_only(fn, c, ai):
                return 'ok', 'written to the error stream only (every origin of the handle is WriteHandle::stderr_write_handle / empty_write_handle): not standard output, not an output file'
            return 'sens', 'stream %s' % cn
        if DEC.search(tgt) and cn in ('add_assign', 'sub_assign', 'mul_assign', 'div_assign', 'rem_assign'):
            return 'sens', 'Decimal read-modify-write (%s); rust_decimal arithmetic is not associative at 28 digits' % cn
        if INTTY.search(tgt) and cn in ('add_assign', 'sub_assign', 'mul_assign'):
            return 'ok', 'integer read-modify-write'
        if cn in ('add_assign', 'sub_assign', 'mul_assign', 'div_assign'):
            return 'sens', '%s on %s' % (cn, tgt[:60])
        g = None
        for nm in set(c.names()):
            g = self.prog.resolve(nm, fn.crate)
            if g is not None:
                break
        if g is not None:
            # crate-local callee: summary of the corresponding parameter
            res = self.param_effect(g, ai + 1, depth)
            if res == 'keyed':
                self.keyarg_of[(fn.name, c.bb)] = self.param_summ.get((g.name, ai + 1, 'keyarg'))
                return 'keyed', 'callee %s updates the slot selected by its parameter %s' % (g.name, self.param_summ.get((g.name, ai + 1, 'keyarg')))
            if res == 'sens':
                return 'sens', 'callee %s has an order-sensitive effect through parameter %d (%s)' % (
                    g.name, ai, self.param_summ.get((g.name, ai + 1, 'why'), ''))
            return 'ok', 'callee %s: no order-sensitive effect through parameter %d' % (g.name, ai)
        if not ty.startswith('&mut'):
            return 'ok', 'shared borrow to external callee %s' % cn
        if cn in ('take', 'replace', 'get_or_insert_with', 'insert'):
            return 'sens', 'external %s on outer state' % full
        return 'sens', 'unmodelled external callee %s receives &mut outer state' % full

    # ------------------------------------------------------------------ sequences
    def seq_typestate(self, fn, local, bb0, path=(), ignore_blocks=()):
        """`local` (at field path `path`, () = the local itself) holds a hash-ordered sequence from block bb0 on.
        Every order-observing use reachable from bb0 must be preceded, on every path from bb0, by a sort.
        Iterating the unsorted sequence re-enters the iterator analysis (the iterator local is added to the
        function's tainted set). Returns (verdict, text, path_if_returned)."""
        # alias -> path still to project before reaching the sequence
        apath = {local: tuple(path)}
        changed = True
        while changed:
            changed = False
            for i, b in fn.blocks.items():
                for s in b['stmts']:
                    d = s['dst']
                    if d['p']:
                        continue
                    r = s['r']
                    new = None
                    if r['rv'] in ('use', 'ref', 'cast', 'rawptr'):
                        for pl in fn.stmt_sources(s):
                            if pl['l'] not in apath:
                                continue
                            p = apath[pl['l']]
                            fields = [e['f'] for e in pl['p'] if isinstance(e, dict) and 'f' in e and e['of'] == '']
                            wrappers = [e for e in pl['p'] if isinstance(e, dict) and 'f' in e and e['of'] != '']
                            q = p
                            okp = True
                            for f in fields:
                                if q and q[0] == f:
                                    q = q[1:]
                                elif q:
                                    okp = False   # a different tuple field: not the sequence
                                    break
                            if okp:
                                new = q
                    elif r['rv'] == 'agg' and (r['kind'].startswith('adt:std::result::Result') or
                                               r['kind'].startswith('adt:std::option::Option')):
                        for o in r['ops']:
                            if is_place(o) and o['pl']['l'] in apath and not o['pl']['p']:
                                new = apath[o['pl']['l']]
                    elif r['rv'] == 'agg' and r['kind'] == 'tuple':
                        for n, o in enumerate(r['ops']):
                            if is_place(o) and o['pl']['l'] in apath and not o['pl']['p']:
                                new = (str(n),) + apath[o['pl']['l']]
                    if new is not None and d['l'] not in apath:
                        apath[d['l']] = new
                        changed = True
                t = b['term']
                if t and t['t'] == 'call':
                    c = fn.call_at[i]
                    dl = c.dst['l']
                    if dl in apath or c.dst['p']:
                        continue
                    if c.short in ('deref', 'deref_mut', 'as_mut', 'borrow_mut', 'as_mut_slice', 'as_slice', 'as_ref', 'borrow',
                                   'unwrap', 'expect', 'branch', 'from_output'):
                        a0 = c.arg_local(0)
                        if a0 in apath:
                            apath[dl] = apath[a0]
                            changed = True
        whole = {l for l, p in apath.items() if p == ()}
        partial = {l for l, p in apath.items() if p != ()}
        sort_blocks = set()
        uses = []
        iter_calls = []
        for c in fn.calls:
            if c.bb == bb0 or is_tracing(c.exp) or c.bb in ignore_blocks:
                continue
            als = c.arg_locals()
            if any(a in whole for a in als):
                if c.short in SORTS or c.short in ITERTOOLS_SORTED:
                    sort_blocks.add(c.bb)
                elif c.short in SEQ_NEUTRAL or c.short in ('unwrap', 'expect', 'branch', 'from_output'):
                    continue
                elif c.short in ('iter', 'into_iter', 'iter_mut', 'drain') and c.dst_local() is not None:
                    iter_calls.append(c)
                else:
                    uses.append(c)
            elif any(a in partial for a in als):
                if c.short in ('unwrap', 'expect', 'branch', 'from_output', 'deref', 'clone') and c.dst['l'] in apath:
                    continue
                uses.append(c)
        reach = {bb0} | fn.reachable_from(bb0, avoid=sort_blocks)
        for c in iter_calls:
            if c.bb in reach:
                if c.dst_local() not in self.extra_h.setdefault(fn.name, set()):
                    self.extra_h[fn.name].add(c.dst_local())
                    self.fn_changed = True
        bad = [c for c in uses if c.bb in reach and c.bb not in sort_blocks]
        if 0 in apath:
            rets = [e for e in fn.exits if e in reach]
            if rets:
                if bad:
                    c = bad[0]
                    return 'sens', 'used in hash order by %s at %s before any sort (and returned unsorted)' % (c.callee, c.where()), None
                return 'returned', 'returned unsorted', apath[0]
        if bad:
            c = bad[0]
            # text made from the sequence (`.join(", ")`) that provably ends up on the error stream only is outside the property
            if all(x.short in ('join', 'concat') and x.dst_local() is not None for x in bad) and 0 not in apath:
                import textflow
                tf = textflow.TextFlow(self.prog, self.error_stream_only)
                oks, bads = [], []
                for x in bad:
                    o2, b2 = tf.run(fn, x.dst_local())
                    oks += o2
                    bads += b2
                if oks and not bads:
                    return 'ok', 'joined in hash order by %s at %s, but the text reaches the error stream only (%d write site(s): %s)' % (
                        c.short, c.where(), len(oks), ', '.join(sorted({w for (_, w, _) in oks if w})[:3])), None
                why = ' [text flow: %s at %s]' % (bads[0][2], bads[0][1]) if bads else ''
                return 'sens', 'used in hash order by %s at %s before any sort%s' % (c.callee, c.where(), why), None
            return 'sens', 'used in hash order by %s at %s before any sort' % (c.callee, c.where()), None
        for i, b in fn.blocks.items():
            if i not in reach:
                continue
            for s in b['stmts']:
                if s['r']['rv'] == 'agg' and s['dst']['l'] not in apath:
                    if any(is_place(o) and o['pl']['l'] in apath for o in s['r']['ops']):
                        return 'sens', 'stored unsorted into %s at %s' % (s['r']['kind'], fn.where(s)), None
                if s['dst']['p'] and s['dst']['l'] not in apath and any(p['l'] in whole for p in fn.stmt_sources(s)):
                    return 'sens', 'stored unsorted into a field at %s' % fn.where(s), None
        if sort_blocks:
            for sb in sorted(sort_blocks):
                okc, whyc = self.sort_is_total(fn, fn.call_at[sb])
                if not okc:
                    return 'sens', 'sorted by %s at %s, but %s: elements that compare equal keep their hash order' % (
                        fn.call_at[sb].short, fn.call_at[sb].where(), whyc), None
            return 'ok', 'sorted (%s) before any order-observing use' % ', '.join(
                sorted({fn.call_at[b].short + '@' + str(fn.call_at[b].line) for b in sort_blocks})), None
        if iter_calls:
            return 'ok', 'only iterated (the iteration is analysed as a hash-ordered loop / chain)', None
        return 'ok', 'never observed in order (only len/contains/drop)', None

    # element types whose Ord is total and whose equal values are indistinguishable in output
    TOTAL_ELEM = re.compile(r'^&*(u8|u16|u32|u64|u128|usize|i8|i16|i32|i64|i128|isize|bool|char|std::string::String|str|time::Date)$')
    # accessor that identifies an element of the given type uniquely (used by comparators)
    IDENTITY = [(re.compile(r'portfolio::model::affiliate::Affiliate'), {'id'}),
                (re.compile(r'peripheral::broker::broker_tx::Account'), {'account_str'})]

    def _elem_type(self, ty):
        m = re.search(r'(?:std::vec::Vec<|\[)(.*?)(?:, std::alloc::Global>|>|\])$', ty.replace('&mut ', '').lstrip('&'))
        return m.group(1) if m else ty

    def sort_is_total(self, fn, c):
        """does the sort order every pair of distinguishable elements? (otherwise ties keep the incoming hash order)"""
        recv_ty = fn.ty.get(c.arg_local(0), '')
        elem = self._elem_type(recv_ty)
        if c.short in ITERTOOLS_SORTED and c.short == 'sorted':
            return True, 'itertools sorted by Ord'
        if c.short in ('sort', 'sort_unstable', 'sorted', 'sorted_unstable'):
            parts = [p.strip() for p in elem.strip('()').split(',')] if elem.startswith('(') else [elem]
            if all(self.TOTAL_ELEM.match(p) for p in parts if p):
                return True, 'natural order of %s' % elem
            # a generic helper (`fn sorted_keys<K: Ord, V>(m: &HashMap<K, V>) -> Vec<K>`): judged for every type the product callers
            # instantiate the element type with
            if re.match(r'^&*[A-Z]\w*$', elem) and '::' not in elem and fn.kind in ('Fn', 'AssocFn'):
                name = elem.lstrip('&')
                insts = set()
                sites = [x for x in self.prog.callers.get(fn.name, []) if not mir.is_testsupport(x.fn.name) and not x.inlined]
                for x in sites:
                    bound = None
                    for pi in range(1, fn.argc + 1):
                        pty = fn.ty.get(pi, '') or ''
                        if not re.search(r'\b%s\b' % name, pty) or pi - 1 >= len(x.args):
                            continue
                        aty = x.fn.ty.get(op_local(x.args[pi - 1]), '') if is_place(x.args[pi - 1]) else x.args[pi - 1].get('ty', '')
                        toks = re.split(r'(?<![\w:])([A-Z]\w*)(?![\w:])', re.sub(r"'\w+ ", '', pty))
                        rx, seen_t = '', False
                        for ti, tok in enumerate(toks):
                            if ti % 2 == 0:
                                rx += re.escape(tok)
                            elif tok == name:
                                rx += '(?P=T)' if seen_t else '(?P<T>.+?)'
                                seen_t = True
                            else:
                                rx += '.+?'
                        mm = re.fullmatch(rx, re.sub(r"'\w+ ", '', aty or ''))
                        if mm:
                            bound = mm.group('T').strip()
                            break
                    if bound is None:
                        insts = None
                        break
                    insts.add(bound)
                if insts and all(self.TOTAL_ELEM.match(t) for t in insts):
                    return True, 'natural order of %s, instantiated by the callers with %s' % (elem, ', '.join(sorted(insts)))
            return False, 'the natural order of %s is not known to distinguish all elements' % elem[:60]
        if len(c.args) < 2:
            return False, 'comparator not found'
        cl = op_local(c.args[1])
        g = None
        for (b2, i2, k2, n2) in fn.defs.get(cl, []) if cl is not None else []:
            if k2 == 'stmt' and n2['r']['rv'] == 'agg' and n2['r']['kind'].startswith('closure:'):
                g = self.prog.by_crate[fn.crate].get(n2['r']['kind'][len('closure:'):])
        if g is None:
            return False, 'comparator is not a closure literal'
        ident = set()
        for rx, acc in self.IDENTITY:
            if rx.search(elem) or any(rx.search(t) for t in [g.ty.get(2, ''), g.ty.get(3, '')]):
                ident |= acc
        by_key = c.short.endswith('by_key') or c.short.endswith('cached_key')
        if by_key:
            kty = g.ty.get(0, '')
            if kty in ('bool', '()') or kty.startswith('std::cmp::Ordering'):
                return False, 'the sort key has type %s, which cannot tell more than two elements apart' % kty
            org = mir.provenance(g, 0, follow_all_call_args=True)
            accs = {x.short for x in org.calls if self.prog.resolve(x.callee, g.crate) is not None}
            ext = sorted({x.short for x in org.calls if self.prog.resolve(x.callee, g.crate) is None and x.short not in KEY_PASS})
            fields = {f for (of, f) in org.fields if of == ''}
            if ext or org.binops:
                return False, 'the sort key is derived from the element by %s, so distinct elements can share it' % (
                    ', '.join(e + '()' for e in ext) or 'arithmetic')
            if (accs and accs <= ident) or (not accs and (self.TOTAL_ELEM.match(kty.lstrip('&')) or fields <= {'0'} and fields)):
                return True, 'key %s' % (sorted(accs) or kty)
            return False, 'the sort key (%s via %s) is not known to identify an element' % (kty[:40], sorted(accs))
        # sort_by(|a, b| ...): some comparison of the (lexicographic) comparator must compare an identifying projection of a
        # with the same projection of b; comparisons inside nested closures (`.then_with(|| ..)`) count
        bodies = [g] + list(self._nested_closures(g))
        cmps = [(h, x) for h in bodies for x in h.calls if x.decl.endswith('::cmp') or x.decl.endswith('::partial_cmp')]
        if not cmps:
            return False, 'the comparator closure contains no cmp/partial_cmp call'
        why = ''
        for h, x in cmps:
            oa = mir.provenance(h, x.args[0], follow_all_call_args=True)
            ob = mir.provenance(h, x.args[1], follow_all_call_args=True)
            accs = {y.short for y in oa.calls + ob.calls if self.prog.resolve(y.callee, h.crate) is not None}
            ext = sorted({y.short for y in oa.calls + ob.calls if self.prog.resolve(y.callee, h.crate) is None and y.short not in KEY_PASS})
            fa = {f for (of, f) in oa.fields if of == ''}
            fb = {f for (of, f) in ob.fields if of == ''}
            if h is not g:
                # captured a / b arrive as upvar fields of the nested closure
                fa = {f for f in fa if not f.isdigit() or h is g}
                fb = {f for f in fb if not f.isdigit() or h is g}
            if ext or oa.binops or ob.binops:
                why = why or 'the comparator orders by a value derived through %s, which distinct elements can share' % (
                    ', '.join(e + '()' for e in ext) or 'arithmetic')
                continue
            if accs and not accs <= ident:
                why = why or 'the comparator orders by %s(), which is not known to identify an element' % sorted(accs - ident)
                continue
            if not accs and (fa or fb) and not (fa == fb == {'0'}):
                why = why or 'the comparator compares tuple fields %s/%s' % (sorted(fa), sorted(fb))
                continue
            if not accs and not fa and not self.TOTAL_ELEM.match(elem.lstrip('&')) and not ident:
                why = why or 'the comparator compares whole elements of type %s' % elem[:40]
                continue
            return True, 'comparator on %s' % (sorted(ident & accs) or sorted(ident) or 'the key field / whole element')
        return False, why

    def _nested_closures(self, g, depth=0):
        if depth > 3:
            return
        for b in g.blocks.values():
            for st in b['stmts']:
                r = st['r']
                if r['rv'] == 'agg' and r['kind'].startswith('closure:'):
                    h = self.prog.by_crate[g.crate].get(r['kind'][len('closure:'):])
                    if h is not None:
                        yield h
                        for x in self._nested_closures(h, depth + 1):
                            yield x

    # ------------------------------------------------------------------ loops
    ACC_OPS = {'Add', 'AddWithOverflow', 'AddUnchecked', 'Mul', 'MulWithOverflow', 'MulUnchecked', 'BitOr', 'BitAnd', 'BitXor'}
    ACC_LEFT = {'Sub', 'SubWithOverflow', 'SubUnchecked'}

    def int_accumulate(self, fn, s, body):
        """is the store `x = ...` an integer accumulation `x = x op e` (op commutative and associative over the iterations,
        e independent of x) whose running value nothing else in the loop reads?  Returns (True|False, text)."""
        dl = s['dst']['l']
        r = s['r']
        bstmt = None
        via = None
        if r['rv'] == 'binop':
            bstmt = s
        elif r['rv'] == 'use' and is_place(r['ops'][0]):
            pl = r['ops'][0]['pl']
            fl = [e for e in pl['p'] if isinstance(e, dict) and 'f' in e]
            if len(pl['p']) == 1 and fl and fl[0]['f'] == '0' and 'bool)' in fn.ty.get(pl['l'], ''):
                ds = [d for d in fn.defs.get(pl['l'], []) if d[0] in body]
                if len(ds) == 1 and ds[0][2] == 'stmt' and ds[0][3]['r']['rv'] == 'binop':
                    bstmt = ds[0][3]
                    via = pl['l']
        if bstmt is None:
            return False, 'stores a selected integer value (last writer wins)'
        op = bstmt['r']['op']
        ops = bstmt['r']['ops']
        selfpos = [n for n, o in enumerate(ops) if is_place(o) and o['pl']['l'] == dl and not o['pl']['p']]
        if not selfpos:
            return False, 'integer value computed without the previous value (last writer wins)'
        if not (op in self.ACC_OPS or (op in self.ACC_LEFT and selfpos == [0])):
            return False, 'integer update by %s is not commutative over the iterations' % op
        if len(selfpos) != 1:
            return False, 'integer update uses the accumulator twice'
        other = ops[1 - selfpos[0]]
        if is_place(other):
            org = mir.provenance(fn, other, follow_all_call_args=True)
            if dl in org.locals:
                return False, 'the added value itself depends on the accumulator'
        # nothing else inside the loop may read the running value
        for (bb, idx, kind, node) in fn.uses_of(dl):
            if bb not in body or node is bstmt or kind == 'store':
                continue
            return False, 'the running value of the accumulator is read inside the loop at %s' % fn.where(node)
        return True, 'integer accumulation (%s)' % op

    def classify_loop(self, fn, header, body, next_call):
        """effects of one hash-ordered loop on state that outlives an iteration; returns list of (verdict, text, where)"""
        iter_l = next_call.arg_local(0)
        iter_roots = self._aliases(fn, {iter_l}) if iter_l is not None else set()
        # the iterator itself: locals of H type
        iter_like = {l for l in fn.ty if htyped(fn, l)}

        def outside(l):
            if fn.is_param(l):
                return True
            ds = fn.defs.get(l, [])
            return any(bb not in body for (bb, _, _, _) in ds)

        # roots: for every local, which outside-defined locals it aliases
        outer_roots = {l for l in fn.ty if outside(l) and l not in iter_like and l != 0}
        if 0 in fn.ty:
            outer_roots.add(0)
        alias_of = {}
        for r in outer_roots:
            for a in self._aliases(fn, {r}, within=body):
                alias_of.setdefault(a, set()).add(r)
        effects = []
        elem = self._aliases(fn, {next_call.dst['l']}, within=body)

        def elem_derived(op):
            if not is_place(op):
                return False
            org = mir.provenance(fn, op, follow_all_call_args=True)
            return bool(org.locals & elem)

        for bi in sorted(body):
            b = fn.blocks[bi]
            for s in b['stmts']:
                dl = s['dst']['l']
                if dl in iter_like or is_tracing(s['sp']['exp']):
                    continue
                roots = alias_of.get(dl, set())
                through_ptr = bool(s['dst']['p'])
                if not roots:
                    continue
                # plain re-definition of a temp that merely also has an outside def (e.g. `_11 = const ()`)
                r = s['r']
                tyd = fn.ty.get(dl, '')
                if not through_ptr and tyd in ('()', 'bool', '!') and r['rv'] == 'use' and r['ops'][0]['k'] == 'const':
                    continue
                if not through_ptr and dl not in outer_roots:
                    continue  # creating an alias (ref) inside the loop, not a store
                if r['rv'] == 'use' and r['ops'][0]['k'] == 'const':
                    effects.append(('ok', 'constant store to %s' % fn.describe_local(dl), fn.where(s)))
                    continue
                if r['rv'] in ('ref', 'rawptr') and not through_ptr:
                    continue
                if not through_ptr and r['rv'] == 'binop' and tyd.startswith('(') and 'bool)' in tyd:
                    continue  # the checked-arithmetic temporary; judged where its .0 is stored
                if not through_ptr and INTTY.search(tyd) and r['rv'] in ('binop', 'use'):
                    okacc, wacc = self.int_accumulate(fn, s, body)
                    if okacc:
                        effects.append(('ok', '%s into %s' % (wacc, fn.describe_local(dl)), fn.where(s)))
                        continue
                    if r['rv'] == 'binop':
                        effects.append(('sens', '%s: outer %s' % (wacc, fn.describe_local(dl)), fn.where(s)))
                        continue
                if through_ptr and r['rv'] == 'binop' and INTTY.search(tyd.replace('(', '').split(',')[0]):
                    effects.append(('ok', 'integer update of %s' % fn.describe_local(dl), fn.where(s)))
                    continue
                if not through_ptr and tyd == '()':
                    continue
                # loop-carried temporaries that are re-initialised every iteration before use are not effects;
                # decide conservatively: a whole-local store to an outside-defined local that is also *read* outside
                # or carried is an effect when the value is element-derived
                if any(elem_derived(o) for o in r.get('ops', [])) or ('pl' in r and (alias_of.get(r['pl']['l']) is None and r['pl']['l'] in elem)):
                    if through_ptr:
                        # `*slot = *slot + x` with slot = map.entry(own key).or_insert(..): one slot per element, no interleaving
                        sv = self.per_element_slot(fn, dl, body, elem, next_call)
                        if sv is not None:
                            effects.append(('ok', 'store into a per-element slot (%s)' % sv, fn.where(s)))
                            continue
                    effects.append(('sens', 'element-derived value stored to outer %s (selection by iteration order)'
                                    % fn.describe_local(dl), fn.where(s)))
            t = b['term']
            if not t or t['t'] != 'call':
                continue
            c = fn.call_at[bi]
            if is_tracing(c.exp):
                continue
            if c is next_call:
                continue
            # stdout
            if c.callee.endswith('std::io::_print') or c.callee.endswith('io::stdio::_print'):
                effects.append(('sens', 'prints to stdout inside the loop', c.where()))
                continue
            if c.callee.endswith('_eprint'):
                continue
            # store of the call result into outer state
            dl = c.dst['l']
            if (c.dst['p'] and alias_of.get(dl)) or (dl in outer_roots and dl != 0 and not htyped(fn, dl) and fn.ty.get(dl) not in ('()', '!')):
                tyd = fn.ty.get(dl, '')
                if dl in outer_roots and not c.dst['p']:
                    # a local defined both outside and inside the loop: loop-carried only if read before written; keep simple
                    if any(elem_derived(a) for a in c.args):
                        effects.append(('sens', 'call result %s (element-derived) stored to outer %s' % (c.short, fn.describe_local(dl)), c.where()))
            for ai, a in enumerate(c.args):
                l = op_local(a)
                if l is None:
                    continue
                roots = alias_of.get(l, set())
                if not roots or l in iter_like:
                    continue
                ty = fn.ty.get(l, '')
                root_tys = [fn.ty.get(r, '') for r in roots]
                mutable = ty.startswith('&mut') or (a['k'] == 'move' and not ty.startswith('&') and l in outer_roots)
                if not mutable:
                    continue
                v, w = self._classify_mut_call(fn, c, ai, l, 0, None)
                if v == 'seqpush':
                    rl = [r for r in roots if not fn.is_param(r) and SEQ.search(fn.ty.get(r, '')) and not fn.ty.get(r, '').startswith('&')]
                    if len(roots) == 1 and rl and not (is_place(a) and any(isinstance(e, dict) and 'f' in e for e in a['pl']['p'])):
                        effects.append(('seqpush', w, c.where(), rl[0]))
                        continue
                    v = 'sens'
                if v == 'sens':
                    sv = self.per_element_slot(fn, l, body, elem, next_call)
                    if sv is not None:
                        effects.append(('ok', '%s — lands in a per-element slot (%s)' % (w.split(';')[0], sv), c.where()))
                        continue
                if v == 'keyed':
                    root_ty = ' '.join([ty] + root_tys)
                    if c.short == 'insert' and re.search(r'std::collections::(HashSet|BTreeSet)<', root_ty) and \
                            not re.search(r'std::collections::(HashMap|BTreeMap)<', ty) and not self._result_read(fn, c):
                        effects.append(('ok', 'set.insert with the result unused (idempotent and commutative)', c.where()))
                        continue
                    kv, kw = self.key_provenance(fn, c, body, elem, next_call, key_index=self.keyarg_of.get((fn.name, c.bb), 1))
                    effects.append((kv, '%s keyed by %s' % (w, kw), c.where()))
                else:
                    effects.append((v, w, c.where()))
        # exits other than exhaustion
        exits = fn.loop_exits(body)
        normal = set()
        # the exhaustion edge: from the switch on next()'s discriminant (value 0 = None)
        exits = [(a, b) for (a, b) in exits if not (fn.blocks[b]['term'] and fn.blocks[b]['term']['t'] == 'Unreachable'
                                                    or (fn.blocks[b]['term'] and fn.blocks[b]['term']['t'] == 'unreachable'))]

        for (src, dst) in exits:
            blk = fn.blocks[src]
            t = blk['term']
            if t and t['t'] == 'falseEdge' and len(fn.pred[src]) == 1:
                pt = fn.blocks[fn.pred[src][0]]['term']
                if pt and pt['t'] == 'switch' and fn._is_discr_of(pt['discr'], next_call.dst['l']):
                    normal.add((src, dst))
                continue
            if t and t['t'] == 'switch' and fn._is_discr_of(t['discr'], next_call.dst['l']):
                normal.add((src, dst))
        extra = [e for e in exits if e not in normal]
        # an extra exit is harmless if it leaves through a block chain that only builds a constant/unit value; we do not
        # try to prove that: report
        for (src, dst) in extra:
            t = fn.blocks[src]['term']
            effects.append(('exit', 'early exit from the loop (bb%d -> bb%d): which element triggers it first depends on hash order'
                            % (src, dst), fn.where(t) if t else ''))
        return effects

    def _result_read(self, fn, c):
        dl = c.dst_local()
        if dl is None:
            return True
        return any(kind != 'store' for (bb, idx, kind, node) in fn.uses_of(dl))

    def per_element_slot(self, fn, l, body, elem, next_call):
        """is the &mut place `l` obtained, inside the loop body, from a keyed container through the element's own
        (unique) key?  Then effects on it cannot interleave between iterations."""
        cur = l
        seen = set()
        while cur is not None and cur not in seen:
            seen.add(cur)
            ds = [d for d in fn.defs.get(cur, []) if d[0] in body and not d[3]['dst']['p']]      # stores *through* the place are not definitions of it
            if len(ds) != 1:
                return None
            bb, idx, kind, node = ds[0]
            if kind == 'stmt':
                r = node['r']
                if r['rv'] in ('ref', 'rawptr'):
                    cur = r['pl']['l']
                elif r['rv'] == 'use' and is_place(r['ops'][0]):
                    cur = r['ops'][0]['pl']['l']
                else:
                    return None
                continue
            c = fn.call_at[bb]
            if c.short in ('unwrap', 'expect', 'deref_mut', 'as_mut', 'or_insert', 'or_insert_with', 'or_default', 'deref',
                           'unwrap_or_default'):
                cur = c.arg_local(0)
                continue
            if c.short in ('get_mut', 'entry', 'index_mut') and re.search(r'(HashMap|BTreeMap)<', fn.ty.get(c.arg_local(0), '')):
                kv, kw = self.key_provenance(fn, c, body, elem, next_call)
                if kv == 'ok':
                    return 'keyed by ' + kw
                return None
            return None
        return None

    def key_provenance(self, fn, c, body, elem, next_call=None, key_index=1):
        """the key argument (arg 1; for a helper with a keyed summary the argument it selects the slot by) of a keyed map call
        inside a hash-ordered loop: element's own key or derived?"""
        key_index = 1 if key_index is None else key_index
        if len(c.args) <= key_index:
            return 'ok', 'no key'
        a = c.args[key_index]
        if a['k'] == 'const':
            return 'sens', 'a constant key (all elements hit one entry)'
        org = mir.provenance(fn, a, pass_through=KEY_PASS | {'unwrap', 'expect'})
        derived = [x for x in org.calls if x.short not in KEY_PASS and x.short not in ('next', 'unwrap', 'expect') and x.bb in body]
        if derived:
            return 'sens', 'a key derived by %s() (several elements can share it: selection/accumulation by order)' % derived[0].short
        if org.locals & elem:
            ity = fn.ty.get(next_call.arg_local(0), '') if next_call is not None else ''
            if re.search(r'hash_map::(Values|IntoValues|ValuesMut)\b', ity):
                return 'sens', 'a key taken from map *values* (not unique per element)'
            if re.search(r'hash_map::(Iter|IntoIter|IterMut|Drain)\b', ity) and any(of == '' and f != '0' for (of, f) in org.fields):
                return 'sens', 'a key taken from the value half of a (key, value) element (not unique)'
            return 'ok', "the element's own key"
        return 'sens', 'a key not derived from the element'

    # ------------------------------------------------------------------ per-function driver
    def analyse_fn(self, fn):
        for _ in range(8):
            self.fn_changed = False
            mark = len(self.sites)
            nobs = len(self.rep.obs)
            ncre = self.n_creation
            self._analyse_fn_once(fn)
            if not self.fn_changed:
                return
            del self.sites[mark:]
            del self.rep.obs[nobs:]
            self.n_creation = ncre

    ADAPTORS = {'map', 'filter', 'enumerate', 'rev', 'skip', 'take', 'chain', 'zip', 'cloned', 'copied', 'peekable',
                'filter_map', 'flat_map', 'inspect', 'step_by', 'skip_while', 'take_while', 'map_while', 'fuse', 'by_ref',
                'scan', 'flatten', 'into_iter', 'iter', 'iter_mut'}

    def _analyse_fn_once(self, fn):
        hl = {l for l in fn.ty if htyped(fn, l)} | set(self.extra_h.get(fn.name, ()))
        # locals derived from explicitly tainted iterators (refs, moves, adaptor results)
        if self.extra_h.get(fn.name):
            grow = True
            while grow:
                grow = False
                for i, b in fn.blocks.items():
                    for s in b['stmts']:
                        if s['dst']['l'] not in hl and not s['dst']['p'] and s['r']['rv'] in ('use', 'ref') and \
                                any(pl['l'] in hl and not [e for e in pl['p'] if e != '*'] for pl in fn.stmt_sources(s)):
                            hl.add(s['dst']['l'])
                            grow = True
                for c in fn.calls:
                    dl = c.dst_local()
                    if dl is None or dl in hl:
                        continue
                    a0 = c.arg_local(0)
                    if a0 in hl and c.short in self.ADAPTORS and (c.decl.startswith('std::iter::') or c.short in ('into_iter', 'iter', 'iter_mut')):
                        hl.add(dl)
                        grow = True
        hseq_calls = []
        for c in fn.calls:
            for nm in set(c.names()):
                g = self.prog.resolve(nm, fn.crate)
                if g is not None and g.name in self.hseq_fns:
                    hseq_calls.append(c)
                    break
        if not hl and not hseq_calls:
            return
        ordn = collections.Counter()

        def key(kind, c):
            # name the consumer by the container it draws from (stable when another consumer is added to the function);
            # the ordinal only separates consumers of the same container through the same callee
            base = '%s|%s|%s%s' % (fn.name, kind, CONSUMER_ALIAS.get(short(c.callee), short(c.callee)), self._src_label(fn, c))
            ordn[base] += 1
            return '%s#%d' % (base, ordn[base])

        for c in hseq_calls:
            dl = c.dst_local()
            if dl is None:
                self.emit(fn, c, key('hseq-call', c), 'sens', 'result of %s (unsorted hash-ordered sequence) stored through a projection' % c.callee)
                continue
            v, w, rp = self.seq_typestate(fn, dl, c.bb, self.hseq_paths.get(self._hseq_target(fn, c), ()))
            self.seq_verdict(fn, c, key('hseq-call', c), v, 'sequence returned by %s: %s' % (c.callee, w), rp)

        for c in fn.calls:
            als = c.arg_locals()
            hargs = [a for a in als if a in hl]
            dl = c.dst_local()
            dst_h = dl in hl if dl is not None else False
            if not hargs:
                if dst_h:
                    self.n_creation += 1
                    self.rep.info('R9-create', key('create', c), where=c.where(), fn=fn.name,
                                  detail='hash-ordered iterator created by %s : %s' % (c.callee, fn.ty[dl][:100]))
                continue
            if is_tracing(c.exp):
                continue
            cn = c.short
            if dst_h:
                # adaptor: the type carries the taint; a closure argument that captures &mut state is a hidden loop body
                self.check_adaptor_closure(fn, c, key)
                if cn in ORDER_SELECT:
                    self.emit(fn, c, key('consume', c), 'sens',
                              '%s on a hash-ordered iterator selects / labels elements by their position in hash order '
                              '(whatever consumes the result depends on the order)' % cn)
                continue
            k = key('consume', c)
            if cn in ('drop', 'drop_in_place', 'clone', 'by_ref', 'size_hint'):
                continue
            if cn in ('next', 'next_back') or (cn == 'peek'):
                lp = fn.loop_of(c.bb)
                if lp is None:
                    self.emit(fn, c, k, 'sens', 'next() outside a loop takes the first element in hash order')
                    continue
                effs = self.classify_loop(fn, lp[0], lp[1], c)
                # `for x in hash { v.push(x) }` makes v a hash-ordered sequence, exactly like `v = hash.collect()`: judged by what
                # happens to v after the loop (it must be sorted, with a total order, before any order-observing use)
                for e in [e for e in effs if e[0] == 'seqpush']:
                    effs.remove(e)
                    v2, w2, rp2 = self.seq_typestate(fn, e[3], lp[0], ignore_blocks=lp[1])
                    if v2 == 'returned':
                        self.seq_verdict(fn, c, k + '|pushed', v2, 'pushed into %s: %s' % (fn.describe_local(e[3])[:60], w2), rp2)
                        effs.append(('ok', '%s — %s' % (e[1], w2), e[2]))
                    elif v2 == 'ok':
                        effs.append(('ok', '%s — the sequence is %s' % (e[1], w2), e[2]))
                    else:
                        effs.append(('sens', '%s — %s' % (e[1], w2), e[2]))
                bad = [e for e in effs if e[0] in ('sens', 'exit')]
                if bad:
                    for n, e in enumerate(bad):
                        self.emit(fn, c, '%s|effect%d:%s' % (k, n, e[1].split(' (')[0][:60]), 'sens',
                                  'hash-ordered loop (over %s): %s at %s' % (fn.ty.get(c.arg_local(0), '?')[:80], e[1], e[2]))
                else:
                    self.emit(fn, c, k, 'ok', 'hash-ordered loop with %d order-insensitive effects: %s' % (
                        len(effs), '; '.join(sorted({e[1] for e in effs}))[:300]))
            elif cn in ('collect', 'from_iter', 'extend', 'try_collect') or 'FromIterator' in c.decl:
                self.check_adaptor_closure(fn, c, key)
                if cn == 'extend':
                    recv = c.arg_local(0)
                    tgt = fn.ty.get(recv, '?')
                    tl = None
                    roots = self._root_of(fn, recv)
                    tgt = fn.ty.get(roots, tgt) if roots is not None else tgt
                    tl = roots
                else:
                    tgt = fn.ty.get(dl, '?') if dl is not None else '?'
                    tl = dl
                if HASHC.search(tgt.lstrip('&mut ').strip()) or HASHC.search(tgt):
                    mapped = re.search(r'\b(Map|FilterMap)<', fn.ty.get(hargs[0], '')) and re.search(r'(HashMap|BTreeMap)<', tgt)
                    if mapped and self.map_closures_preserve_key(fn, hargs[0]):
                        self.emit(fn, c, k, 'ok', 're-keyed into %s through key-preserving map closure(s)' % tgt[:80])
                    elif mapped:
                        self.emit(fn, c, k, 'sens', 'collected into a map through a mapping closure: if the closure\'s keys collide, '
                                  'the surviving value depends on hash order (%s)' % tgt[:80])
                    else:
                        self.emit(fn, c, k, 'ok', 're-keyed into %s' % tgt[:80], trivial=True)
                elif SEQ.search(tgt) or WRAPSEQ.search(tgt):
                    if tl is None:
                        self.emit(fn, c, k, 'sens', 'collected into a sequence behind a projection')
                    else:
                        v, w, rp = self.seq_typestate(fn, tl, c.bb)
                        self.seq_verdict(fn, c, k, v, 'collected into %s: %s' % (tgt[:60], w), rp)
                else:
                    self.emit(fn, c, k, 'sens', '%s into unmodelled container %s' % (cn, tgt[:80]))
            elif cn in ITERTOOLS_SORTED:
                self.emit(fn, c, k, 'ok', 'itertools %s: sorted before use' % cn)
            elif cn in REDUCE_OK:
                self.check_adaptor_closure(fn, c, key)
                self.emit(fn, c, k, 'ok', 'order-insensitive reduction %s' % cn, trivial=True)
            elif cn in REDUCE_TYPED:
                rty = fn.ty.get(dl, '?') if dl is not None else '?'
                inner = re.sub(r'^std::option::Option<(.*)>$', r'\1', rty)
                if INTTY.search(inner) or (cn in ('min', 'max') and TOTAL_IDENT.search(inner)):
                    self.emit(fn, c, k, 'ok', '%s over %s (exact / total order with identity)' % (cn, inner))
                else:
                    self.emit(fn, c, k, 'sens', '%s over %s in hash order (non-associative or equal-but-distinguishable values)' % (cn, inner[:60]))
            elif cn in REDUCE_BAD:
                self.emit(fn, c, k, 'sens', 'order-sensitive reduction %s over a hash-ordered iterator' % cn)
            elif cn == 'into_iter' and dl is not None and not dst_h:
                self.emit(fn, c, k, 'sens', 'hash-ordered iterator converted into %s (taint lost)' % fn.ty.get(dl, '?')[:80])
            else:
                g = None
                for nm in set(c.names()):
                    g = self.prog.resolve(nm, fn.crate)
                    if g is not None:
                        break
                if g is not None:
                    self.emit(fn, c, k, 'sens', 'hash-ordered iterator passed to crate function %s (generic body: order use not tracked)' % g.name)
                else:
                    self.emit(fn, c, k, 'sens', 'unmodelled consumer %s of a hash-ordered iterator' % c.callee)

        # type-erasing casts of H-typed values
        for i, b in fn.blocks.items():
            for s in b['stmts']:
                if s['r']['rv'] == 'cast' and any(is_place(o) and o['pl']['l'] in hl for o in s['r']['ops']):
                    if not H.search(s['r']['to']):
                        self.rep.violation('R9a', '%s|erase-cast' % fn.name, where=fn.where(s), fn=fn.name,
                                           detail='hash-ordered iterator cast to %s: order taint would be lost' % s['r']['to'][:80])
        # opaque return of an H-typed value
        if 0 in hl and fn.kind in ('Fn', 'AssocFn'):
            sig = self.prog.sigs(fn.crate).get(fn.local_name)
            if sig and not H.search(sig['output']):
                self.rep.violation('R9a', '%s|opaque-return' % fn.name, where='%s:%d' % (fn.file, fn.line), fn=fn.name,
                                   detail='returns a hash-ordered iterator behind an opaque type (%s)' % sig['output'][:80])

    def _src_label(self, fn, c):
        if not c.args or not is_place(c.args[0]):
            return ''
        o = mir.provenance(fn, c.args[0], follow_all_call_args=True)
        fields = sorted({fl for (of, fl) in o.fields if not fl.isdigit() and of and not of.startswith('std::')})
        if fields:
            return '@' + fields[0]
        names = sorted({fn.varnames[l] for l in o.locals if l in fn.varnames and (htyped(fn, l) or HASHC.search(fn.ty.get(l, '')))})
        if names:
            return '@' + names[0]
        return ''

    def map_closures_preserve_key(self, fn, hl):
        """every `map` adaptor between the hash iterator and `hl` passes field 0 of its (key, value) item through"""
        seen = set()
        work = [hl]
        n_maps = 0
        while work:
            l = work.pop()
            if l in seen:
                continue
            seen.add(l)
            for (bb, idx, kind, node) in fn.defs.get(l, []):
                if kind == 'stmt':
                    for pl in fn.stmt_sources(node):
                        work.append(pl['l'])
                    continue
                c = fn.call_at[bb]
                if not htyped(fn, c.dst['l']):
                    continue
                a0 = c.arg_local(0)
                if a0 is not None and htyped(fn, a0):
                    work.append(a0)
                if c.short == 'map' and len(c.args) > 1:
                    n_maps += 1
                    cl = op_local(c.args[1])
                    g = None
                    for (b2, i2, k2, n2) in fn.defs.get(cl, []) if cl is not None else []:
                        if k2 == 'stmt' and n2['r']['rv'] == 'agg' and n2['r']['kind'].startswith('closure:'):
                            g = self.prog.by_crate[fn.crate].get(n2['r']['kind'][len('closure:'):])
                    if g is None:
                        return False
                    for (b3, i3, k3, n3) in g.defs.get(0, []):
                        if k3 != 'stmt' or n3['r']['rv'] != 'agg' or n3['r']['kind'] != 'tuple' or not n3['r']['ops']:
                            return False
                        org = mir.provenance(g, n3['r']['ops'][0], pass_through=KEY_PASS)
                        if org.params != {2} or org.binops or org.consts or any(x.short not in KEY_PASS for x in org.calls):
                            return False
                        if not all(f == '0' for (_, f) in org.fields):
                            return False
                elif c.short == 'filter_map' and len(c.args) > 1:
                    # `filter_map(|(k, v)| cond.then(|| (k.clone(), f(v))))`-like: every Some((key, ..)) built in the closure (or in a
                    # closure nested in it) must carry field 0 of the item as its key
                    n_maps += 1
                    cl = op_local(c.args[1])
                    g = None
                    for (b2, i2, k2, n2) in fn.defs.get(cl, []) if cl is not None else []:
                        if k2 == 'stmt' and n2['r']['rv'] == 'agg' and n2['r']['kind'].startswith('closure:'):
                            g = self.prog.by_crate[fn.crate].get(n2['r']['kind'][len('closure:'):])
                    if g is None:
                        return False
                    tuples = 0
                    for h in [g] + list(self._nested_closures(g)):
                        for b3 in h.blocks.values():
                            for n3 in b3['stmts']:
                                if n3['r']['rv'] == 'agg' and n3['r']['kind'] == 'tuple' and len(n3['r']['ops']) == 2 and \
                                        re.search(r'^\((&)?std::string::String, ', h.ty.get(n3['dst']['l'], '')):
                                    tuples += 1
                                    org = mir.provenance(h, n3['r']['ops'][0], pass_through=KEY_PASS)
                                    if org.binops or org.consts or any(x.short not in KEY_PASS for x in org.calls):
                                        return False
                    if tuples == 0:
                        return False
                elif c.short in ('flat_map', 'scan', 'zip', 'chain', 'map_while'):
                    return False
        return n_maps > 0

    def _root_of(self, fn, l):
        """follow `&mut x` / reborrows back to the owning local"""
        seen = set()
        cur = l
        while cur is not None and cur not in seen:
            seen.add(cur)
            d = fn.single_def(cur)
            if d is None:
                return cur
            bb, idx, kind, node = d
            if kind == 'stmt':
                r = node['r']
                if r['rv'] in ('ref', 'rawptr'):
                    if r['pl']['p'] and any(isinstance(e, dict) and 'f' in e for e in r['pl']['p']):
                        return None
                    cur = r['pl']['l']
                    continue
                if r['rv'] == 'use' and is_place(r['ops'][0]) and not r['ops'][0]['pl']['p']:
                    cur = r['ops'][0]['pl']['l']
                    continue
                return cur
            else:
                c = fn.call_at[bb]
                if c.short in ('deref_mut', 'deref', 'as_mut', 'borrow_mut'):
                    cur = c.arg_local(0)
                    continue
                return cur
        return cur

    def check_adaptor_closure(self, fn, c, key):
        for a in c.args[1:]:
            l = op_local(a)
            if l is None:
                continue
            ty = fn.ty.get(l, '')
            if '{closure' not in ty:
                continue
            # find the closure aggregate and the types of what it captures
            for (bb, idx, kind, node) in fn.defs.get(l, []):
                if kind == 'stmt' and node['r']['rv'] == 'agg' and node['r']['kind'].startswith('closure:'):
                    for o in node['r']['ops']:
                        ol = op_local(o)
                        if ol is not None and fn.ty.get(ol, '').startswith('&mut'):
                            self.emit(fn, c, key('stateful-closure', c), 'sens',
                                      'closure passed to %s in a hash-ordered chain captures %s mutably (hidden loop body)'
                                      % (c.short, fn.describe_local(ol)))

    def _hseq_target(self, fn, c):
        for nm in set(c.names()):
            g = self.prog.resolve(nm, fn.crate)
            if g is not None and g.name in self.hseq_fns:
                return g.name
        return None

    def seq_verdict(self, fn, c, k, v, w, rpath=None):
        if v == 'returned':
            if fn.name not in self.hseq_fns or self.hseq_paths.get(fn.name) != tuple(rpath or ()):
                self.hseq_fns[fn.name] = w + (' (tuple field %s)' % '.'.join(rpath) if rpath else '')
                self.hseq_paths[fn.name] = tuple(rpath or ())
                self.changed = True
            self.emit(fn, c, k, 'ok', w + ' -> every caller is checked (function marked as returning a hash-ordered sequence)')
        else:
            self.emit(fn, c, k, v, w)

    def emit(self, fn, c, k, verdict, detail, trivial=False):
        self.sites.append((fn.name, k, verdict, detail, c.where(), trivial))


def analyse(prog, rep, reviewed):
    an = Analysis(prog, rep, reviewed)
    fns = prog.product_fns()
    for rounds in range(6):
        an.sites = []
        an.n_creation = 0
        an.changed = False
        saved = list(rep.obs)
        for fn in fns:
            an.analyse_fn(fn)
        if not an.changed:
            break
        rep.obs[:] = saved
    return an


def run(prog, rep, tier='quick', config='default'):
    reviewed = __import__('check').load_reviewed('c09_reviewed.json')
    an = analyse(prog, rep, reviewed)
    used = set()
    for (fname, k, verdict, detail, where, trivial) in an.sites:
        full = '%s|%s|%s' % (rep.pid, 'R9', k)
        if verdict == 'ok':
            rep.ok('R9', k, where=where, fn=fname, detail=detail, trivial=trivial)
        else:
            if full in reviewed:
                used.add(full)
                rep.reviewed('R9', k, where=where, fn=fname, detail='%s — reviewed: %s' % (detail, reviewed[full]['reason']))
            else:
                rep.violation('R9', k, where=where, fn=fname, detail=detail)
    rep.extra['creation_sites'] = an.n_creation
    rep.extra['functions_returning_hash_ordered_sequences'] = an.hseq_fns
    rep.extra['reviewed_entries_unused'] = sorted(set(reviewed) - used) if config == 'default' else []
    other_sources(prog, rep)


# ---------------------------------------------------------------------------------------------- R9d
RAND_CALLEES = [
    (r'^rand(_core|_chacha)?::', 'rand crate'),
    (r'RandomState::new|hash::DefaultHasher|hash_map::DefaultHasher|BuildHasher::hash_one|BuildHasher::build_hasher', 'explicit hasher seeds'),
    (r'^std::process::id$', 'process id'),
    (r'^std::thread::current$|ThreadId', 'thread identity'),
    (r'fmt::Pointer|Argument::<\'_>::new_pointer', 'pointer formatting'),
    (r'^std::time::SystemTime::now$|^std::time::Instant::now$', 'clock'),
    (r'^chrono::(Local|Utc)::now$|^chrono::offset::(Local|Utc)::now$|OffsetDateTime::now_(utc|local)', 'wall clock'),
    (r'^std::env::temp_dir$|tempfile::', 'temp names'),
    (r'^std::fs::read_dir$', 'directory order'),
]
# reviewed callers of clock / environment sources (function def-path prefixes), with reason
CLOCK_ALLOWED = {
    'util::date::today_local': 'today\'s date: an input of the run (rate-cache freshness, future-date warning), not per-process randomness',
    'util::date::local_utc_offset': 'tracing timestamp setup only',
    'tracing::': 'diagnostic logging to stderr',
    'util::date::': 'date helpers: today is an input of the run',
}


def only_feeds_tracing(fn, local):
    seen = set()
    work = [local]
    while work:
        l = work.pop()
        if l in seen:
            continue
        seen.add(l)
        for (bb, idx, kind, node) in fn.uses_of(l):
            if is_tracing(node['sp']['exp']):
                continue
            if kind == 'stmt' and node['r']['rv'] in ('use', 'ref', 'cast'):
                work.append(node['dst']['l'])
            elif kind == 'call' and short(node['callee']) in ('elapsed', 'duration_since', 'as_secs_f64', 'as_secs_f32',
                                                               'as_millis', 'as_micros', 'as_secs', 'deref', 'clone'):
                work.append(node['dst']['l'])
            else:
                return False
    return True


def other_sources(prog, rep):
    n = 0
    for c in prog.all_calls():
        for pat, what in RAND_CALLEES:
            if c.matches(pat):
                n += 1
                fn = c.fn
                k = '%s|%s' % (fn.name, short(c.callee))
                if is_tracing(c.exp):
                    rep.ok('R9d', k + '|tracing', where=c.where(), fn=fn.name, detail='%s inside a tracing macro (stderr diagnostics)' % what, trivial=True)
                    break
                allowed = [r for p, r in CLOCK_ALLOWED.items() if fn.name.startswith(p)]
                if what == 'clock' and c.dst_local() is not None and only_feeds_tracing(fn, c.dst_local()):
                    rep.ok('R9d', k, where=c.where(), fn=fn.name, detail='%s value flows only into elapsed()/tracing diagnostics' % what)
                elif what in ('clock', 'wall clock') and allowed:
                    rep.ok('R9d', k, where=c.where(), fn=fn.name, detail='%s: %s' % (what, allowed[0]))
                else:
                    rep.violation('R9d', k, where=c.where(), fn=fn.name, detail='per-process randomness source reachable in product code: %s (%s)' % (what, c.callee))
                break
        # Debug-formatting of a hash container
        if c.short == 'new_debug' and any(HASHONLY.search(g) for g in c.gargs):
            k = '%s|debug-fmt-hash' % c.fn.name
            if is_tracing(c.exp):
                rep.ok('R9d', k + '|tracing', where=c.where(), fn=c.fn.name, detail='{:?} of a hash container inside a tracing macro (stderr)', trivial=True)
            else:
                rep.violation('R9d', k, where=c.where(), fn=c.fn.name, detail='{:?} formatting of %s prints elements in hash order' % c.gargs[0][:80])
    rep.extra['randomness_source_sites'] = n
    # hash containers other than std's are not modelled by the iterator-type taint: none may appear in product code
    other = re.compile(r'(?<![A-Za-z0-9_])(hashbrown|ahash|fxhash|rustc_hash|indexmap|dashmap)::')
    seen_other = set()
    for fn in prog.product_fns():
        for l, t in fn.ty.items():
            m = other.search(t)
            if m and (fn.name, m.group(1)) not in seen_other:
                seen_other.add((fn.name, m.group(1)))
                rep.violation('R9d', '%s|unmodelled-hash-container|%s' % (fn.name, m.group(1)), fn=fn.name, where='%s:%d' % (fn.file, fn.line),
                              detail='a %s container is used (%s): its iteration order is not covered by the hash-order analysis' % (m.group(1), t[:80]))
    if not seen_other:
        rep.ok('R9d', 'only-std-hash-containers', fn='(all product crates)', detail='no hashbrown / ahash / fxhash / indexmap / dashmap typed value in any product body', trivial=True)
    external_hash_args(prog, rep)
    task_order(prog, rep)


EXTERNAL_OK = re.compile(
    r'^(std|core|alloc)::(collections::|iter::|ops::|clone::|cmp::|default::|mem::|ptr::|option::|result::|borrow::|convert::|'
    r'fmt::rt::Argument|sync::|rc::|cell::|boxed::|vec::|hash::|marker::|any::|slice::|future::|pin::|task::|panic|intrinsics::|hint::)|'
    r'^<|^hashbrown::|^lazy_static::|^std::fmt::Arguments|^std::thread::local')


def external_hash_args(prog, rep):
    """R9e: a hash container handed to a callee outside the analysed crates could be iterated there, invisibly."""
    n = 0
    for c in prog.all_calls():
        fn = c.fn
        if is_tracing(c.exp):
            continue
        if prog.resolve(c.callee, fn.crate) is not None or prog.resolve(c.decl, fn.crate) is not None:
            continue
        if EXTERNAL_OK.search(c.decl) and not c.short in ('serialize', 'to_value', 'to_string', 'to_writer'):
            continue
        for a in c.args:
            l = op_local(a)
            if l is None:
                continue
            ty = fn.ty.get(l, '')
            if HASHONLY.search(ty) and not H.search(ty):
                n += 1
                k = '%s|%s' % (fn.name, short(c.callee))
                rev = __import__('check').load_reviewed('c09_reviewed.json')
                full = 'C09|R9e|' + k
                if full in rev:
                    rep.reviewed('R9e', k, where=c.where(), fn=fn.name, detail='hash container passed to external %s — reviewed: %s' % (c.callee, rev[full]['reason']))
                else:
                    rep.violation('R9e', k, where=c.where(), fn=fn.name,
                                  detail='hash container (%s) passed to external callee %s, which may iterate it in hash order' % (ty[:80], c.callee))
                break
    rep.extra['external_calls_with_hash_args'] = n


CONCURRENCY_FORBIDDEN = [
    (r'^std::thread::(spawn|scope|Builder)', 'OS threads'),
    (r'mpsc::|crossbeam|::channel::|async_channel|flume::', 'channels'),
    (r'FuturesUnordered|futures_util::stream::.*buffer_unordered|::race$|::select$|future::select|try_race|::race_ok', 'completion-order combinators'),
    (r'^rayon::|par_iter|into_par_iter', 'rayon'),
]
SPAWN = re.compile(r'^async_std::task::(spawn|spawn_blocking|spawn_local)$|^async_std::task::Builder::spawn|^tokio::(task::)?spawn')
INTERIOR = re.compile(r'sync::Mutex|sync::RwLock|atomic::Atomic|cell::(RefCell|Cell)|mpsc::|async_std::sync::')


def task_order(prog, rep):
    """R9f: spawned tasks are joined in submission order and share no mutable state, so completion order is unobservable."""
    n = 0
    for c in prog.all_calls():
        fn = c.fn
        for pat, what in CONCURRENCY_FORBIDDEN:
            if c.matches(pat):
                rep.violation('R9f', '%s|%s' % (fn.name, short(c.callee)), where=c.where(), fn=fn.name,
                              detail='%s (%s): results may be observed in completion order' % (what, c.callee))
        if not c.matches(SPAWN.pattern):
            continue
        n += 1
        k = '%s|spawn' % fn.name
        h = c.dst_local()
        problems = []
        if h is None:
            problems.append('join handle stored through a projection')
        else:
            # the handle may only be moved (possibly via a user variable) into Vec::push or awaited directly
            seen = set()
            work = [h]
            pushed_to = set()
            while work:
                l = work.pop()
                if l in seen:
                    continue
                seen.add(l)
                for (bb, idx, kind, node) in fn.uses_of(l):
                    if kind == 'stmt' and node['r']['rv'] in ('use', 'ref'):
                        work.append(node['dst']['l'])
                    elif kind == 'call':
                        cc = fn.call_at[bb]
                        if cc.short == 'push' and cc.matches(r'vec::Vec'):
                            pushed_to.add(fn.ty.get(cc.arg_local(0), ''))
                        elif cc.short in ('into_future', 'poll', 'new_unchecked', 'get_context'):
                            pass
                        else:
                            problems.append('join handle passed to %s' % cc.callee)
                    elif kind == 'store':
                        problems.append('join handle stored into a field')
            # every Vec<JoinHandle> in this body is consumed only by in-order iteration
            for l, ty in fn.ty.items():
                if re.match(r'^std::vec::Vec<async_std::task::JoinHandle<', ty):
                    for (bb, idx, kind, node) in fn.uses_of(l):
                        if kind == 'call':
                            cc = fn.call_at[bb]
                            if cc.short not in ('push', 'into_iter', 'len', 'with_capacity', 'deref', 'iter', 'drop'):
                                problems.append('handle vector passed to %s' % cc.callee)
        # the spawned future must not capture interior-mutable shared state
        fut = c.arg_local(0)
        fty = fn.ty.get(fut, '') if fut is not None else ''
        for (bb, idx, kind, node) in fn.defs.get(fut, []) if fut is not None else []:
            if kind == 'stmt' and node['r']['rv'] == 'agg':
                for o in node['r']['ops']:
                    ol = op_local(o)
                    if ol is not None and INTERIOR.search(fn.ty.get(ol, '')):
                        problems.append('spawned task captures shared mutable state: %s' % fn.ty.get(ol, '')[:80])
        if problems:
            rep.violation('R9f', k, where=c.where(), fn=fn.name, detail='; '.join(sorted(set(problems))))
        else:
            rep.ok('R9f', k, where=c.where(), fn=fn.name,
                   detail='task handles are pushed to a Vec and awaited in submission order; no shared mutable captures')
    rep.extra['spawn_sites'] = n


def fixture():
    """positive examples: the hash-order rules must fire on the bad_* functions of /verif/fixtures/pos and only there"""
    import facts
    import check
    prog = mir.Program(facts.ensure_fixture())
    rep = check.Report('C09')
    an = analyse(prog, rep, {})
    bad = sorted({f for (f, k, v, d, w, t) in an.sites if v != 'ok'})
    want = ['@verif_fixture_pos::bad_hash_collect_join', '@verif_fixture_pos::bad_hash_loop_push', '@verif_fixture_pos::bad_sort_with_bool_key']
    return {'ok': bad == want, 'reported': bad, 'expected': want}
