"""C11 — writing transactions to CSV and reading them back is the identity: the structural clause that the writer's
and the reader's tables agree.  DESIGN.md 5.C11 (R11a-R11f)."""
import re

import mir
from mir import short, is_place, op_local

LEVEL = 'other'
EXPLANATION = ('Decides the necessary structural clauses of C11 (the round trip itself is a relation between values and is not decided): '
               '(R11a) the export column list is the reader\'s column set minus the deprecated "date"; (R11b) the writer has one arm per '
               'exported column; (R11c) the reader consumes every recognised column; (R11b/c) writer and reader map each column to the same '
               'CsvTx field; (R11d) every optional column has its "in use" trigger, guarded by the presence of exactly the field that column '
               'prints; (R11e) every CsvTx field is written and every field of Tx and its action specifics is carried into the CsvTx; '
               '(R11f) transaction CSV is only produced through txs_to_csv_table.')
TRUSTED_BASE = ['rustc nightly MIR construction and trait resolution', 'a match on &str lowers to a chain of <str as PartialEq>::eq calls against the arm constants']
ASSUMPTIONS = []

CSVTX = 'portfolio::model::tx::CsvTx'
COLS = 'portfolio::csv_common::CsvCol'


class Consts:
    def __init__(self, prog):
        self.prog = prog
        self.cache = {}

    def value(self, o):
        """string value of a constant operand (literal or named CsvCol constant)"""
        if o.get('k') != 'const':
            return None
        d = o.get('def') or ''
        if d and 'promoted' not in d:
            if d in self.cache:
                return self.cache[d]
            g = self.prog.resolve(d, 'acb')
            v = None
            if g is not None:
                for b in g.blocks.values():
                    for s in b['stmts']:
                        if s['dst']['l'] == 0 and s['r']['rv'] == 'use' and s['r']['ops'][0]['k'] == 'const':
                            v = lit(s['r']['ops'][0]['v'])
            self.cache[d] = v
            return v
        return lit(o.get('v', ''))


def opval(cs, fn, o):
    """string value of an operand: a constant, or a local that only re-borrows one constant"""
    v = cs.value(o)
    if v is not None or not is_place(o):
        return v
    org = mir.provenance(fn, o, pass_through={'deref', 'borrow', 'as_ref', 'clone'})
    vals = []
    for (_, x, d) in org.consts:
        y = lit(x) or cs.value({'k': 'const', 'def': d, 'v': x})
        if y is not None:
            vals.append(y)
    if len(set(vals)) == 1 and not org.params and not [c for c in org.calls if c.short not in ('deref', 'borrow', 'as_ref', 'clone')]:
        return vals[0]
    return None


def lit(v):
    m = re.match(r'^"(.*)"$', v, re.S)
    return m.group(1) if m else None


def array_consts(prog, cs, fn):
    """string constants of the array literal(s) built in fn (following the promoted constant when the array is promoted)"""
    out = []
    bodies = [fn]
    for b in bodies:
        for blk in b.blocks.values():
            for s in blk['stmts']:
                if s['r']['rv'] == 'agg' and s['r']['kind'] == 'array':
                    vals = [opval(cs, b, o) for o in s['r']['ops']]
                    if vals and all(v is not None for v in vals):
                        out.append(vals)
    return out


def const_operands(f):
    for b in f.blocks.values():
        for st in b['stmts']:
            for o in st['r'].get('ops', []):
                if o.get('k') == 'const':
                    yield o
        t = b['term']
        if t and t['t'] == 'call':
            for o in t['args']:
                if o.get('k') == 'const':
                    yield o


def str_arms(cs, f):
    """{column text: [eq calls]} for the `str == constant` tests of f (the lowering of `match col { CsvCol::X => .. }`)"""
    arms = {}
    for c in f.calls:
        if c.decl.endswith('PartialEq::eq') and 'str' in c.callee:
            vals = [v for v in (opval(cs, f, x) for x in c.args) if v]
            if vals:
                arms.setdefault(vals[0], []).append(c)
    return arms


def arm_fields(prog, f, c):
    """CsvTx fields read in the blocks dominated by the true edge of the arm test `c` of f (closures built there included)"""
    fs = set()
    sw = f.blocks[c.target]['term'] if c.target in f.blocks else None
    region = set()
    if sw and sw['t'] == 'switch':
        true_t = sw['otherwise'] if any(v == 0 for v, _ in sw['targets']) else None
        if true_t is not None:
            region = {b for b in f.blocks if f.dominates(true_t, b)}
    for b in region:
        blk = f.blocks[b]
        for s in blk['stmts']:
            for pl in f.stmt_sources(s):
                fs |= {fl for of, fl in mir.place_fields(pl) if of == CSVTX}
            if s['r']['rv'] == 'agg' and s['r']['kind'].startswith('closure:'):
                g = prog.by_crate[f.crate].get(s['r']['kind'][8:])
                if g:
                    for bb in g.blocks.values():
                        for s2 in bb['stmts']:
                            for pl in g.stmt_sources(s2):
                                fs |= {fl for of, fl in mir.place_fields(pl) if of == CSVTX}
        t = blk['term']
        if t and t['t'] == 'call':
            for x in t['args']:
                if is_place(x):
                    fs |= {fl for of, fl in mir.place_fields(x['pl']) if of == CSVTX}
    return fs


def run(prog, rep, tier='quick', config='default'):
    cs = Consts(prog)
    get_cols = prog.fn(COLS + '::get_csv_cols')
    exp_cols = prog.fn(COLS + '::export_order_non_deprecated_cols')
    writer = prog.fn('portfolio::io::tx_csv::txs_to_csv_table')
    from props import anchors
    reader = anchors.csv_reader(prog) or prog.fn('portfolio::io::tx_csv::csvtx_from_csv_values')
    for n, f in (('CsvCol::get_csv_cols', get_cols), ('CsvCol::export_order_non_deprecated_cols', exp_cols),
                 ('txs_to_csv_table (writer)', writer), ('csvtx_from_csv_values (reader)', reader)):
        rep.anchor(n, f)
    if not (get_cols and exp_cols and writer and reader):
        return
    a = array_consts(prog, cs, get_cols)
    e = array_consts(prog, cs, exp_cols)
    if not a or not e:
        rep.violation('R11a', 'anchor-lost:column-arrays', detail='anchor lost: could not read the column constant arrays')
        return
    allc, expc = a[0], e[0]
    # ------------------------------------------------------------------ R11a
    dup = [x for x in set(allc) if allc.count(x) > 1] + [x for x in set(expc) if expc.count(x) > 1]
    if dup:
        rep.violation('R11a', 'duplicate-column-names', fn=COLS, detail='two column constants share the text %s' % dup)
    diff = set(allc) - set(expc)
    extra = set(expc) - set(allc)
    if diff == {'date'} and not extra:
        rep.ok('R11a', 'export-list-is-reader-set-minus-date', fn=COLS, detail='%d reader columns, %d exported, difference = {"date"}' % (len(allc), len(expc)))
    else:
        rep.violation('R11a', 'export-list-is-reader-set-minus-date', fn=COLS, where='%s:%d' % (exp_cols.file, exp_cols.line),
                      detail='reader-only columns: %s; exported but not recognised when reading: %s (expected exactly the deprecated "date")'
                             % (sorted(diff), sorted(extra)))

    # ------------------------------------------------------------------ R11b: writer arms
    # the function holding the per-column `match col { .. }` of the writer: txs_to_csv_table itself or a helper it reaches in its file
    wgroup = [writer] + [g for g in prog.callees_closure([writer]).values() if g is not writer and g.file == writer.file and not mir.is_testsupport(g.name)]
    wgroup += [h for g in list(wgroup) for h in prog.closures_of(g) if h not in wgroup]
    cell_fn, arms = writer, str_arms(cs, writer)
    for g in wgroup:
        ga = str_arms(cs, g)
        if len(set(ga) & set(expc)) > len(set(arms) & set(expc)):
            cell_fn, arms = g, ga
    if not rep.anchor('writer arms (str == column constant)', sorted(arms)):
        return
    if set(arms) == set(expc):
        rep.ok('R11b', 'writer-has-one-arm-per-exported-column', fn=cell_fn.name, detail='%d arms = the %d exported columns' % (len(arms), len(expc)))
    else:
        rep.violation('R11b', 'writer-has-one-arm-per-exported-column', fn=cell_fn.name, where='%s:%d' % (cell_fn.file, cell_fn.line),
                      detail='exported columns without a writer arm (would hit panic!("Invalid col")): %s; arms for unknown columns: %s'
                             % (sorted(set(expc) - set(arms)), sorted(set(arms) - set(expc))))
    # fields printed by each arm: CsvTx fields read in the blocks dominated by the arm's true edge
    wfields = {col: arm_fields(prog, cell_fn, calls[0]) for col, calls in arms.items()}
    # ------------------------------------------------------------------ R11c: reader consumption + reader mapping
    removed = {}
    for c in reader.calls:
        if c.short == 'remove' and re.search(r'HashMap', c.callee) and len(c.args) > 1:
            v = opval(cs, reader, c.args[1])
            if v:
                removed.setdefault(v, []).append(c)
    if set(removed) == set(allc):
        rep.ok('R11c', 'reader-consumes-every-recognised-column', fn=reader.name, detail='%d columns removed from the value map = the recognised set' % len(removed))
    else:
        rep.violation('R11c', 'reader-consumes-every-recognised-column', fn=reader.name, where='%s:%d' % (reader.file, reader.line),
                      detail='recognised but never read (silently dropped): %s; read but not recognised: %s'
                             % (sorted(set(allc) - set(removed)), sorted(set(removed) - set(allc))))
    rfields = {}
    agg = None
    for b in reader.blocks.values():
        for s in b['stmts']:
            if s['r']['rv'] == 'agg' and s['r']['kind'].startswith('adt:' + CSVTX):
                agg = s
    if agg is None:
        rep.violation('R11c', 'anchor-lost:csvtx-construction', fn=reader.name, detail='anchor lost: CsvTx construction in the reader')
    else:
        rm_by_bb = {c.bb: v for v, cl in removed.items() for c in cl}
        for fname, o in zip(agg['r']['fields'], agg['r']['ops']):
            org = mir.provenance(reader, o, follow_all_call_args=True)
            cols = {rm_by_bb[c.bb] for c in org.calls if c.bb in rm_by_bb}
            for col in cols:
                rfields.setdefault(col, set()).add(fname)
        bad = []
        for col in expc:
            if col in wfields and rfields.get(col, set()) != wfields[col]:
                bad.append('%s: written from %s, read into %s' % (col, sorted(wfields[col]), sorted(rfields.get(col, set()))))
        if bad:
            rep.violation('R11c', 'writer-and-reader-map-columns-to-the-same-field', fn=reader.name, where=reader.where(agg),
                          detail='; '.join(bad))
        else:
            rep.ok('R11c', 'writer-and-reader-map-columns-to-the-same-field', fn=reader.name,
                   detail='%d columns: each is written from and read into the same CsvTx field' % len(expc))
        if rfields.get('date') != {'settlement_date'}:
            rep.violation('R11c', 'legacy-date-maps-to-settlement-date', fn=reader.name, detail='deprecated "date" column is read into %s' % sorted(rfields.get('date', [])))
        else:
            rep.ok('R11c', 'legacy-date-maps-to-settlement-date', fn=reader.name, detail='the deprecated "date" column is read into CsvTx.settlement_date', trivial=True)

    # ------------------------------------------------------------------ R11d: optional columns
    # the optional-column table: an array literal of the writer, or a constant item the writer group refers to
    opt = []
    for g in wgroup:
        opt += [x for x in array_consts(prog, cs, g) if x != expc and set(x) < set(expc)]
        for o in const_operands(g):
            item = prog.resolve(o.get('def') or '', 'acb') if re.match(r'^\[&(\'\w+ )?str; \d+\]$', o.get('ty', '')) else None
            if item is not None:
                opt += [x for x in array_consts(prog, cs, item) if x != expc and set(x) < set(expc)]
    opt_set = set(opt[0]) if opt else set()
    # triggers, form 1: `in_use.insert(COL)` under a guard; form 2: an arm `COL => <bool expression>` of a predicate of the writer group
    triggers = {}
    for c in writer.calls:
        if c.short == 'insert' and re.search(r'HashSet', c.callee) and len(c.args) > 1:
            v = opval(cs, writer, c.args[1])
            if v:
                gf = set()
                for (sbb, discr, vals, neg) in writer.conditions_at(c.bb):
                    org = mir.provenance(writer, discr, follow_all_call_args=True)
                    gf |= {f for of, f in org.fields if of == CSVTX}
                triggers.setdefault(v, (writer, c, gf))
    def flag_fields_behind(g, c0):
        """the arm answers with a flag kept in a private struct (`COL => self.tx_fx`): the CsvTx fields the stores into that flag
        depend on (`in_use.tx_fx |= tx.tx_curr_to_local_exchange_rate.is_some()`)"""
        sw = g.blocks[c0.target]['term'] if c0.target in g.blocks else None
        region = set()
        if sw and sw['t'] == 'switch':
            true_t = sw['otherwise'] if any(v == 0 for v, _ in sw['targets']) else None
            if true_t is not None:
                region = {b for b in g.blocks if g.dominates(true_t, b)}
        flags = set()
        for b in region:
            for st in g.blocks[b]['stmts']:
                for pl in g.stmt_sources(st):
                    for (of, fl) in mir.place_fields(pl):
                        a = prog.adts(g.crate).get(of)
                        if a is not None and not a.get('pub') and of != CSVTX and prog.field_type(of, fl) == 'bool':
                            flags.add((of, fl))
        out = set()
        for (of, fl) in flags:
            for h in prog.product_fns():
                if h.crate != g.crate or not h.file == g.file:
                    continue
                for b in h.blocks.values():
                    for st in b['stmts']:
                        if mir.place_fields(st['dst'])[-1:] == [(of, fl)]:
                            # `flag |= new`: the new operand only (the flag's own previous value leads back to the whole struct)
                            work, seen_l = list(st['r'].get('ops', [])), set()
                            while work:
                                o = work.pop()
                                if not is_place(o) or mir.place_fields(o['pl'])[-1:] == [(of, fl)]:
                                    continue
                                l_ = o['pl']['l']
                                d_ = h.single_def(l_) if not o['pl']['p'] else None
                                if d_ and d_[2] == 'stmt' and d_[3]['r']['rv'] == 'binop' and l_ not in seen_l:
                                    seen_l.add(l_)
                                    work += list(d_[3]['r']['ops'])
                                    continue
                                out |= {f2 for o2, f2 in mir.provenance(h, o, follow_all_call_args=True).fields if o2 == CSVTX}
        return out
    for g in wgroup:
        if g is cell_fn or g.ty.get(0) != 'bool':
            continue
        garms = str_arms(cs, g)
        for col, calls in garms.items():
            af = arm_fields(prog, g, calls[0]) or flag_fields_behind(g, calls[0])
            triggers.setdefault(col, (g, calls[0], af))
        # a predicate `match col { OPTIONAL_A => flag_a, .., _ => true }`: its named arms are the optional set
        if not opt_set and garms and set(garms) < set(expc):
            opt_set = set(garms)
    # form 3: a constant table of (COLUMN, predicate) pairs next to the writer — the table is the optional set, each predicate
    # (a closure or a function of the module) is the trigger of its column
    if not opt_set:
        wmod = writer.name.rsplit('::', 1)[0]
        for item in prog.fns.values():
            if item.kind != 'Const' or not item.name.startswith(wmod + '::') or '::{' in item.name:
                continue
            pairs = []
            for blk in item.blocks.values():
                for st in blk['stmts']:
                    r = st['r']
                    if r['rv'] == 'agg' and r['kind'] == 'tuple' and len(r['ops']) == 2:
                        col = opval(cs, item, r['ops'][0])
                        pred = None
                        if is_place(r['ops'][1]):
                            po = mir.provenance(item, r['ops'][1])
                            for kind in po.aggs:
                                if kind.startswith('closure:'):
                                    pred = prog.by_crate[item.crate].get(kind[len('closure:'):])
                            for (_t, v, d) in po.consts:
                                pred = pred or prog.resolve(d or v, item.crate)
                        if col in expc and pred is not None and pred.ty.get(0) == 'bool':
                            pairs.append((col, pred, st))
            if len(pairs) >= 2 and {c for c, _, _ in pairs} < set(expc):
                opt_set = {c for c, _, _ in pairs}
                for col, pred, st in pairs:
                    fs = set()
                    for h in [pred] + prog.closures_of(pred):
                        for blk in h.blocks.values():
                            for s2 in blk['stmts']:
                                for pl in h.stmt_sources(s2):
                                    fs |= {fl for of, fl in mir.place_fields(pl) if of == CSVTX}
                            t2 = blk['term']
                            if t2 and t2['t'] == 'call':
                                for a in t2['args']:
                                    if is_place(a):
                                        fs |= {fl for of, fl in mir.place_fields(a['pl']) if of == CSVTX}
                    triggers.setdefault(col, (pred, type('W', (), {'where': staticmethod(lambda item=item, st=st: item.where(st))})(), fs))
    if not opt_set:
        rep.violation('R11d', 'anchor-lost:optional-headers', fn=writer.name, detail='anchor lost: optional header set in txs_to_csv_table')
    elif set(triggers) != opt_set:
        rep.violation('R11d', 'every-optional-column-has-a-trigger', fn=writer.name, where='%s:%d' % (writer.file, writer.line),
                      detail='optional columns never marked "in use" (would be dropped from every file): %s; triggers for non-optional columns: %s'
                             % (sorted(opt_set - set(triggers)), sorted(set(triggers) - opt_set)))
    else:
        rep.ok('R11d', 'every-optional-column-has-a-trigger', fn=writer.name, detail='%d optional columns, one in-use trigger each' % len(opt_set))
    for col, (g, c, gf) in sorted(triggers.items()):
        k = 'trigger-guard|%s' % col
        want = wfields.get(col, set())
        if gf and gf <= want:
            rep.ok('R11d', k, where=c.where(), fn=g.name, detail='marked in use when CsvTx.%s is present — the field this column prints' % '/'.join(sorted(gf)))
        else:
            rep.violation('R11d', k, where=c.where(), fn=g.name,
                          detail='column "%s" prints CsvTx.%s but is marked in use depending on %s: a populated value can be dropped from the file'
                                 % (col, '/'.join(sorted(want)) or '?', sorted(gf) or 'nothing'))
    # the header filter keeps a column iff it is not optional or is in use
    # ------------------------------------------------------------------ R11e
    adts = prog.adts('acb')
    cf = [f['name'] for f in adts[CSVTX]['variants'][0]['fields']] if CSVTX in adts else []
    written = set().union(*wfields.values()) if wfields else set()
    miss = [f for f in cf if f not in written and f != 'read_index']
    if miss:
        rep.violation('R11e', 'every-csvtx-field-is-written', fn=writer.name, detail='CsvTx fields never written to the CSV: %s' % miss)
    else:
        rep.ok('R11e', 'every-csvtx-field-is-written', fn=writer.name, detail='%d CsvTx fields (all but read_index) are printed by some column' % (len(cf) - 1))
    to_csvtx = prog.fn('portfolio::model::tx::Tx::to_csvtx')
    if rep.anchor('Tx::to_csvtx', to_csvtx):
        grp = prog.callees_closure([to_csvtx])
        grp = [g for g in grp.values() if g.name.startswith('portfolio::model::tx::')]
        reads = set()
        for g in grp:
            for b in g.blocks.values():
                for s in b['stmts']:
                    for pl in g.stmt_sources(s):
                        reads |= set(mir.place_fields(pl))
                t = b['term']
                if t and t['t'] == 'call':
                    for x in t['args']:
                        if is_place(x):
                            reads |= set(mir.place_fields(x['pl']))
        for adt in ('Tx', 'BuyTxSpecifics', 'SellTxSpecifics', 'RocTxSpecifics', 'SflaTxSpecifics', 'SplitTxSpecifics'):
            full = 'portfolio::model::tx::' + adt
            if full not in adts:
                rep.violation('R11e', 'anchor-lost:' + adt, detail='anchor lost: struct %s' % full)
                continue
            fl = [f['name'] for f in adts[full]['variants'][0]['fields']]
            miss = [f for f in fl if (full, f) not in reads and f != 'read_index']
            if miss:
                rep.violation('R11e', 'to_csvtx-carries-every-field|%s' % adt, fn=to_csvtx.name,
                              detail='%s.%s is never read when converting a Tx to its CSV form: the value is lost on export' % (adt, ', '.join(miss)))
            else:
                rep.ok('R11e', 'to_csvtx-carries-every-field|%s' % adt, fn=to_csvtx.name, detail='all %d fields of %s are read' % (len(fl), adt))

    # ------------------------------------------------------------------ R11h: the commission's own currency is exported whenever present
    TRANSPORT = {'clone', 'as_ref', 'map', 'deref', 'borrow', 'to_owned', 'as_deref', 'cloned', 'copied', 'to_string', 'into', 'from',
                 'unwrap', 'expect', 'branch', 'from_output', 'call_once', 'call_mut', 'call'}
    if to_csvtx is not None:
        grp2 = [g for g in prog.callees_closure([to_csvtx]).values() if g.name.startswith('portfolio::model::tx::')]
        grp2 += [h for g in list(grp2) for h in prog.closures_of(g) if h not in grp2]
        n_h = 0
        for g in grp2:
            stores = []
            for i, b in g.blocks.items():
                for st in b['stmts']:
                    if ('portfolio::model::tx::CsvTx', 'commission_currency') in set(mir.place_fields(st['dst'])):
                        stores.append((i, st, list(st['r'].get('ops', [])) + ([{'k': 'copy', 'pl': st['r']['pl']}] if 'pl' in st['r'] else []), g.where(st)))
                t = b['term']
                if t and t['t'] == 'call' and ('portfolio::model::tx::CsvTx', 'commission_currency') in set(mir.place_fields(t['dst'])):
                    stores.append((i, t, list(t['args']), g.where(t)))
            for (bb, node, ops, where) in stores:
                src_field = False
                bad = []
                for o in ops:
                    if not is_place(o):
                        continue
                    org = mir.provenance(g, o, follow_all_call_args=True)
                    if any(f == 'separate_commission_currency' for (_, f) in org.fields):
                        src_field = True
                    bad += [c for c in org.calls if c.short not in TRANSPORT]
                    # the value may come in as a parameter of a local closure (`|tx, sep: &Option<..>| ..` called with `&s.separate_..`)
                    if g.kind == 'Closure' and (org.params - {1}) and not any(f == 'separate_commission_currency' for (_, f) in org.fields):
                        for (par, cc, aops) in mir.direct_closure_calls(prog, g):
                            for p_ in org.params - {1}:
                                if p_ - 2 < len(aops) and is_place(aops[p_ - 2]):
                                    o2 = mir.provenance(par, aops[p_ - 2], follow_all_call_args=True)
                                    if any(f == 'separate_commission_currency' for (_, f) in o2.fields):
                                        src_field = True
                                    bad += [c for c in o2.calls if c.short not in TRANSPORT]
                if node.get('t') == 'call':
                    cs = g.call_at[bb]
                    if cs.short not in TRANSPORT:
                        bad.append(cs)
                    src_field = src_field or any(
                        f == 'separate_commission_currency'
                        for a in cs.args if is_place(a) for (_, f) in mir.provenance(g, a, follow_all_call_args=True).fields)
                if not src_field:
                    continue   # e.g. the `None` initialiser
                n_h += 1
                conds = []
                for (sbb, discr, vals, neg) in g.conditions_at(bb):
                    d = mir.provenance(g, discr, follow_all_call_args=True)
                    if not any(f in ('separate_commission_currency',) for (_, f) in d.fields):
                        continue
                    conds += [c for c in d.calls if c.short not in TRANSPORT]
                k = '%s|commission-currency-exported-whenever-present#%d' % (g.name, n_h)
                if bad or conds:
                    c0 = (bad or conds)[0]
                    rep.violation('R11h', k, where=where, fn=g.name,
                                  detail='CsvTx.commission_currency is derived from the transaction\'s separate commission currency through %s (%s): '
                                         'a currency that is present can be left out of the exported row, and the row is then read back with the '
                                         'commission in the trade\'s currency' % (short(c0.callee), 'a condition' if not bad else 'a filtering step'))
                else:
                    rep.ok('R11h', k, where=where, fn=g.name,
                           detail='CsvTx.commission_currency is Some exactly when the transaction has a separate commission currency '
                                  '(only the Option discriminant decides; the value passes through clone/map)')
        # R11i: whether an exchange rate is written is decided by the currency, never by the rate's value
        n_i = 0
        hit = None
        for g in grp2:
            for c in g.calls:
                if c.short not in ('eq', 'ne', 'cmp', 'partial_cmp', 'lt', 'le', 'gt', 'ge', 'is_zero', 'is_one', 'is_integer'):
                    continue
                for a in c.args:
                    if is_place(a) and any(fl == 'exchange_rate' for (_, fl) in mir.provenance(g, a, follow_all_call_args=True).fields):
                        hit = hit or (g, c)
            n_i += len([1 for b in g.blocks.values() for st in b['stmts'] if any(fl.endswith('exchange_rate') for (_, fl) in mir.place_fields(st['dst'])[-1:])])
            n_i += len([1 for b in g.blocks.values() if b['term'] and b['term']['t'] == 'call' and
                        any(fl.endswith('exchange_rate') for (_, fl) in mir.place_fields(b['term']['dst'])[-1:])])
        if hit:
            g, c = hit
            rep.violation('R11i', 'rate-written-whatever-its-value', where=c.where(), fn=g.name,
                          detail='the conversion to the CSV form compares an exchange rate (%s): a foreign-currency row whose rate happens to equal the '
                                 'tested value (USD at parity) is written without its rate and cannot be read back' % short(c.callee))
        elif n_i >= 3:
            rep.ok('R11i', 'rate-written-whatever-its-value', fn=to_csvtx.name,
                   detail='%d stores to CsvTx exchange-rate fields; no comparison on an exchange rate anywhere under Tx::to_csvtx' % n_i)
        else:
            rep.violation('R11i', 'anchor-lost:rate-stores', fn=to_csvtx.name, detail='anchor lost: only %d stores to CsvTx exchange-rate fields found' % n_i)
        if n_h == 0:
            rep.violation('R11h', 'anchor-lost:commission-currency-export', fn=to_csvtx.name,
                          detail='anchor lost: no store to CsvTx.commission_currency fed by separate_commission_currency found under Tx::to_csvtx')

    # ------------------------------------------------------------------ R11g: the writer formats values losslessly
    from props import c06
    grp = prog.callees_closure([writer])
    lossy = []
    for g in grp.values():
        if g.crate != 'acb':
            continue
        for c in g.calls:
            if c06.LOSSY.search(c.callee) or c06.LOSSY.search(c.decl):
                lossy.append((g, c))
    if lossy:
        g, c = lossy[0]
        rep.violation('R11g', 'writer-formats-losslessly', where=c.where(), fn=g.name,
                      detail='the CSV writer reaches the lossy operation %s through %s: a written value can differ from the stored one, so reading the file '
                             'back does not reproduce the transaction' % (short(c.callee), g.name))
    else:
        rep.ok('R11g', 'writer-formats-losslessly', fn=writer.name, detail='no rounding / truncating / float operation is reachable from txs_to_csv_table (%d functions)' % len(grp))

    # ------------------------------------------------------------------ R11l: free text passes unchanged in both directions
    # the memo is the one free-text column: what the writer prints for it is CsvTx.memo itself and what the reader stores is the cell
    # itself — no prefixing, stripping, trimming, replacing or re-formatting on either side (an escape that is not applied to text that
    # already looks escaped changes such a memo on every round trip)
    TEXT_EDIT = {'strip_prefix', 'strip_suffix', 'trim', 'trim_start', 'trim_end', 'trim_matches', 'trim_start_matches', 'trim_end_matches', 'replace',
                 'replacen', 'to_lowercase', 'to_uppercase', 'to_ascii_lowercase', 'to_ascii_uppercase', 'truncate', 'split_off', 'drain', 'pop',
                 'push', 'push_str', 'insert', 'insert_str', 'format', 'repeat', 'split', 'splitn', 'split_once', 'rsplit', 'chars', 'bytes',
                 'escape_default', 'escape_debug', 'lines', 'get', 'index', 'retain', 'remove_matches', 'concat', 'join', 'add'}

    def text_edits(f0, seeds_calls, fn_values):
        """text-editing calls among `seeds_calls` and in the bodies of the crate functions / closures they involve"""
        seen, work, hits = set(), [], []
        def consider(f_, calls):
            for x in calls:
                is_str = re.search(r'str>?::|string::String|alloc::fmt::format|std::fmt::format', x.callee + ' ' + x.decl) or x.callee.endswith('fmt::format')
                if is_str and x.short in TEXT_EDIT and not (x.short in ('get', 'index', 'remove', 'insert') and 'HashMap' in x.callee):
                    hits.append((f_, x))
                h = prog.resolve(x.callee, f_.crate)
                if h is not None and h.crate == f_.crate and h.name not in seen and h.name.startswith(writer.name.rsplit('::', 1)[0]):
                    seen.add(h.name)
                    work.append(h)
                for a in x.args:
                    if a.get('k') == 'const' and a.get('def'):
                        h2 = prog.resolve(a['def'], f_.crate)
                        if h2 is not None and h2.kind in ('Fn', 'AssocFn') and h2.name not in seen and h2.name.startswith(writer.name.rsplit('::', 1)[0]):
                            seen.add(h2.name)
                            work.append(h2)
        consider(f0, seeds_calls)
        for h in fn_values:
            if h.name not in seen:
                seen.add(h.name)
                work.append(h)
        while work:
            h = work.pop()
            for g2 in [h] + prog.closures_of(h):
                consider(g2, g2.calls)
        return hits
    if agg is not None and 'memo' in agg['r']['fields']:
        o = agg['r']['ops'][agg['r']['fields'].index('memo')]
        org = mir.provenance(reader, o, follow_all_call_args=True)
        vals = [prog.by_crate[reader.crate].get(k[len('closure:'):]) for k in org.aggs if k.startswith('closure:')]
        hits = text_edits(reader, org.calls, [v for v in vals if v is not None])
        if hits:
            f_, x = hits[0]
            rep.violation('R11l', 'memo-read-as-written', where=x.where(), fn=f_.name,
                          detail='the memo cell is edited on its way into the record (%s): a memo that already looks like the edited form is changed by '
                                 'writing and reading it back' % x.short)
        else:
            rep.ok('R11l', 'memo-read-as-written', fn=reader.name, where=reader.where(agg), detail='CsvTx.memo is the cell itself')
    if 'memo' in arms if isinstance(arms, dict) else False:
        c0 = arms['memo'][0]
        sw = cell_fn.blocks[c0.target]['term'] if c0.target in cell_fn.blocks else None
        region = set()
        if sw and sw['t'] == 'switch':
            true_t = sw['otherwise'] if any(v == 0 for v, _ in sw['targets']) else None
            if true_t is not None:
                # up to the point where the arms join again
                region = {b for b in cell_fn.blocks if cell_fn.dominates(true_t, b)}
        calls = [x for x in cell_fn.calls if x.bb in region]
        vals = []
        for b in region:
            for st in cell_fn.blocks[b]['stmts']:
                if st['r']['rv'] == 'agg' and st['r']['kind'].startswith('closure:'):
                    h = prog.by_crate[cell_fn.crate].get(st['r']['kind'][8:])
                    if h is not None:
                        vals.append(h)
        hits = text_edits(cell_fn, calls, vals)
        if hits:
            f_, x = hits[0]
            rep.violation('R11l', 'memo-written-as-held', where=x.where(), fn=f_.name,
                          detail='the memo is edited before it is written (%s): unless the reader undoes exactly that edit for every text, the memo read '
                                 'back differs' % x.short)
        else:
            rep.ok('R11l', 'memo-written-as-held', fn=cell_fn.name, where=c0.where(), detail='the memo column prints CsvTx.memo itself')

    # ------------------------------------------------------------------ R11j: the converters' CSV writer emits table cells unchanged
    STR_XFORM = {'replace', 'replacen', 'trim', 'trim_start', 'trim_end', 'trim_matches', 'trim_start_matches', 'trim_end_matches',
                 'to_lowercase', 'to_uppercase', 'to_ascii_lowercase', 'to_ascii_uppercase', 'truncate', 'split', 'splitn', 'rsplit',
                 'split_whitespace', 'lines', 'strip_prefix', 'strip_suffix', 'escape_debug', 'escape_default', 'escape_unicode',
                 'replace_range', 'chars', 'char_indices', 'bytes', 'split_at', 'split_off', 'make_ascii_lowercase', 'make_ascii_uppercase'}
    cw = [f for f in prog.product_fns() if f.name.startswith('<app::outfmt::csv::') and f.name.endswith('::print_render_table')]
    if config != 'wasm' or cw:
        if rep.anchor('CSV implementation of AcbWriter::print_render_table', cw):
            f0 = cw[0]
            work = []
            seeds0 = set()
            for b in f0.blocks.values():
                for st in b['stmts']:
                    if any(of.endswith('render::RenderTable') and fl in ('header', 'rows', 'footer') for pl in f0.stmt_sources(st) for (of, fl) in mir.place_fields(pl)):
                        seeds0.add(st['dst']['l'])
            work.append((f0, frozenset(seeds0)))
            seen = set()
            hit = None
            n_fn = 0
            while work and n_fn < 40:
                g, seeds = work.pop()
                if (g.name, seeds) in seen or not seeds:
                    continue
                seen.add((g.name, seeds))
                n_fn += 1
                t = mir.forward_taint(g, set(seeds))
                for c in g.calls:
                    als = c.arg_locals()
                    if not any(a in t for a in als):
                        continue
                    if c.short in STR_XFORM and re.search(r'str|string::String', c.callee) and als and als[0] in t:
                        hit = hit or (g, c)
                    h = prog.resolve(c.callee, g.crate)
                    if h is not None and h.name.startswith('app::outfmt::'):
                        work.append((h, frozenset(i + 1 for i, a in enumerate(als) if a in t)))
                for h in prog.closures_of(g):
                    # a closure created here and handed to an adaptor over tainted data: its item parameters are tainted
                    work.append((h, frozenset(range(2, h.argc + 1))))
            if not seeds0:
                rep.violation('R11j', 'anchor-lost:table-cells', fn=f0.name, detail='anchor lost: the CSV writer does not read RenderTable.header/rows/footer')
            elif hit:
                g, c = hit
                rep.violation('R11j', 'cells-written-unchanged', where=c.where(), fn=g.name,
                              detail='a table cell passes through str::%s on its way to the CSV record: what the converters write (a memo with a '
                                     'line break, padding, case) is no longer what is read back' % c.short)
            else:
                rep.ok('R11j', 'cells-written-unchanged', fn=f0.name,
                       detail='header, rows and footer reach write_record without any string-transforming call (%d functions/closures followed)' % n_fn)

    # ------------------------------------------------------------------ R11k: reader and writers speak the default CSV dialect
    DIALECT = re.compile(r'^csv::(ReaderBuilder|WriterBuilder)::(escape|delimiter|quote|double_quote|quoting|quote_style|comment|terminator|trim|ascii)$')
    builders = [(f, c) for f in prog.product_fns() if not mir.is_testsupport(f.name) for c in f.calls if re.match(r'^csv::(ReaderBuilder|WriterBuilder)::', c.callee)]
    setters = [(f, c) for (f, c) in builders if DIALECT.search(c.callee)]
    if setters:
        f0, c0 = setters[0]
        rep.violation('R11k', 'reader-and-writers-use-one-dialect', where=c0.where(), fn=f0.name,
                      detail='%s changes the CSV dialect on one side only: what the writer produces (it escapes nothing, doubles quotes) is no longer '
                             'what the reader undoes - e.g. with an escape byte a backslash inside a quoted memo is swallowed' % short(c0.callee))
    elif len(builders) >= 4:
        rep.ok('R11k', 'reader-and-writers-use-one-dialect', fn='(all product crates)',
               detail='%d csv builder calls, none of them a dialect setter (escape / delimiter / quote / double_quote / quoting / terminator / trim / comment)' % len(builders))
    else:
        rep.violation('R11k', 'anchor-lost:csv-builders', detail='anchor lost: only %d csv::ReaderBuilder / WriterBuilder calls found' % len(builders))

    # ------------------------------------------------------------------ R11f
    n = 0
    for fn in prog.product_fns():
        if fn.file == writer.file:
            continue      # the module of the table writer itself (wherever it lives)
        wr = [c for c in fn.calls if re.search(r'csv::Writer::<W>::(write_record|serialize|write_field)$', c.callee)]
        if not wr:
            continue
        n += 1
        has_csvtx = any('model::tx::CsvTx' in t for t in fn.ty.values())
        uses_table = any(c.callee == writer.name for c in fn.calls)
        if has_csvtx and not uses_table:
            rep.violation('R11f', '%s|writes-csvtx-directly' % fn.name, where=wr[0].where(), fn=fn.name,
                          detail='writes CSV records from CsvTx values without going through txs_to_csv_table (a second, diverging writer)')
    rep.ok('R11f', 'single-transaction-csv-writer', fn='portfolio::io::tx_csv', detail='%d other csv::Writer users, none handles CsvTx values directly' % n, trivial=True)
    rep.extra['columns'] = {'reader': allc, 'export': expc, 'optional': sorted(opt_set)}
    rep.extra['writer_fields'] = {k: sorted(v) for k, v in wfields.items()}
    rep.extra['reader_fields'] = {k: sorted(v) for k, v in rfields.items()}
