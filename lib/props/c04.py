"""C04 — balances never negative; rejection visible and local.  DESIGN.md 5.C04 (R4a construction closure,
R4b every output mode exports the errors, R4c an errored security never feeds a gains total)."""
import re

import mir
from mir import short, is_place, op_local

LEVEL = 'other'
EXPLANATION = ('Decides three necessary structural clauses of C04. (R4a) "no row shows a negative balance or cost base": every balance and '
               'amount is a ConstrainedDecimal, and such a value can only be created by the checking constructor (every aggregate of the '
               'type is enumerated; no field store, &mut borrow, DerefMut-style impl, transmute or unsafe block exists) — compile-fail '
               'witnesses in /verif/witnesses confirm the encapsulation from outside the crate. (R4b) "the message reaches the user in every '
               'output mode": every implementation of AcbWriter::print_render_table and every serde serialiser wrapping RenderTable reads all '
               'five RenderTable fields, and the errors field flows into an output call; the app pushes the bookkeeping error text into '
               'RenderTable.errors. (R4c) "the security is left out of every capital-gain total": partial deltas of a failed security never '
               'flow into the gains / summary calculators. Not decided: the iff over the five rejection causes and the arithmetic of the prefix.')
TRUSTED_BASE = ['rustc nightly MIR construction and trait resolution', 'the four one-line DecConstraint::is_ok bodies (pinned by a unit test)',
                'Rust privacy: a tuple struct with private fields cannot be built or mutated outside its module without unsafe']
ASSUMPTIONS = ['the render layer formats exactly the ConstrainedDecimal fields of the post-status (checked in R4a\'\' for the tx table)']

CD = 'util::decimal::ConstrainedDecimal'
RT = 'portfolio::render::RenderTable'
RT_FIELDS = ['header', 'rows', 'footer', 'notes', 'errors']
OUTPUT_CALL = re.compile(r'std::io::Write::write(_fmt|_all)?$|csv::Writer::<W>::write_record|serde::ser::SerializeStruct::serialize_field|'
                         r'std::fmt::Write::write_(fmt|str)|serialize_element|tabled::')


def constraint_of(tystr):
    m = re.search(r'ConstrainedDecimal<(?:util::decimal::constraint::)?(\w+)>', tystr)
    return m.group(1) if m else None


def run(prog, rep, tier='quick', config='default'):
    r4a(prog, rep)
    r4b(prog, rep, config)
    r4c(prog, rep)
    r4a2(prog, rep)
    r4d(prog, rep)
    r4e(prog, rep)
    r4f(prog, rep)
    r4g(prog, rep)
    r4h(prog, rep, config)


# ------------------------------------------------------------------------------------------------ R4a
def r4a(prog, rep):
    adts = prog.adts('acb')
    if not rep.anchor('type ' + CD, adts.get(CD)):
        return
    fields = adts[CD]['variants'][0]['fields']
    if any(f['pub'] for f in fields):
        # not a violation by itself: every construction and field store in the analysed crates is still enumerated below
        rep.info('R4a', 'public-field', fn=CD, detail='encapsulation weakened: a field of ConstrainedDecimal is pub (constructions and stores are still all checked)')
    else:
        rep.ok('R4a', 'fields-private', fn=CD, detail='%d private fields' % len(fields), trivial=True)
    n_agg = 0
    ordn = {}
    for fn in prog.fns.values():
        if fn.kind in ('Const', 'AssocConst', 'Static'):
            pass
        for i, b in fn.blocks.items():
            for s in b['stmts']:
                r = s['r']
                if r['rv'] == 'agg' and r['kind'].startswith('adt:' + CD + '::'):
                    n_agg += 1
                    ordn[fn.name] = ordn.get(fn.name, 0) + 1
                    k = '%s|construct#%d' % (fn.name, ordn[fn.name])
                    ok, why = construction_ok(prog, fn, i, s)
                    if ok:
                        rep.ok('R4a', k, where=fn.where(s), fn=fn.name, detail=why)
                    else:
                        rep.violation('R4a', k, where=fn.where(s), fn=fn.name,
                                      detail='ConstrainedDecimal built without passing its constraint check: %s' % why)
                # stores into / mutable borrows of the inner Decimal
                dfs = mir.place_fields(s['dst'])
                if any(of == CD and f == '0' for of, f in dfs):
                    rep.violation('R4a', '%s|inner-store' % fn.name, where=fn.where(s), fn=fn.name,
                                  detail='the inner Decimal of a ConstrainedDecimal is assigned directly, bypassing the constraint')
                if r['rv'] in ('ref', 'rawptr') and r.get('mut', r['rv'] == 'rawptr') and any(of == CD and f == '0' for of, f in mir.place_fields(r['pl'])):
                    rep.violation('R4a', '%s|inner-mut-borrow' % fn.name, where=fn.where(s), fn=fn.name,
                                  detail='the inner Decimal of a ConstrainedDecimal is borrowed mutably')
                if r['rv'] == 'cast' and 'Transmute' in r.get('kind', '') and CD in r.get('to', ''):
                    rep.violation('R4a', '%s|transmute' % fn.name, where=fn.where(s), fn=fn.name, detail='transmute into ConstrainedDecimal')
    if n_agg < 3:
        rep.violation('R4a', 'anchor-lost:constructors', detail='anchor lost: only %d constructions of ConstrainedDecimal found' % n_agg)
    bad_traits = ('std::ops::DerefMut', 'std::convert::AsMut', 'std::borrow::BorrowMut', 'std::ops::IndexMut')
    for crate, i in prog.impls():
        if CD in i['self'] and i['trait'] in bad_traits:
            rep.violation('R4a', 'impl|%s' % i['trait'], where='%s:%d' % (i['sp']['file'], i['sp']['line']), fn=i['self'],
                          detail='impl %s for ConstrainedDecimal hands out &mut Decimal: the constraint can be broken after construction' % i['trait'])
    rep.ok('R4a', 'no-mutable-access-impls', fn=CD, detail='no DerefMut/AsMut/BorrowMut/IndexMut impl among %d impls' % len(prog.impls()), trivial=True)
    # functions returning &mut Decimal from a ConstrainedDecimal receiver
    for crate, m in prog.meta.items():
        for f in m.get('fns', []):
            if '&mut rust_decimal::Decimal' in f['output'] and any(CD in t for t in f['inputs']):
                rep.violation('R4a', 'fn-returns-mut-inner|%s' % f['name'], fn=f['name'], detail='returns &mut Decimal borrowed from a ConstrainedDecimal')
    ub = prog.unsafe_blocks.get('acb', None)
    if ub is None:
        rep.violation('R4a', 'anchor-lost:unsafe-count', detail='anchor lost: no unsafe-block count for crate acb')
    elif ub != 0:
        rep.violation('R4a', 'unsafe-blocks', fn='acb', detail='%d unsafe block(s) in crate acb: type invariants can be bypassed' % ub)
    else:
        rep.ok('R4a', 'no-unsafe', fn='acb', detail='0 unsafe blocks written in crate acb', trivial=True)
    rep.extra['constrained_decimal_constructions'] = n_agg


def construction_ok(prog, fn, bb, s):
    ops = s['r']['ops']
    cons = constraint_of(fn.ty.get(s['dst']['l'], '')) or constraint_of(fn.ty.get(0, ''))
    o0 = ops[0]
    # (ii) constant operand
    if o0['k'] == 'const':
        v = o0.get('def') or o0['v']
        if v.endswith('Decimal::ZERO') and cons in ('GreaterEqualZero', 'LessEqualZero'):
            return True, 'constant Decimal::ZERO satisfies %s' % cons
        if v.endswith('Decimal::ONE') and cons in ('GreaterEqualZero', 'Pos'):
            return True, 'constant Decimal::ONE satisfies %s' % cons
        if v.endswith('Decimal::NEGATIVE_ONE') and cons in ('LessEqualZero', 'Neg'):
            return True, 'constant Decimal::NEGATIVE_ONE satisfies %s' % cons
        return False, 'constant %s is not known to satisfy constraint %s' % (v, cons)
    org = mir.provenance(fn, o0, pass_through={'clone'})
    # (iii) Clone::clone — the operand is the inner value of self
    if short(fn.name) == 'clone' and 'Clone' in fn.name:
        if org.params == {1} and all(of == CD for of, f in org.fields) and not [c for c in org.calls if c.short != 'clone']:
            return True, 'Clone: copies the inner value of an existing (checked) value'
        return False, 'Clone::clone builds the value from something other than self.0'
    # (i) guarded by CONSTRAINT::is_ok(&d) == true on the same d
    for (sbb, discr, vals, neg) in fn.conditions_at(bb):
        d = mir.provenance(fn, discr)
        chk = [c for c in d.calls if c.decl.endswith('DecConstraint::is_ok')]
        if not chk:
            continue
        truth = (vals != [0]) if vals is not None else (0 in (neg or []))
        if not truth:
            return False, 'constructed on the FALSE edge of is_ok'
        a = mir.provenance(fn, chk[0].args[0])
        root_chk = a.params | {l for l in a.locals if l in fn.user}
        root_val = org.params | {l for l in org.locals if l in fn.user}
        if root_chk & root_val:
            return True, 'constructed on the true edge of %s applied to the same value' % chk[0].decl
        return False, 'is_ok is applied to a different value than the one stored'
    return False, 'no dominating DecConstraint::is_ok check'


# ------------------------------------------------------------------------------------------------ R4b
def param_reaches_output(prog, h, param, depth=0, _memo={}):
    key = (h.name, param)
    if key in _memo:
        return _memo[key]
    _memo[key] = False
    res = False
    t = mir.forward_taint(h, {param})
    for c in h.calls:
        if not any(a in t for a in c.arg_locals()):
            continue
        if OUTPUT_CALL.search(c.decl) or OUTPUT_CALL.search(c.callee):
            res = True
            break
        h2 = prog.resolve(c.callee, h.crate)
        if h2 is not None and depth < 3:
            for ai, a in enumerate(c.arg_locals()):
                if a in t and param_reaches_output(prog, h2, ai + 1, depth + 1):
                    res = True
    _memo[key] = res
    return res


def r4b(prog, rep, config):
    exporters = []
    for f in prog.trait_impl_methods('app::outfmt::model::AcbWriter', 'print_render_table'):
        exporters.append(('AcbWriter impl', f))
    for crate, i in prog.impls():
        if i['trait'] == 'serde::Serialize' or i['trait'].endswith('ser::Serialize'):
            self_ty = i['self']
            adt = None
            for a in prog.meta.get(crate, {}).get('adts', []):
                if a['name'] == self_ty:
                    adt = a
            wraps = adt and any('render::RenderTable' in fl['ty'] and 'HashMap' not in fl['ty'] and 'Option' not in fl['ty']
                                for v in adt['variants'] for fl in v['fields']) and len([fl for v in adt['variants'] for fl in v['fields']]) == 1
            if wraps:
                for it in i['items']:
                    g = prog.by_crate[crate].get(it)
                    if g is not None and short(it) == 'serialize':
                        exporters.append(('serde serialiser of RenderTable', g))
    if config == 'default':
        rep.anchor('implementations of AcbWriter::print_render_table', [f for k, f in exporters if k == 'AcbWriter impl'])
        if len([1 for k, f in exporters if k == 'AcbWriter impl']) < 2:
            rep.violation('R4b', 'anchor-lost:writers', detail='anchor lost: expected at least the text and CSV writers')
        rep.anchor('serde serialiser wrapping RenderTable (web UI model)', [f for k, f in exporters if k != 'AcbWriter impl'])
    for kind, f in exporters:
        group = prog.callees_closure([f])
        group = {n: g for n, g in group.items() if g.crate == f.crate}
        read = {}
        flows = False
        for g in group.values():
            seeds = set()
            for i, b in g.blocks.items():
                for s in b['stmts']:
                    for pl in g.stmt_sources(s):
                        for (of, fl) in mir.place_fields(pl):
                            if of.endswith('render::RenderTable'):
                                read.setdefault(fl, g.where(s))
                                if fl == 'errors':
                                    seeds.add(s['dst']['l'])
            for c in g.calls:
                for a in c.args:
                    if is_place(a):
                        for (of, fl) in mir.place_fields(a['pl']):
                            if of.endswith('render::RenderTable'):
                                read.setdefault(fl, c.where())
            if seeds:
                t = mir.forward_taint(g, seeds)
                for c in g.calls:
                    if (OUTPUT_CALL.search(c.decl) or OUTPUT_CALL.search(c.callee)) and any(a in t for a in c.arg_locals()):
                        flows = True
                    # ... or is walked by an adaptor whose closure writes each element (`errors.iter().try_for_each(|e| writeln!(..e..))`)
                    if c.decl.startswith('std::iter::') and c.args and c.arg_local(0) in t:
                        for a in c.args[1:]:
                            cl = mir._closure_fn_of(prog, g, a)
                            if cl is not None:
                                t2 = mir.forward_taint(cl, set(range(2, cl.argc + 1)))
                                if any((OUTPUT_CALL.search(x.decl) or OUTPUT_CALL.search(x.callee)) and any(al in t2 for al in x.arg_locals()) for x in cl.calls):
                                    flows = True
                    # ... or is handed to a crate-local helper whose parameter reaches an output call
                    h = prog.resolve(c.callee, g.crate)
                    if h is not None and h.name in group:
                        for ai, a in enumerate(c.arg_locals()):
                            if a in t and param_reaches_output(prog, h, ai + 1):
                                flows = True
        missing = [x for x in RT_FIELDS if x not in read]
        k = '%s|reads-all-fields' % f.name
        if missing:
            rep.violation('R4b', k, where='%s:%d' % (f.file, f.line), fn=f.name,
                          detail='%s ignores RenderTable.%s: %s' % (kind, ', '.join(missing),
                                                                    'a bookkeeping error message never reaches the user in this output mode'
                                                                    if 'errors' in missing else 'part of the table is not exported'))
        else:
            rep.ok('R4b', k, where='%s:%d' % (f.file, f.line), fn=f.name, detail='%s reads header, rows, footer, notes and errors' % kind)
        # every field is exported on EVERY non-error path: no early Ok-return that skips a field
        first_read = {}
        for i in sorted(f.blocks):
            b = f.blocks[i]
            pls = []
            for s2 in b['stmts']:
                pls += f.stmt_sources(s2)
            t2 = b['term']
            if t2 and t2['t'] == 'call':
                pls += [a['pl'] for a in t2['args'] if is_place(a)]
            for pl in pls:
                for (of, fl) in mir.place_fields(pl):
                    if of.endswith('render::RenderTable'):
                        first_read.setdefault(fl, set()).add(i)
        err_blocks = {c.bb for c in f.calls if c.short == 'from_residual'}
        err_blocks |= {i for i, b in f.blocks.items() for s2 in b['stmts']
                       if s2['dst']['l'] == 0 and s2['r']['rv'] == 'agg' and s2['r']['kind'].endswith('Result::Err')}
        for fl in ['errors']:   # only the errors clause belongs to C04; skipping an empty table's header is not a C04 matter
            if fl not in first_read:
                continue
            reach = {0} | f.reachable_from(0, avoid=first_read[fl] | err_blocks)
            if 0 in first_read[fl]:
                reach = set()
            skipping = [e for e in f.exits if e in reach]
            k3 = '%s|%s-on-every-path' % (f.name, fl)
            if skipping:
                rep.violation('R4b', k3, where='%s:%d' % (f.file, f.line), fn=f.name,
                              detail='%s can return successfully without exporting RenderTable.%s (an early return skips it)%s' % (
                                  kind, fl, ': a rejection message would be lost in this output mode' if fl == 'errors' else ''))
            else:
                rep.ok('R4b', k3, fn=f.name, detail='every non-error path to return reads RenderTable.%s' % fl, trivial=(fl != 'errors'))
        if 'errors' in read:
            k2 = '%s|errors-reach-output' % f.name
            if flows:
                rep.ok('R4b', k2, where=read['errors'], fn=f.name, detail='the errors field flows into an output call')
            else:
                rep.violation('R4b', k2, where=read['errors'], fn=f.name, detail='RenderTable.errors is read but never written to the output')

    # R4b': the app attaches the bookkeeping error to the table of that security
    pushes = []
    for fn in prog.product_fns():
        if not fn.name.startswith('app::approot::'):
            continue
        for c in fn.calls:
            if c.short == 'push' and c.matches(r'vec::Vec') and len(c.args) == 2:
                recv = mir.provenance(fn, c.args[0])
                if any(of.endswith('render::RenderTable') and f == 'errors' for of, f in recv.fields):
                    val = mir.provenance(fn, c.args[1], follow_all_call_args=True)
                    pushes.append((fn, c, any(f == 'err_msg' for of, f in val.fields)))
    good = [p for p in pushes if p[2]]
    if good:
        fn, c, _ = good[0]
        rep.ok('R4b\'', 'err_msg-pushed-to-table-errors', where=c.where(), fn=fn.name,
               detail='TxDeltaListError.err_msg is pushed into RenderTable.errors of the security\'s table')
    else:
        rep.violation('R4b\'', 'err_msg-pushed-to-table-errors', fn='app::approot',
                      detail='no site in app::approot pushes the bookkeeping error text (err_msg) into RenderTable.errors')
    # every TxDeltaListError built in txs_to_delta_list carries the error returned by delta_for_tx
    f = prog.fn('portfolio::bookkeeping::delta_list::txs_to_delta_list')
    if rep.anchor('txs_to_delta_list', f):
        n = 0
        for c in f.calls:
            if c.callee.endswith('TxDeltaListError::new') and len(c.args) == 2:
                n += 1
                org = mir.provenance(f, c.args[1], follow_all_call_args=True)
                from props import anchors
                ls = anchors.ledger_step(prog)
                if org.has_call(re.escape(ls.name if ls else 'delta_for_tx') + '$'):
                    rep.ok('R4b\'', 'error-text-from-delta_for_tx#%d' % n, where=c.where(), fn=f.name, detail='err_msg derives from delta_for_tx\'s Err')
                else:
                    rep.violation('R4b\'', 'error-text-from-delta_for_tx#%d' % n, where=c.where(), fn=f.name,
                                  detail='a rejection is recorded with a message that does not come from delta_for_tx')
        if n == 0:
            rep.violation('R4b\'', 'anchor-lost:error-construction', fn=f.name, detail='anchor lost: txs_to_delta_list builds no TxDeltaListError')


# ------------------------------------------------------------------------------------------------ R4c
SINKS = [r'cumulative_gains::calc_security_cumulative_capital_gains$', r'cumulative_gains::calc_cumulative_capital_gains$',
         r'summary::make_aggregate_summary_txs$']


def r4c(prog, rep):
    for s in SINKS:
        rep.anchor('gains/summary calculator ' + s, prog.find(s))
    n_sink_calls = 0
    for fn in prog.product_fns():
        seeds = set()
        for i, b in fn.blocks.items():
            for s in b['stmts']:
                for pl in fn.stmt_sources(s):
                    if any(f == 'partial_deltas' and of.endswith('TxDeltaListError') for of, f in mir.place_fields(pl)):
                        if not fn.name.endswith('TxDeltaListError::new'):
                            seeds.add(s['dst']['l'])
        for c in fn.calls:
            if c.callee.endswith('DeltaListResult::deltas_or_partial_deltas'):
                seeds.add(c.dst['l'])
        sink_calls = [c for c in fn.calls if any(re.search(s, c.callee) for s in SINKS)]
        n_sink_calls += len(sink_calls)
        if not sink_calls:
            continue
        t = mir.forward_taint(fn, seeds) if seeds else set()
        for n, c in enumerate(sink_calls):
            k = '%s|%s#%d' % (fn.name, short(c.callee), n)
            if any(a in t for a in c.arg_locals()):
                rep.violation('R4c', k, where=c.where(), fn=fn.name,
                              detail='partial deltas of a rejected security can flow into %s: the security would be counted in a capital-gain total' % c.callee)
                continue
            if re.search(SINKS[0], c.callee):
                org = mir.provenance(fn, c.args[0], follow_all_call_args=False)
                if 'Ok' in org.downcasts or org.has_call(r'unwrap_full_deltas$') or org.params:
                    rep.ok('R4c', k, where=c.where(), fn=fn.name, detail='argument comes from the Ok variant of the security\'s DeltaListResult')
                else:
                    rep.violation('R4c', k, where=c.where(), fn=fn.name, detail='argument is not taken from the Ok variant of a DeltaListResult')
            else:
                rep.ok('R4c', k, where=c.where(), fn=fn.name, detail='no partial-delta taint reaches this call')
    if n_sink_calls < 3:
        rep.violation('R4c', 'anchor-lost:sink-calls', detail='anchor lost: only %d calls of the gains/summary calculators found' % n_sink_calls)


# ------------------------------------------------------------------------------------------------ R4a''
def r4a2(prog, rep):
    """the balance / ACB cells of the transaction table are formatted from ConstrainedDecimal fields of the post status"""
    adts = prog.adts('acb')
    pss = adts.get('portfolio::model::txdelta::PortfolioSecurityStatus')
    if not rep.anchor('struct PortfolioSecurityStatus', pss):
        return
    for fl in pss['variants'][0]['fields']:
        if fl['name'] in ('share_balance', 'all_affiliate_share_balance', 'total_acb'):
            if 'ConstrainedDecimal<util::decimal::constraint::GreaterEqualZero>' in fl['ty']:
                rep.ok('R4a\'\'', 'field-type|%s' % fl['name'], fn=pss['name'], detail='%s : %s' % (fl['name'], fl['ty']))
            else:
                rep.violation('R4a\'\'', 'field-type|%s' % fl['name'], fn=pss['name'],
                              detail='%s is %s, no longer a GreaterEqualZero ConstrainedDecimal: a negative balance/ACB could be stored and shown' % (fl['name'], fl['ty']))
    names = {fl['name'] for fl in pss['variants'][0]['fields']}
    for need in ('share_balance', 'all_affiliate_share_balance', 'total_acb'):
        if need not in names:
            rep.violation('R4a\'\'', 'anchor-lost:field|' + need, fn=pss['name'], detail='anchor lost: PortfolioSecurityStatus.%s' % need)


def extra_thorough(repo):
    """E3: compile-fail witnesses (with compiling twins) confirm the encapsulation from outside the crate"""
    import witnesses
    r = witnesses.run(repo)
    weakened = [f for f in r['failures'] if 'COMPILES' in f]
    broken = [f for f in r['failures'] if 'COMPILES' not in f]
    return {'witnesses': r['witnesses'], 'encapsulation_weakened': weakened, 'failures': broken}


# ------------------------------------------------------------------------------------------------ R4d
def r4d(prog, rep):
    """"registered affiliates never show a cost base or a capital gain": in the ledger step a cost base / gain is only ever
    produced on the Some edge of the previous cost base (a registered affiliate's status carries None)."""
    from props import ledger
    L = ledger.Ledger(prog)
    if not rep.anchor('delta_for_tx (ledger step)', L.ok and L.fn):
        return
    f = L.fn
    n = 0
    for what, locs in (('cost base', L.acb_locals), ('capital gain', L.gain_locals)):
        for (bb, node, kind) in L.assignments(locs):
            if kind != 'stmt':
                continue
            r = node['r']
            o = mir.provenance(f, r['ops'][0], pass_through=set()) if r.get('ops') and is_place(r['ops'][0]) else None
            is_some = (r['rv'] == 'agg' and r['kind'].endswith('Option::Some')) or (o is not None and any(a.endswith('Option::Some') for a in o.aggs))
            if not is_some:
                continue
            n += 1
            guarded = False
            for (sbb, discr, vals, neg) in f.conditions_at(bb):
                d = mir.provenance(f, discr, follow_all_call_args=True)
                on_some = (vals == [1]) or (vals is None and 1 not in (neg or []) and 0 in (neg or []))
                if (any(fl == 'total_acb' for of, fl in d.fields) or d.has_call(r'per_share_acb$')) and on_some:
                    guarded = True
            if not guarded and r.get('ops') and is_place(r['ops'][0]):
                # the previous cost base is fetched by a helper (`let old = acb_to_adjust(..)?`) that answers Ok only on the Some
                # edge of the status' cost base
                src = mir.provenance(f, r['ops'][0], follow_all_call_args=True)
                escapes = [x for x in src.calls if x.short in ('unwrap_or', 'unwrap_or_else', 'unwrap_or_default', 'ok', 'map_or', 'map_or_else', 'or', 'or_else',
                                                              'is_ok', 'is_err', 'unwrap_err', 'err')]
                for x in ([] if escapes else src.calls):
                    h = prog.resolve(x.callee, f.crate)
                    if h is None or h.kind not in ('Fn', 'AssocFn') or not re.search(r'^std::result::Result<', h.ty.get(0) or ''):
                        continue
                    # every place where the helper's result is set to something other than a plain Err(..)
                    oks = [(d[0], d[3]) for d in h.defs.get(0, []) if not d[3]['dst']['p'] and
                           not (d[2] == 'stmt' and d[3]['r']['rv'] == 'agg' and d[3]['r']['kind'].endswith('Result::Err'))]
                    def some_edge(i):
                        for (sbb, discr, vals, neg) in h.conditions_at(i):
                            d = mir.provenance(h, discr, follow_all_call_args=True)
                            on_some = (vals == [1]) or (vals is None and 1 not in (neg or []) and 0 in (neg or []))
                            if any(fl == 'total_acb' for of, fl in d.fields) and on_some:
                                return True
                        return False
                    # ... and the helper's Err leaves the ledger step through `?` before the assignment
                    q = [b2 for b2 in src.calls if b2.short == 'branch' and b2.args and x in mir.provenance(f, b2.args[0], pass_through=set()).calls
                         and f.dominates(b2.bb, bb)]
                    if oks and all(some_edge(i) for i, _ in oks) and q:
                        guarded = True
            arm = [a for a, rg in L.region.items() if bb in rg]
            k = 'no-%s-without-previous-cost-base|%s#%d' % (what.replace(' ', '-'), arm[0] if arm else '?', n)
            if guarded:
                rep.ok('R4d', k, where=f.where(node), fn=f.name, detail='a %s is produced only when the previous status has a cost base (non-registered affiliate)' % what)
            else:
                rep.violation('R4d', k, where=f.where(node), fn=f.name,
                              detail='a %s can be produced for an affiliate whose previous status has no cost base (registered affiliates must never show one)' % what)
    if n < 4:
        rep.violation('R4d', 'anchor-lost:some-assignments', fn=f.name, detail='anchor lost: only %d Some(..) assignments of cost base / gain found' % n)


# ------------------------------------------------------------------------------------------------ R4e
DIV = re.compile(r'std::ops::Div(Assign)?::div(_assign)?$|::checked_div$')
MUL = re.compile(r'std::ops::Mul(Assign)?::mul(_assign)?$|::checked_mul$|::mul_pos$')


def returns_quotient(prog, g, depth=0, _memo={}):
    """does crate function g return a value computed by a division (directly or through crate callees)?"""
    if g.name in _memo:
        return _memo[g.name]
    _memo[g.name] = False
    res = False
    if depth < 4:
        o = mir.provenance(g, {'k': 'copy', 'pl': {'l': 0, 'p': []}}, follow_all_call_args=True)
        for c in o.calls:
            if DIV.search(c.decl) or DIV.search(c.callee):
                res = True
                break
            h = prog.resolve(c.callee, g.crate)
            if h is not None and h is not g and returns_quotient(prog, h, depth + 1):
                res = True
                break
    _memo[g.name] = res
    return res


def r4e(prog, rep):
    """"rejected exactly when ... a whole-number reverse split would leave a fractional share": the balance whose integrality
    decides the rejection must be exact whenever the true result is a whole number.  A product one of whose factors is itself a
    rounded quotient (shares * (post / pre)) is not: 3 * (1/3) = 0.999..., so a legal split is rejected.  The quotient has to be
    taken last ((shares * post) / pre)."""
    from props import ledger
    L = ledger.Ledger(prog)
    if not rep.anchor('delta_for_tx (ledger step)', L.ok and L.fn):
        return
    f = L.fn
    sites = [c for c in f.calls if c.short == 'is_integer' and c.bb in L.region['Split']]
    if not sites:
        rep.violation('R4e', 'anchor-lost:integrality-test', fn=f.name,
                      detail='anchor lost: no is_integer() test in the Split arm of the ledger step')
        return
    for n, c in enumerate(sites, 1):
        org = mir.provenance(f, c.args[0], follow_all_call_args=True)
        bad = None
        for m in org.calls:
            if not (MUL.search(m.decl) or MUL.search(m.callee)):
                continue
            for a in m.args:
                if not is_place(a):
                    continue
                oa = mir.provenance(f, a, follow_all_call_args=True)
                for x in oa.calls:
                    h = prog.resolve(x.callee, f.crate)
                    if DIV.search(x.decl) or DIV.search(x.callee) or (h is not None and returns_quotient(prog, h)):
                        bad = (m, x)
        k = 'split-balance-exact-when-whole|integrality-test#%d' % n
        if bad:
            m, x = bad
            rep.violation('R4e', k, where=m.where(), fn=f.name,
                          detail='the share balance tested by is_integer() is a product (%s) with a factor that is already a rounded quotient '
                                 '(%s): e.g. 3 shares through a 1-for-3 split give 0.999..., and a legal whole-number reverse split is rejected'
                                 % (m.where(), short(x.callee)))
        else:
            rep.ok('R4e', k, where=c.where(), fn=f.name,
                   detail='no factor of the tested balance is a quotient (the division, if any, is applied last)')


# ------------------------------------------------------------------------------------------------ R4f
def r4f(prog, rep):
    """In the bookkeeping modules no product or quotient has the pre-computed, rounded factor of a split ratio (the return value of a
    SplitRatio method that divides, i.e. pre_to_post_factor) as a factor or divisor.  Share counts that decide a
    rejection ("went below zero", "more than the current holdings") are compared exactly; x / (1/3) is 3.000...0003 * x, so a
    legal sale of everything that is left after a reverse split is rejected.  The ratio's two terms have to be applied one after
    the other, multiplication first."""
    n = 0
    bad = []
    for f in prog.product_fns():
        if not f.name.startswith('portfolio::bookkeeping::') or mir.is_testsupport(f.name):
            continue
        for c in f.calls:
            if not (MUL.search(c.decl) or MUL.search(c.callee) or DIV.search(c.decl) or DIV.search(c.callee)):
                continue
            if not any('Decimal' in f.ty.get(a, '') for a in c.arg_locals()):
                continue
            n += 1
            for a in c.args:
                if not is_place(a):
                    continue
                oa = mir.provenance(f, a, follow_all_call_args=True)
                for x in oa.calls:
                    h = prog.resolve(x.callee, f.crate)
                    # the pre-divided factor of a split ratio (share counts are scaled by it; money amounts such as cost per share
                    # or the loss ratio are rounded quantities anyway and are not judged)
                    if h is not None and h.kind in ('Fn', 'AssocFn') and 'SplitRatio' in h.name and returns_quotient(prog, h):
                        bad.append((f, c, x))
    seen = set()
    for (f, c, x) in bad:
        k = '%s|no-rounded-ratio-as-factor|%s' % (f.name, short(x.callee))
        if k in seen:
            continue
        seen.add(k)
        rep.violation('R4f', k, where=c.where(), fn=f.name,
                      detail='%s at %s multiplies or divides by %s(), a quotient that is already rounded to 28 digits: share counts derived from it '
                             'are off in the last digit (x / (1/3) = 3.000...0003 x), and the exact comparisons that decide a rejection then '
                             'refuse a legal history' % (short(c.callee), c.where(), short(x.callee)))
    if not bad:
        if n >= 10:
            rep.ok('R4f', 'no-rounded-ratio-as-factor', fn='portfolio::bookkeeping',
                   detail='%d Decimal multiplications / divisions in the bookkeeping modules; none uses a pre-divided ratio as an operand' % n)
        else:
            rep.violation('R4f', 'anchor-lost:bookkeeping-arithmetic', detail='anchor lost: only %d Decimal products / quotients found in portfolio::bookkeeping' % n)


# ------------------------------------------------------------------------------------------------ R4g
def r4g(prog, rep):
    """every file an output mode writes starts empty: opened with File::create, or with OpenOptions carrying truncate(true) /
    create_new(true) (append(true) for logs).  Otherwise a report that became shorter - a rejected security shows only the
    prefix before the offending transaction - keeps the tail of the previous run's file: rows after the offending transaction,
    old totals, the rejection line buried in the middle."""
    n = 0
    for f in prog.product_fns():
        if mir.is_testsupport(f.name):
            continue
        for c in f.calls:
            if re.search(r'^std::fs::File::create(_new)?$', c.callee):
                n += 1
                continue
            if not re.search(r'^std::fs::OpenOptions::open$', c.callee):
                continue
            o = mir.provenance(f, c.args[0], follow_all_call_args=True)
            root = mir.nearest_user_local(f, c.args[0])
            builder_calls = list(o.calls)
            if root is not None:
                # a builder held in a variable and configured statement by statement (`opts.write(true); opts.open(p)`)
                builder_calls += [x for x in f.calls if x.args and 'OpenOptions' in x.callee and mir.nearest_user_local(f, x.args[0]) == root]

            def flag(name, calls=builder_calls):
                return any(x.short == name and len(x.args) > 1 and str(x.args[1].get('v')) == 'true' for x in calls)
            writes = flag('write') or flag('create') or flag('append') or flag('truncate') or flag('create_new')
            if not writes:
                continue
            n += 1
            k = '%s|output-file-starts-empty' % f.name
            if flag('truncate') or flag('create_new') or flag('append'):
                rep.ok('R4g', k, where=c.where(), fn=f.name, detail='OpenOptions with truncate / create_new / append', trivial=True)
            else:
                rep.violation('R4g', k, where=c.where(), fn=f.name,
                              detail='a file is opened for writing without truncation: when the new content is shorter than what is already there '
                                     '(a security that is now rejected shows only a prefix of its rows), the tail of the old report stays in the file')
    if n >= 2:
        rep.ok('R4g', 'output-files-start-empty', fn='(all product crates)', detail='%d write-opens examined (File::create / OpenOptions)' % n, trivial=True)
    else:
        rep.violation('R4g', 'anchor-lost:write-opens', detail='anchor lost: only %d sites opening a file for writing found' % n)


# ------------------------------------------------------------------------------------------------ R4h
def r4h(prog, rep, config):
    """a rejected security does not turn the run into a failure. The rejection travels inside the result (RenderTable.errors); the web UI
    and the csv mode show it from there. Where the application looks at that field outside the exporters, no error return may depend on what
    it finds: the caller of an Err drops the whole render model, and with it the message and the rows of every security"""
    exporters = set()
    for f in prog.trait_impl_methods('app::outfmt::model::AcbWriter', 'print_render_table'):
        exporters |= set(prog.callees_closure([f]))
    n = 0
    for f in prog.product_fns():
        if f.crate not in ('acb', 'acb_wasm') or f.name in exporters or f.name.endswith('::serialize'):
            continue
        seeds = set()
        for i, b in f.blocks.items():
            for s in b['stmts']:
                for pl in f.stmt_sources(s):
                    if any(of.endswith('render::RenderTable') and fl == 'errors' for (of, fl) in mir.place_fields(pl)):
                        seeds.add(s['dst']['l'])
        for c in f.calls:
            for a in c.args:
                if is_place(a) and any(of.endswith('render::RenderTable') and fl == 'errors' for (of, fl) in mir.place_fields(a['pl'])):
                    seeds.add(c.dst['l'])
        if not seeds:
            continue
        err_blocks = {c.bb: c for c in f.calls if c.short == 'from_residual'}
        for i, b in f.blocks.items():
            for s2 in b['stmts']:
                if s2['r']['rv'] == 'agg' and s2['r']['kind'].endswith('Result::Err') and 'Result<' in (f.ty.get(s2['dst']['l'], '') or ''):
                    err_blocks.setdefault(i, s2)
        if not err_blocks and 'Result<' not in (f.ty.get(0, '') or ''):
            continue
        n += 1
        (t, decided) = mir.forward_taint_implicit(f, seeds)
        bad = sorted(i for i in err_blocks if i in decided)
        k = '%s|no-failure-for-a-rejected-security' % f.name
        if bad:
            node = err_blocks[bad[0]]
            rep.violation('R4h', k, where=node.where() if hasattr(node, 'where') else f.where(node), fn=f.name,
                          detail='an Err is returned depending on RenderTable.errors (branch: %s): the caller then gives up the whole render model, '
                                 'so in the web UI the rejection message and every security\'s rows are lost'
                                 % f.where(f.blocks[decided[bad[0]]]['term']))
        else:
            rep.ok('R4h', k, fn=f.name, where='%s:%d' % (f.file, f.line),
                   detail='%d error exit(s), none decided by a test of RenderTable.errors (%d dependent block(s))' % (len(err_blocks), len(decided)))
    if config == 'default' and n < 1:
        rep.violation('R4h', 'anchor-lost:errors-readers', detail='anchor lost: the application function that reads RenderTable.errors after rendering')
