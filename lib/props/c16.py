"""C16 — --symbol-base equals an opening purchase: structural clauses.  DESIGN.md 5.C16
(R16a malformed specifications are rejected before any processing, R16b opening positions are only looked up by key)."""
import re

import mir
from mir import short, is_place, op_local

LEVEL = 'other'
EXPLANATION = ('Decides two necessary structural clauses of C16 (the equivalence with a prepended purchase is a relation between two runs and '
               'is not decided): (R16a) in every front end the call that starts processing is dominated by, and data-dependent on, the '
               'successful result of parse_initial_status, and nothing that reads input precedes the parse; (R16b) the opening-position map '
               'is never iterated or aggregated — it is only queried with HashMap::get under the key of the security being processed, whose '
               'rows are the ones handed to the bookkeeping together with the looked-up status.')
TRUSTED_BASE = ['rustc nightly MIR construction and trait resolution']
ASSUMPTIONS = []

MAPTY = re.compile(r'std::collections::HashMap<std::string::String, (acb::)?portfolio::(model::txdelta::|bookkeeping::\w+::)?PortfolioSecurityStatus')
PARSE = 'app::input_parse::parse_initial_status'


def reaches_any(prog, targets):
    """set of fn names from which one of the target fns is reachable through resolved calls"""
    rev = {}
    for f in prog.fns.values():
        for c in f.calls:
            for nm in set(c.names()):
                g = prog.resolve(nm, f.crate)
                if g is not None:
                    rev.setdefault(g.name, set()).add(prog.owner_of(f).name)
                    rev.setdefault(g.name, set()).add(f.name)
        if f.kind in ('Closure', 'SyntheticCoroutineBody'):
            rev.setdefault(f.name, set()).add(prog.owner_of(f).name)
    out = set(targets)
    work = list(targets)
    while work:
        x = work.pop()
        for y in rev.get(x, ()):
            if y not in out:
                out.add(y)
                work.append(y)
    return out


def run(prog, rep, tier='quick', config='default'):
    parse = prog.fn(PARSE)
    if not rep.anchor('parse_initial_status', parse):
        return
    io_targets = [n for n in ('portfolio::io::tx_csv::parse_tx_csv', 'util::rw::DescribedReader::reader',
                              'portfolio::bookkeeping::delta_list::txs_to_delta_list') if prog.fn(n)]
    rep.anchor('input-reading / bookkeeping entry points', io_targets)
    processing = reaches_any(prog, io_targets)
    # ------------------------------------------------------------------ R16a
    sites = [c for c in prog.callers.get(parse.name, []) if not mir.is_testsupport(c.fn.name)]
    if config == 'default':
        rep.anchor('front-end calls of parse_initial_status', sites)
        if len(sites) < 2:
            rep.violation('R16a', 'anchor-lost:front-ends', detail='anchor lost: expected the CLI and the wasm front end to call parse_initial_status (found %d)' % len(sites))
    for c in sites:
        fn = c.fn
        procs = []
        for x in fn.calls:
            g = prog.resolve(x.callee, fn.crate) or prog.resolve(x.decl, fn.crate)
            if g is not None and g.name in processing and g.name != parse.name:
                procs.append((x, g))
        k = '%s|parse-before-processing' % fn.name
        if not procs:
            rep.violation('R16a', k, where=c.where(), fn=fn.name, detail='anchor lost: the front end does not start processing in the function that parses --symbol-base')
            continue
        bad = [(x, g) for (x, g) in procs if not (fn.dominates(c.bb, x.bb) and x.bb != c.bb)]
        if bad:
            x, g = bad[0]
            rep.violation('R16a', k, where=x.where(), fn=fn.name,
                          detail='%s (which reads input / runs the bookkeeping) can run before parse_initial_status has accepted the opening positions: '
                                 'a malformed specification would be rejected only after processing has started' % g.name)
            continue
        # the processing call consumes the parsed map -> it can only run on the Ok outcome
        dep = False
        for (x, g) in procs:
            for a in x.args:
                if is_place(a):
                    org = mir.provenance(fn, a, follow_all_call_args=False)
                    if c in org.calls and (org.downcasts & {'Ok', 'Continue'}):
                        dep = True
        # ... and must not be reachable from the Err outcome of the parse
        err_reach = set()
        for i, b in fn.blocks.items():
            t = b['term']
            if not t or t['t'] != 'switch' or not fn.dominates(c.bb, i):
                continue
            d = mir.provenance(fn, t['discr'])
            if c not in d.calls:
                continue
            for v, tg in t['targets']:
                if v == 1:     # Result::Err / ControlFlow::Break
                    err_reach |= {tg} | fn.reachable_from(tg)
        via_err = [x for (x, g) in procs if x.bb in err_reach]
        if via_err:
            dep = False
            rep.violation('R16a', k + '|err-arm-continues', where=via_err[0].where(), fn=fn.name,
                          detail='processing is reachable from the Err outcome of parse_initial_status: a malformed --symbol-base specification is not rejected '
                                 'before processing')
        elif dep:
            rep.ok('R16a', k, where=c.where(), fn=fn.name,
                   detail='%d processing call(s), all dominated by parse_initial_status; processing receives the Ok payload of the parse' % len(procs))
        else:
            rep.violation('R16a', k, where=c.where(), fn=fn.name,
                          detail='processing does not depend on the successful result of parse_initial_status (its Err outcome may be ignored)')

    # ------------------------------------------------------------------ R16c: the key is the symbol as given (trimmed), like CSV securities
    ins = [x for x in parse.calls if x.short == 'insert' and MAPTY.search(parse.ty.get(x.arg_local(0), '') or '')]
    if not ins:
        rep.violation('R16c', 'anchor-lost:map-insert', fn=parse.name, detail='anchor lost: insertion into the opening-position map')
    for x in ins:
        ko = mir.provenance(parse, x.args[1], follow_all_call_args=True)
        bad = [y for y in ko.calls if re.search(r'to_(ascii_)?(upper|lower)case|replace|to_uppercase|to_lowercase|make_ascii|trim_(start|end)_matches|strip_', y.callee)]
        if bad:
            rep.violation('R16c', 'symbol-key-unmodified', where=bad[0].where(), fn=parse.name,
                          detail='the opening position is filed under a transformed symbol (%s): securities in the CSV are matched verbatim, so the position '
                                 'would miss its security or land on another one' % short(bad[0].callee))
        else:
            rep.ok('R16c', 'symbol-key-unmodified', where=x.where(), fn=parse.name, detail='the map key is the given symbol (trimmed only)')

    r16de(prog, rep, parse)
    r16f(prog, rep)

    # ------------------------------------------------------------------ R16b
    ALLOWED = {'get', 'remove', 'contains_key', 'new', 'with_capacity', 'drop', 'clone', 'default', 'insert'}   # remove(&key): a keyed look-up that takes the value
    n_uses = 0
    for fn in prog.product_fns():
        for c in fn.calls:
            for ai, a in enumerate(c.args):
                l = op_local(a)
                if l is None or not MAPTY.search(fn.ty.get(l, '')):
                    continue
                if is_place(a) and a['pl']['p'] and any(isinstance(e, dict) and 'f' in e for e in a['pl']['p']):
                    continue
                n_uses += 1
                g = prog.resolve(c.callee, fn.crate) or prog.resolve(c.decl, fn.crate)
                if g is not None:
                    continue    # handed on to a crate function: checked there
                if '$crate::event' in c.exp:
                    continue
                if re.search(r'HashMap::<K, V(, S(, A)?)?>::', c.callee) or 'std::collections::HashMap' in c.callee:
                    if c.short in ALLOWED:
                        if c.short == 'insert' and not fn.name.startswith('app::input_parse::'):
                            rep.violation('R16b', '%s|insert' % fn.name, where=c.where(), fn=fn.name, detail='the opening-position map is modified outside parse_initial_status')
                        continue
                    rep.violation('R16b', '%s|%s' % (fn.name, c.short), where=c.where(), fn=fn.name,
                                  detail='the opening-position map is used with HashMap::%s: positions of other securities could influence a security\'s result '
                                         '(only keyed look-ups are allowed)' % c.short)
                elif c.short in ('into_iter', 'iter', 'iter_mut', 'values', 'keys', 'len', 'extend', 'drain', 'retain'):
                    rep.violation('R16b', '%s|%s' % (fn.name, c.short), where=c.where(), fn=fn.name,
                                  detail='the opening-position map is iterated/aggregated (%s)' % c.callee)
                elif c.short in ('deref', 'borrow', 'as_ref', 'into_future', 'new_unchecked', 'poll', 'get_context', 'drop', 'clone', 'block_on',
                                 'branch', 'map_err', 'unwrap', 'expect', 'from_output', 'to_value', 'from_residual'):
                    continue
                else:
                    rep.violation('R16b', '%s|%s' % (fn.name, c.short), where=c.where(), fn=fn.name,
                                  detail='the opening-position map is passed to unmodelled callee %s' % c.callee)
    # the look-up key is the security being processed, and its result goes to that security's bookkeeping call
    gets = []
    for fn in prog.product_fns():
        for c in fn.calls:
            if c.short in ('get', 'remove') and MAPTY.search(fn.ty.get(c.arg_local(0), '') or '') and len(c.args) > 1:
                gets.append((fn, c))
    if not rep.anchor('HashMap::get on the opening-position map', [g[1] for g in gets]):
        return
    for fn, c in gets:
        k = '%s|keyed-by-current-security' % fn.name
        entry = [x for x in fn.calls if x.callee.endswith('delta_list::txs_to_delta_list')]
        if not entry:
            rep.violation('R16b', k, where=c.where(), fn=fn.name, detail='the opening position is not looked up in the function that calls txs_to_delta_list for the security')
            continue
        e = entry[0]
        # key and rows must come from the same map entry — possibly through the parameters of a helper into its caller's loop
        ko = mir.deep_origins(prog, fn, c.args[1], depth=3, follow_all=False)
        to = mir.deep_origins(prog, fn, e.args[0], depth=3, follow_all=False)
        so = mir.provenance(fn, e.args[1], follow_all_call_args=True)
        k_next = {x for x in ko.calls if x.short == 'next' and x.decl.endswith('Iterator::next')}
        t_next = {x for x in to.calls if x.short == 'next' and x.decl.endswith('Iterator::next')}
        same_elem = bool({(x.fn.name, x.bb) for x in k_next} & {(x.fn.name, x.bb) for x in t_next})
        feeds = c in so.calls
        if same_elem and feeds and not ko.binops:
            rep.ok('R16b', k, where=c.where(), fn=fn.name,
                   detail='get(&sec) uses the map entry whose rows are passed to txs_to_delta_list together with the looked-up status')
        else:
            rep.violation('R16b', k, where=c.where(), fn=fn.name,
                          detail='the opening position handed to the bookkeeping of a security is not looked up under that security\'s own key '
                                 '(key and rows from the same map entry: %s, status from this look-up: %s)' % (same_elem, feeds))
    rep.extra['opening_map_use_sites'] = n_uses


def r16f(prog, rep):
    """the opening position is installed whatever it is: in the constructor of the per-affiliate status store (the function taking an
    Option<Rc<PortfolioSecurityStatus>> and building the store), every path that starts on the Some edge of that parameter passes a
    call that stores the payload before it returns — a position with zero shares and a cost base (what is left after a superficial
    sale of everything) is a position too"""
    OPT = re.compile(r'^std::option::Option<std::rc::Rc<(acb::)?portfolio::(model::txdelta::|bookkeeping::\w+::)?PortfolioSecurityStatus')
    n = 0
    for f in prog.product_fns():
        if mir.is_testsupport(f.name) or f.kind not in ('Fn', 'AssocFn') or not f.name.startswith('portfolio::bookkeeping::'):
            continue
        ps = [p for p in range(1, f.argc + 1) if OPT.search(f.ty.get(p, '') or '')]
        if not ps or 'AffiliatePortfolioSecurityStatuses' not in (f.ty.get(0, '') or ''):
            continue
        p = ps[0]
        view = mir.inline_view(prog, f)
        for fx in (f, view):
            some_edges = []
            for i, b in fx.blocks.items():
                t = b['term']
                if t and t['t'] == 'switch' and is_place(t['discr']):
                    dd = fx.single_def(t['discr']['pl']['l'])
                    if dd and dd[2] == 'stmt' and dd[3]['r']['rv'] == 'discr' and p in (set(mir.provenance(fx, {'k': 'copy', 'pl': dd[3]['r']['pl']}).locals) | {dd[3]['r']['pl']['l']}):
                        tg = [x for v, x in t['targets'] if v == 1] or ([t['otherwise']] if not any(v == 1 for v, _ in t['targets']) else [])
                        some_edges += tg
            if not some_edges:
                continue
            stores = set()
            for c in fx.calls:
                if c.short in ('insert', 'set_latest_post_status') or (prog.resolve(c.callee, fx.crate) is not None and c.short.startswith('set_')):
                    for a in c.args[1:]:
                        if is_place(a) and p in mir.provenance(fx, a, follow_all_call_args=True).locals | mir.provenance(fx, a, follow_all_call_args=True).params:
                            stores.add(c.bb)
            n += 1
            k = '%s|opening-position-installed-whatever-it-is' % f.name
            if not stores:
                rep.violation('R16f', 'anchor-lost:status-store-call', fn=f.name, detail='anchor lost: the call that stores the opening position in the status store')
                break
            bad = [e for e in some_edges if e not in stores and any(x in fx.reachable_from(e, avoid=stores) | {e} for x in fx.exits)]
            # a panic (assert) on the way is not a silent drop
            if bad:
                rep.violation('R16f', k, where='%s:%d' % (f.file, f.line), fn=f.name,
                              detail='an opening position that was given can be left out of the status store (a path from "Some(position)" returns '
                                     'without storing it): the run then differs from one with the equivalent opening purchase')
            else:
                rep.ok('R16f', k, fn=f.name, where='%s:%d' % (f.file, f.line), detail='every path on the Some edge stores the position before returning')
            break
    if n == 0:
        rep.violation('R16f', 'anchor-lost:status-store-constructor', detail='anchor lost: the constructor of the per-affiliate status store taking the opening position')


def r16de(prog, rep, parse):
    # ------------------------------------------------------------------ R16d: the looked-up position reaches the ledger seed as it is
    OPT_PSS = re.compile(r'std::option::Option<(std::rc::Rc<|&)?(acb::)?portfolio::(model::txdelta::|bookkeeping::\w+::)?PortfolioSecurityStatus')
    DROP = {'filter', 'and_then', 'take_if', 'xor', 'or', 'or_else', 'zip', 'take', 'replace', 'unwrap_or', 'unwrap_or_else', 'unwrap_or_default',
            'is_some_and', 'map_or', 'map_or_else', 'then', 'then_some', 'insert', 'get_or_insert', 'get_or_insert_with'}
    n = 0
    for fn in prog.product_fns():
        if mir.is_testsupport(fn.name):
            continue
        for c in fn.calls:
            g = prog.resolve(c.callee, fn.crate) or prog.resolve(c.decl, fn.crate)
            if g is None or not (g.name.endswith('delta_list::txs_to_delta_list') or
                                 (g.name.startswith('portfolio::bookkeeping::portfolio_status::') and g.name.endswith('::new'))):
                continue
            for ai, a in enumerate(c.args):
                if not is_place(a) or not OPT_PSS.search(fn.ty.get(op_local(a), '')):
                    continue
                n += 1
                o = mir.provenance(fn, a, follow_all_call_args=True)
                bad = [x for x in o.calls if x.short in DROP and x.decl.startswith('std::')]
                k = '%s|opening-position-handed-on-unchanged|%s' % (fn.name.split('::{')[0], short(g.name))
                if bad:
                    rep.violation('R16d', k, where=bad[0].where(), fn=fn.name,
                                  detail='the opening position passes through Option::%s on its way to %s: it can be dropped or replaced depending on the '
                                         'transactions (e.g. when only other affiliates trade the security), where a prepended purchase would still count'
                                         % (bad[0].short, short(g.name)))
                else:
                    rep.ok('R16d', k, where=c.where(), fn=fn.name,
                           detail='the Option handed to %s is the looked-up position (calls on the way: %s)' % (short(g.name), sorted({x.short for x in o.calls})[:8]))
    if n < 2:
        rep.violation('R16d', 'anchor-lost:opening-position-hand-over', detail='anchor lost: expected the opening position to be handed to txs_to_delta_list '
                      'and to the status tracker (found %d hand-over sites)' % n)

    # ------------------------------------------------------------------ R16e: exactly three fields
    bounded = [c for c in parse.calls if re.search(r'str::<impl str>::(splitn|rsplitn|split_once|rsplit_once|split_terminator|rsplit)$|core::str::<impl str>::(splitn|rsplitn|split_once|rsplit_once)$', c.callee) or
               (c.short in ('splitn', 'rsplitn', 'split_once', 'rsplit_once') and 'str' in c.callee)]
    splits = [c for c in parse.calls if c.short == 'split' and 'str' in c.callee]
    count_checked = False
    for i, b in parse.blocks.items():
        t = b['term']
        if not t or t['t'] != 'switch':
            continue
        d = mir.provenance(parse, t['discr'], follow_all_call_args=True)
        if (any(x.short in ('len', 'count') for x in d.calls) or any(op == 'PtrMetadata' for op, _ in d.unops)) and \
                any(op in ('Eq', 'Ne') for op, _ in d.binops) and any(re.search(r'(^|\D)3(_usize)?$', str(cv[1])) for cv in d.consts):
            count_checked = True      # `parts.len() != 3`, or a slice pattern `[a, b, c]` (a length test against 3)
    if bounded:
        rep.violation('R16e', 'specification-has-exactly-three-fields', where=bounded[0].where(), fn=parse.name,
                      detail='the specification is cut with %s: a string with more than three fields is no longer rejected but folded into the symbol '
                             '(FOO:20:1000:00 becomes 1000 shares of "FOO:20")' % short(bounded[0].callee))
    elif splits and count_checked:
        rep.ok('R16e', 'specification-has-exactly-three-fields', where=splits[0].where(), fn=parse.name,
               detail='split on the separator without a bound, and the number of fields is compared with 3')
    else:
        rep.violation('R16e', 'specification-has-exactly-three-fields', fn=parse.name, where='%s:%d' % (parse.file, parse.line),
                      detail='no unbounded split followed by a comparison of the field count with 3 was found (split sites: %d, count compared: %s)'
                             % (len(splits), count_checked))
