"""C12 — USD rows use the Bank of Canada rate of the trade date or the last one before it.  DESIGN.md 5.C12
(R12a trade-date provenance, R12b zero placeholder never returned, R12c look-back = 7 x 1 day, R12d explicit rate
wins / only USD is auto-loaded)."""
import re

import mir
from mir import short, is_place, op_local

LEVEL = 'other'
EXPLANATION = ('Decides the necessary structural clauses of C12: (R12a) the date handed to RateLoader::get_effective_usd_cad_rate derives '
               'from CsvTx.trade_date on every call chain, never from settlement_date; (R12b) a rate taken from the per-year map is only '
               'returned on the non-zero edge of is_zero on that rate (the zero placeholder never escapes); (R12c) the look-back steps back '
               'exactly one day per iteration over 7 iterations, queries the stepped date, and ends in Err; (R12d) the loader is consulted '
               'only when no explicit rate is given and the currency equals USD. Not decided: calendar behaviour, the FXCADUSD inversion, '
               'CurrencyAndExchangeRate validation.')
TRUSTED_BASE = ['rustc nightly MIR construction and trait resolution', 'time::Date::saturating_sub / Duration::days semantics']
ASSUMPTIONS = []

MOD = 'fx::io::'       # the rate loader and the helper modules beside it (shapes, not paths, select the functions)
DAILY = 'fx::model::DailyRate'


def truth_of(vals, neg):
    return (vals != [0]) if vals is not None else (0 in (neg or []))


def run(prog, rep, tier='quick', config='default'):
    r12f(prog, rep)
    r12g(prog, rep)
    eff = prog.fn(MOD + 'RateLoader::get_effective_usd_cad_rate')
    exact = None
    for cand in prog.product_fns():
        if cand.name.startswith(MOD) and cand.kind in ('Fn', 'AssocFn') and 'testlib' not in cand.name:
            sig = prog.sigs('acb').get(cand.local_name)
            body = [g for g in prog.closures_of(cand)] + [cand]
            if 'Option<fx::model::DailyRate>' not in (cand.ty.get(0) or ''):
                continue      # the exact-date look-up answers "a rate, or none published"
            if any(x.short in ('contains_key', 'get', 'index') and re.search(r'HashMap<u32, std::collections::HashMap<time::Date', g.ty.get(x.arg_local(0), '')) for g in body for x in g.calls):
                exact = cand
    exact = exact or prog.fn(MOD + 'RateLoader::get_exact_usd_cad_rate')
    if not rep.anchor('RateLoader::get_effective_usd_cad_rate', eff) or not rep.anchor('RateLoader::get_exact_usd_cad_rate', exact):
        return
    # ------------------------------------------------------------------ R12a
    n = 0
    for c in prog.callers.get(eff.name, []):
        fn = c.fn
        if mir.is_testsupport(fn.name) or fn.name.startswith(MOD):
            continue
        n += 1
        org = mir.deep_origins(prog, fn, c.args[1], depth=4)
        dates = {f for (of, f) in org.fields if of.endswith('model::tx::CsvTx') and 'date' in f} | \
                {f for (of, f) in org.fields if of.endswith('model::tx::Tx') and 'date' in f}
        k = '%s|rate-date' % fn.name
        if dates == {'trade_date'}:
            rep.ok('R12a', k, where=c.where(), fn=fn.name, detail='the look-up date derives from CsvTx.trade_date on every call chain')
        elif not dates:
            rep.violation('R12a', k, where=c.where(), fn=fn.name,
                          detail='the date used for the exchange-rate look-up cannot be traced to the row\'s trade date (unresolved roots: %s)'
                                 % sorted('%s#%s' % p for p in org.params)[:4])
        else:
            rep.violation('R12a', k, where=c.where(), fn=fn.name,
                          detail='the exchange-rate look-up uses %s: it must use the row\'s trade date' % sorted(dates))
    if n == 0 and config == 'default':
        rep.violation('R12a', 'anchor-lost:loader-callers', detail='anchor lost: no product caller of get_effective_usd_cad_rate outside the loader')

    # ------------------------------------------------------------------ R12b
    n_some = 0
    for fn in prog.product_fns():
        if not (fn.name.startswith(MOD) or fn.name.startswith('<' + MOD)) or 'testlib' in fn.name:
            continue
        ordn = 0
        for i, b in fn.blocks.items():
            for s in b['stmts']:
                r = s['r']
                if r['rv'] != 'agg' or not (r['kind'].endswith('Option::Some') or r['kind'].endswith('Result::Ok')):
                    continue
                o = r['ops'][0]
                l = op_local(o)
                if l is None or not re.search(r'^&?fx::model::DailyRate$', fn.ty.get(l, '')):
                    continue
                org = mir.provenance(fn, o, follow_all_call_args=True)
                gets = [c for c in org.calls if c.short in ('get', 'index', 'remove', 'get_mut') and re.search(r'HashMap<time::Date, fx::model::DailyRate', fn.ty.get(c.arg_local(0), ''))]
                if not gets:
                    continue
                n_some += 1
                ordn += 1
                k = '%s|map-rate-returned#%d' % (fn.name, ordn)
                guarded = False
                for (sbb, discr, vals, neg) in fn.conditions_at(i):
                    d = mir.provenance(fn, discr, follow_all_call_args=True)
                    if any(c.callee.endswith('Decimal::is_zero') for c in d.calls) and any(f == 'foreign_to_local_rate' for of, f in d.fields) \
                            and set(gets) & set(d.calls) and not truth_of(vals, neg):
                        guarded = True
                if not guarded:
                    # `Some(rate).filter(|r| !r.foreign_to_local_rate.is_zero())`: the wrapped rate goes nowhere but into a filter whose
                    # predicate keeps it only when is_zero() is false
                    some_l = s['dst']['l']
                    users = [x for x in fn.calls if some_l in x.arg_locals() or
                             any(some_l in mir.provenance(fn, a).locals for a in x.args if is_place(a))]
                    flt = [x for x in users if re.search(r'^std::option::Option::<.*>::filter$', x.decl) and len(x.args) > 1]
                    if flt and len(users) == len(flt) and not s['dst']['p'] and some_l != 0:
                        ok_all = True
                        for x in flt:
                            g2 = mir._closure_fn_of(prog, fn, x.args[1])

                            def atom(gf, call):
                                if call.callee.endswith('Decimal::is_zero') and call.args and \
                                        any(f == 'foreign_to_local_rate' for of, f in mir.provenance(gf, call.args[0]).fields):
                                    return ('z', 'bool')
                                return None
                            cases = mir.bool_cases(prog, g2, atom) if g2 is not None else None
                            keep = [cs_ for cs_, v in (cases or []) if v is True]
                            if not keep or not all(cs_.get('z') is False for cs_ in keep):
                                ok_all = False
                        guarded = ok_all
                if guarded:
                    rep.ok('R12b', k, where=fn.where(s), fn=fn.name, detail='a rate from the per-year map is wrapped only on the non-zero edge of is_zero(rate)')
                else:
                    rep.violation('R12b', k, where=fn.where(s), fn=fn.name,
                                  detail='a rate read from the per-year map is returned without the is_zero() test: the zero "looked up, none published" '
                                         'placeholder could be used as an exchange rate')
        # the same decision written as `(!rate.is_zero()).then(|| rate.clone())` / `.then_some(rate)`
        for c in fn.calls:
            if not re.search(r'bool>::(then|then_some)$', c.callee) or len(c.args) < 2 or \
                    not re.search(r'Option<&?fx::model::DailyRate>', fn.ty.get(c.dst['l'], '') if c.dst else ''):
                continue
            MAPTY = r'HashMap<time::Date, fx::model::DailyRate'
            is_get = lambda f, x: x.short in ('get', 'index', 'remove', 'get_mut') and re.search(MAPTY, f.ty.get(x.arg_local(0), ''))
            val = mir.provenance(fn, c.args[1], follow_all_call_args=True)
            gets = [x for x in val.calls if is_get(fn, x)]
            if not gets:
                continue
            n_some += 1
            ordn += 1
            k = '%s|map-rate-returned#%d' % (fn.name, ordn)
            d = mir.provenance(fn, c.args[0], follow_all_call_args=True)
            nots = [op for op, _ in d.unops if op == 'Not']
            if any(x.callee.endswith('Decimal::is_zero') for x in d.calls) and any(f == 'foreign_to_local_rate' for of, f in d.fields) \
                    and set(gets) & set(d.calls) and len(nots) == 1 and not d.binops:
                rep.ok('R12b', k, where=c.where(), fn=fn.name, detail='a rate from the per-year map is wrapped by bool::then on `!is_zero(rate)`')
            else:
                rep.violation('R12b', k, where=c.where(), fn=fn.name,
                              detail='a rate read from the per-year map is returned by bool::then on a condition that is not `!rate.is_zero()`: the zero '
                                     '"looked up, none published" placeholder could be used as an exchange rate')
    if n_some == 0:
        rep.violation('R12b', 'anchor-lost:map-rate-return', detail='anchor lost: no site returns a rate taken from the per-year rate map')

    # ------------------------------------------------------------------ R12e: the per-day map only holds loaded data
    n_mut = 0
    for fn in prog.product_fns():
        if not (fn.name.startswith(MOD) or fn.name.startswith('<' + MOD)) or 'testlib' in fn.name:
            continue
        for c in fn.calls:
            a0 = c.arg_local(0)
            if a0 is None or not re.search(r'^&mut std::collections::HashMap<time::Date, fx::model::DailyRate', fn.ty.get(a0, '')):
                continue
            if c.short not in ('insert', 'entry', 'get_mut', 'remove', 'extend', 'retain', 'clear', 'or_insert', 'or_insert_with'):
                continue
            if not fn.ty.get(a0, '').startswith('&mut'):
                continue
            n_mut += 1
            k = '%s|day-map-%s' % (fn.name, c.short)
            # allowed: building the map from a slice/Vec of loaded rates (the value derives from a &Vec<DailyRate> parameter)
            vo = mir.provenance(fn, c.args[-1], follow_all_call_args=True) if len(c.args) > 1 else None
            from_vec = vo is not None and any(re.search(r'Vec<fx::model::DailyRate>|\[fx::model::DailyRate\]', fn.ty.get(p, '')) for p in vo.params)
            recv = mir.provenance(fn, c.args[0])
            local_map = not recv.params and not any(of.endswith('RateLoader') for of, f in recv.fields)
            if c.short == 'insert' and from_vec and local_map:
                rep.ok('R12e', k, where=c.where(), fn=fn.name, detail='per-day map built from a loaded year of rates')
            else:
                rep.violation('R12e', k, where=c.where(), fn=fn.name,
                              detail='the per-day rate map is modified (%s) with a value that is not an element of a loaded year: a derived rate stored under '
                                     'another date would later be taken for a published rate of that date (and escape the 7-day limit)' % c.short)
        # the same construction written as `rates.iter().map(|r| (r.date, r.clone())).collect()`
        for c in fn.calls:
            if c.short not in ('collect', 'from_iter') or not c.dst or \
                    not re.search(r'^std::collections::HashMap<time::Date, fx::model::DailyRate', fn.ty.get(c.dst['l'], '')):
                continue
            n_mut += 1
            k = '%s|day-map-%s' % (fn.name, c.short)
            src = mir.provenance(fn, c.args[0], follow_all_call_args=True)
            from_vec = any(re.search(r'Vec<fx::model::DailyRate>|\[fx::model::DailyRate\]', fn.ty.get(p_, '')) for p_ in src.params)
            # (on a spliced view the loaded year is a local of the enclosing body, not a parameter)
            from_vec = from_vec or (getattr(fn, 'origin', None) is not None and not src.params and
                                    any(re.search(r'^&?(mut )?std::vec::Vec<fx::model::DailyRate>|^&?\[fx::model::DailyRate\]', fn.ty.get(l_, '') or '') for l_ in src.locals))
            fresh = [x for x in src.calls if x.short in ('chain', 'once', 'repeat', 'zip', 'flat_map', 'successors', 'from_fn')]
            if not from_vec and src.params and fn.kind in ('Fn', 'AssocFn'):
                # a generic `impl IntoIterator<Item = &DailyRate>` parameter: what the product callers hand over
                RATES = r'Vec<fx::model::DailyRate>|\[fx::model::DailyRate\]|slice::Iter<.*fx::model::DailyRate>'
                sites = [x for x in prog.callers.get(fn.name, []) if not mir.is_testsupport(x.fn.name) and not x.inlined]

                def site_ok(x):
                    for p_ in src.params:
                        if p_ - 1 >= len(x.args) or not is_place(x.args[p_ - 1]):
                            return False
                        so = mir.provenance(x.fn, x.args[p_ - 1], follow_all_call_args=True)
                        tys = [x.fn.ty.get(l_, '') or '' for l_ in so.locals] + [prog.field_type(of, f) or '' for (of, f) in so.fields]
                        if not any(re.search(RATES, t) for t in tys) or [y for y in so.calls if y.short in ('chain', 'once', 'repeat', 'zip', 'flat_map', 'successors', 'from_fn')]:
                            return False
                    return True
                from_vec = bool(sites) and all(site_ok(x) for x in sites)
            if from_vec and not fresh:
                rep.ok('R12e', k, where=c.where(), fn=fn.name, detail='per-day map collected from a loaded year of rates')
            else:
                rep.violation('R12e', k, where=c.where(), fn=fn.name,
                              detail='the per-day rate map is collected from something other than the elements of a loaded year')
    if n_mut == 0:
        rep.violation('R12e', 'anchor-lost:day-map-construction', detail='anchor lost: construction of the per-day rate map')

    # ------------------------------------------------------------------ R12c
    loops = []
    for fn in prog.product_fns():
        if not (fn.name.startswith(MOD) or fn.name.startswith('<' + MOD)) or 'testlib' in fn.name:
            continue
        for c in fn.calls:
            if c.callee == exact.name and fn.loop_of(c.bb) is not None:
                # the innermost loop is the await poll loop; take the enclosing iterator loop
                for (nc, header, body) in fn.iterator_loops():
                    if c.bb in body:
                        loops.append((fn, c, nc, header, body))
    if not rep.anchor('look-back loop calling get_exact_usd_cad_rate', [l[0] for l in loops]):
        return
    for (fn, c, nc, header, body) in loops:
        base = fn.name
        org = mir.provenance(fn, nc.args[0], follow_all_call_args=True)
        rng = None
        for b in fn.blocks.values():
            for s in b['stmts']:
                if s['r']['rv'] == 'agg' and s['r']['kind'].startswith('adt:std::ops::Range') and s['dst']['l'] in org.locals:
                    vals = [o.get('v', '?') for o in s['r']['ops']]
                    rng = (s['r']['kind'], vals, s, s['r']['ops'])
        for x in org.calls:
            if x.callee.endswith('RangeInclusive::<Idx>::new'):
                rng = ('RangeInclusive', [a.get('v', '?') for a in x.args], x.t, x.args)
        iters = lo = hi = None
        if rng:
            from props import c02
            lo, hi = [c02.const_int(prog, fn, o) for o in rng[3][:2]]      # literals, named constants, constant arithmetic
            if lo is not None and hi is not None:
                iters = hi - lo + (1 if 'Inclusive' in rng[0] else 0)
        if iters == 7:
            rep.ok('R12c', base + '|seven-iterations', where=nc.where(), fn=fn.name, detail='look-back range %s = 7 iterations' % (rng[1][:2],))
        else:
            rep.violation('R12c', base + '|seven-iterations', where=nc.where(), fn=fn.name,
                          detail='the look-back loop runs %s iterations (range %s): the rate must come from at most seven days back'
                                 % (iters, rng[1] if rng else 'not a constant range'))
        # step: saturating_sub / checked_sub / Sub of Duration::days(1), result queried
        dorg = mir.provenance(fn, c.args[1], follow_all_call_args=True)
        steps = [x for x in dorg.calls if re.search(r'time::Date::(saturating_sub|checked_sub)$|ops::Sub::sub$|previous_day$', x.callee + ' ' + x.decl) and x.bb in body]
        days = [x for x in dorg.calls if x.callee.endswith('time::Duration::days')]
        # second form: `start - Duration::days(k)` for the loop counter k of `1..=7`, start not changed by the loop
        counter_form = False
        if len(days) == 1 and len(steps) == 1 and rng and lo == 1 and hi is not None:
            ko = mir.provenance(fn, days[0].args[0])
            bo = mir.provenance(fn, steps[0].args[0])
            body_defs = {l for l in bo.locals for (bb_, i_, k_, n_) in fn.defs.get(l, []) if bb_ in body and l in fn.user}
            if nc in ko.calls and not ko.binops and not body_defs and nc not in bo.calls:
                counter_form = True
        if counter_form:
            rep.ok('R12c', base + '|one-day-steps', where=steps[0].where(), fn=fn.name,
                   detail='the queried date is the start date minus k days for the loop counter k = %s..%s' % (lo, hi))
        elif steps and (days and all(a.get('v', '').startswith('1_') for x in days for a in x.args) or any(x.callee.endswith('previous_day') for x in steps)):
            rep.ok('R12c', base + '|one-day-steps', where=steps[0].where(), fn=fn.name, detail='the queried date is stepped back by Duration::days(1) inside the loop')
        else:
            rep.violation('R12c', base + '|one-day-steps', where=c.where(), fn=fn.name,
                          detail='the date queried inside the look-back loop is not "previous date minus exactly one day" (steps=%s, days=%s)'
                                 % ([short(x.callee) for x in steps], [a.get('v') for x in days for a in x.args]))
        fw = [x for x in dorg.calls if re.search(r'saturating_add|checked_add|ops::Add::add$|next_day$', x.callee + ' ' + x.decl)]
        if fw:
            rep.violation('R12c', base + '|never-forward', where=fw[0].where(), fn=fn.name, detail='the look-back moves forward in time (%s): a later day\'s rate could be used' % fw[0].callee)
        # exhaustion leads to Err
        normal, other = fn.classify_loop_exits(nc, body)
        ok_err = False
        for (src, dst) in normal:
            reach = {dst} | fn.reachable_from(dst)
            errs = [i for i in reach for s in fn.blocks[i]['stmts'] if s['dst']['l'] == 0 and s['r']['rv'] == 'agg' and s['r']['kind'].endswith('Result::Err')]
            oks = [i for i in reach for s in fn.blocks[i]['stmts'] if s['dst']['l'] == 0 and s['r']['rv'] == 'agg' and s['r']['kind'].endswith('Result::Ok')
                   and i not in body]
            if errs and not oks:
                ok_err = True
        if ok_err:
            rep.ok('R12c', base + '|exhaustion-is-an-error', fn=fn.name, detail='leaving the loop without a rate constructs Err')
        else:
            rep.violation('R12c', base + '|exhaustion-is-an-error', fn=fn.name, where=nc.where(),
                          detail='after seven unsuccessful days the function does not (only) return an error')

    # ------------------------------------------------------------------ R12d
    for c in prog.callers.get(eff.name, []):
        fn = c.fn
        if mir.is_testsupport(fn.name) or fn.name.startswith(MOD) or not fn.name.startswith('portfolio::io::tx_loader'):
            continue
        conds = fn.conditions_at(c.bb)
        has_rate_guard = False
        has_usd_guard = False
        for (sbb, discr, vals, neg) in conds:
            d = mir.provenance(fn, discr, follow_all_call_args=True)
            t = truth_of(vals, neg)
            if any(x.callee.endswith('Option::<T>::is_some') for x in d.calls) and not t:
                has_rate_guard = True
            if any(x.callee.endswith('Option::<T>::is_none') for x in d.calls) and t:
                has_rate_guard = True
            if d.has_call(r'Currency::usd$'):
                ne = any(x.decl.endswith('PartialEq::ne') for x in d.calls)
                eq = any(x.decl.endswith('PartialEq::eq') for x in d.calls)
                if (ne and not t) or (eq and t):
                    has_usd_guard = True
        k = '%s|loader-only-for-usd-without-rate' % fn.name
        if not (has_rate_guard and has_usd_guard):
            # the two tests made in a helper whose answer comes back as a variant (`match RateLookup::needed_for(curr, rate)? { .. }`):
            # every path to the look-up, on the body with the helper spliced in, has passed "no rate given" and "currency is USD"
            base_fn = getattr(fn, 'origin', fn)
            view = mir.inline_view(prog, base_fn)
            sites = [x for x in view.calls if x.callee == c.callee and not x.inlined]

            def atom(g_, x_):
                t0 = g_.ty.get(x_.arg_local(0), '') if x_.args else ''
                if x_.short in ('is_some', 'is_none') and re.search(r'Option<rust_decimal::Decimal>', t0 or ''):
                    return ('rate_' + x_.short, 'bool')
                if x_.decl.endswith(('PartialEq::eq', 'PartialEq::ne')) and mir.provenance(g_, x_.args[1] if len(x_.args) > 1 else x_.args[0], follow_all_call_args=True).has_call(r'Currency::usd$'):
                    return ('usd_' + x_.short, 'bool')
                return None
            ok_all = bool(sites)
            for x in sites:
                paths = mir.symbolic_paths(view, 0, x.bb, atom, prog=prog)
                if not paths or not all((p_.get('rate_is_some') is False or p_.get('rate_is_none') is True) and
                                        (p_.get('usd_eq') is True or p_.get('usd_ne') is False) for p_ in paths):
                    ok_all = False
            if ok_all:
                has_rate_guard = has_usd_guard = True
        if has_rate_guard and has_usd_guard:
            rep.ok('R12d', k, where=c.where(), fn=fn.name, detail='reached only when no explicit rate is given and the currency equals USD')
        else:
            rep.violation('R12d', k, where=c.where(), fn=fn.name,
                          detail='the automatic rate look-up is not confined to "no explicit rate" (%s) and "currency == USD" (%s): an explicit rate must '
                                 'always win and other currencies must carry their own rate' % (has_rate_guard, has_usd_guard))

    # ------------------------------------------------------------------ R12h: the rate put on a row is the loader's answer for it
    # in the module that fills in missing rates, every `Some(rate)` that is returned or stored into a row derives from the
    # RateLoader's answer (directly, or through a helper of the module, whose own `Some(..)` values are judged the same way) — never
    # from a memo of what other rows carried, a rate field of another row, or a constant
    LMOD = 'portfolio::io::tx_loader'
    n_some = 0
    for fn in prog.product_fns():
        if mir.is_testsupport(fn.name) or not fn.name.startswith(LMOD):
            continue
        bad = None
        n_here = 0
        for i, b in fn.blocks.items():
            for st in b['stmts']:
                r = st['r']
                if r['rv'] != 'agg' or not r['kind'].endswith('Option::Some') or not r['ops']:
                    continue
                ty = fn.ty.get(st['dst']['l'], '') or ''
                if st['dst']['p'] or not re.search(r'Option<rust_decimal::Decimal>', ty):
                    continue
                n_here += 1
                o = mir.provenance(fn, r['ops'][0], follow_all_call_args=True)
                via = [x for x in o.calls if x.callee == eff.name or (prog.resolve(x.callee, fn.crate) is not None and
                                                                     prog.resolve(x.callee, fn.crate).name.startswith(LMOD))]
                if not via and bad is None:
                    src = sorted({short(x.callee) for x in o.calls if not re.search(r'Try>::branch$|deref$|clone$', x.callee + ' ' + x.decl)})[:4]
                    bad = (st, ', '.join(src) or ('a parameter' if o.params else 'a constant'))
        if not n_here:
            continue
        n_some += n_here
        k = '%s|filled-in-rate-is-the-loaders-answer' % fn.name.split('::{')[0]
        if bad:
            rep.violation('R12h', k, where=fn.where(bad[0]), fn=fn.name,
                          detail='a rate that is filled into a row does not come from the RateLoader\'s answer for that row but from %s: another '
                                 'row\'s rate (e.g. an explicit one given for a different security) can end up on this row' % bad[1])
        else:
            rep.ok('R12h', k, fn=fn.name, where='%s:%d' % (fn.file, fn.line), detail='%d Some(rate) value(s), all derived from the RateLoader\'s answer' % n_here)
    if n_some == 0:
        rep.violation('R12h', 'anchor-lost:filled-in-rates', detail='anchor lost: no Some(rate) value built in portfolio::io::tx_loader')


def r12f(prog, rep):
    """the direction of a published quote (USD->CAD noon series as is, CAD->USD daily series inverted) is decided by which
    series the observation belongs to, never by the size of the number: no ordering comparison on a Decimal in the module that
    parses the published rates (the Canadian dollar was above parity for years; a magnitude test inverts those noon rates)"""
    RMOD = 'fx::io::remote_rate_loader::'
    fns = [f for f in prog.product_fns() if f.name.startswith(RMOD) and not mir.is_testsupport(f.name) and 'testlib' not in f.name]
    if not rep.anchor('module fx::io::remote_rate_loader', fns):
        return
    divs = [c for f in fns for c in f.calls if re.search(r'std::ops::Div::div$', c.decl) and any('Decimal' in f.ty.get(a, '') for a in c.arg_locals())]
    cmps = [(f, c) for f in fns for c in f.calls
            if re.search(r'cmp::PartialOrd::(lt|le|gt|ge|partial_cmp)$|cmp::Ord::(cmp|min|max|clamp)$', c.decl) and
            any('rust_decimal::Decimal' in f.ty.get(a, '') for a in c.arg_locals())]
    if not divs:
        rep.violation('R12f', 'anchor-lost:reciprocal', detail='anchor lost: the inversion of the CAD->USD daily series (1 / v) in the remote rate parser')
    elif cmps:
        f, c = cmps[0]
        rep.violation('R12f', 'quote-direction-by-series-not-by-value', where=c.where(), fn=f.name,
                      detail='the parser of the published rates compares a rate by size (%s): if that decides whether a value is inverted, noon rates '
                             'below 1 (2007-2008, 2010-2013) are turned upside down' % short(c.callee))
    else:
        rep.ok('R12f', 'quote-direction-by-series-not-by-value', where=divs[0].where(), fn=divs[0].fn.name,
               detail='the reciprocal is applied at %d site(s) and no Decimal is compared by size anywhere in the module' % len(divs))


def r12g(prog, rep):
    """every downloaded observation is kept: the function that pads a downloaded year with placeholder days walks the observations
    themselves and pushes each one into the result on every path (a walk over a fixed number of days that merely *looks up*
    observations drops whatever falls outside it - 31 December of a leap year with 365 days)"""
    DR = r'std::vec::Vec<fx::model::DailyRate'
    cands = [f for f in prog.product_fns() if f.name.startswith('fx::io::') and not mir.is_testsupport(f.name) and 'testlib' not in f.name and f.kind == 'Fn' and
             re.search(DR, f.ty.get(0, '')) and any(re.search(r'&(' + DR + r'|\[fx::model::DailyRate\])', f.ty.get(p, '')) for p in range(1, f.argc + 1))]
    if not rep.anchor('padding function of a downloaded year (&Vec<DailyRate>, year) -> Vec<DailyRate>', [f.name for f in cands]):
        return
    for f in cands:
        inp = [p for p in range(1, f.argc + 1) if re.search(r'&(' + DR + r'|\[fx::model::DailyRate\])', f.ty.get(p, ''))][0]
        k = '%s|every-observation-is-kept' % f.name
        ok = False
        why = 'no loop over the downloaded observations'
        for (nc, header, body) in f.iterator_loops():
            o = mir.provenance(f, nc.args[0], follow_all_call_args=True)
            if inp not in o.params or not re.search(r'Iter<.*DailyRate', f.ty.get(nc.arg_local(0), '')):
                continue
            sw = f.blocks[nc.target]['term'] if nc.target in f.blocks else None
            entry = ([tg for v, tg in sw['targets'] if v == 1] or [sw['otherwise']])[0] if sw and sw['t'] == 'switch' else None
            elem = nc.dst['l']
            pushes = set()
            for c in f.calls:
                if c.bb in body and c.short == 'push' and re.search(DR, f.ty.get(c.arg_local(0), '')) and len(c.args) > 1:
                    po = mir.provenance(f, c.args[1], follow_all_call_args=True)
                    if elem in po.locals:
                        pushes.add(c.bb)
            if entry is not None and pushes and not f.reaches(entry, header, avoid=pushes):
                ok = True
            else:
                why = 'an observation can be passed over without being pushed into the result'
        ext = [c for c in f.calls if c.short in ('extend', 'extend_from_slice', 'append') and re.search(DR, f.ty.get(c.arg_local(0), '')) and
               len(c.args) > 1 and inp in mir.provenance(f, c.args[1], follow_all_call_args=True).params]
        if ok or ext:
            rep.ok('R12g', k, fn=f.name, where='%s:%d' % (f.file, f.line), detail='each observation of the download is pushed into the padded year')
        else:
            rep.violation('R12g', k, fn=f.name, where='%s:%d' % (f.file, f.line),
                          detail='%s: a rate that was published for a trade date can be missing from the year\'s table, and the row is then '
                                 'converted with an earlier day\'s rate' % why)
