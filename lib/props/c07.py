"""C07 — results do not depend on how the input rows are laid out.  DESIGN.md 5.C07
(R7a order key, R7b sort before split, R7c read index across files, R7d header mapping)."""
import re

import mir
import ordering
from mir import short, is_place, op_local
from props import c18

LEVEL = 'other'
EXPLANATION = ('Decides the necessary structural clauses of C07: (R7a) the transaction order is exactly (settlement date, read index) — the '
               'comparison reads no other field and the read index only breaks ties; (R7b) the concatenated transactions are sorted before they '
               'are split by security, nothing is appended in between, and the split preserves order; (R7c) the read index continues across '
               'files (advanced by the number of rows of each file) and is incremented once per record; (R7d) columns are found by lower-cased, '
               'trimmed header name and the stored index is the position in the unfiltered row. Not decided: equality of the reported figures '
               'across layouts as such, duplicate header names.')
TRUSTED_BASE = ['rustc nightly MIR construction and trait resolution', '<[T]>::sort / sort_unstable order by Ord::cmp']
ASSUMPTIONS = ['csv::StringRecord::iter yields the cells of a record in column order']

TX = 'portfolio::model::tx::Tx'
MUTATORS = {'push', 'append', 'insert', 'extend', 'extend_from_slice', 'remove', 'swap', 'reverse', 'truncate', 'pop', 'retain',
            'drain', 'swap_remove', 'dedup', 'dedup_by', 'dedup_by_key', 'rotate_left', 'rotate_right', 'clear', 'split_off', 'resize'}
SORTS = {'sort', 'sort_unstable'}
CUSTOM_SORTS = {'sort_by', 'sort_by_key', 'sort_unstable_by', 'sort_unstable_by_key', 'sort_by_cached_key'}


def run(prog, rep, tier='quick', config='default'):
    r7a(prog, rep)
    r7b(prog, rep)
    r7c(prog, rep)
    r7d(prog, rep)
    r7e(prog, rep, config)
    r7f(prog, rep)


# ---------------------------------------------------------------------------------------------------- R7a
def r7a(prog, rep):
    pc = prog.fn('<%s as std::cmp::PartialOrd>::partial_cmp' % TX)
    oc = prog.fn('<%s as std::cmp::Ord>::cmp' % TX)
    if not rep.anchor('<Tx as PartialOrd>::partial_cmp', pc) or not rep.anchor('<Tx as Ord>::cmp', oc):
        return
    # derived impls would compare every field
    if pc.d['span']['exp'].startswith('m:') or oc.d['span']['exp'].startswith('m:'):
        rep.violation('R7a', 'derived-ordering', fn=pc.name, detail='the ordering of Tx is derived (compares all fields in declaration order)')
        return
    # the value each of the two functions returns, as a lexicographic chain of key comparisons (lib/ordering.py): whichever of the two
    # holds the logic, through helpers, `match`, then / then_with
    want = [((1, ('settlement_date',)), (2, ('settlement_date',))), ((1, ('read_index',)), (2, ('read_index',)))]
    chains = {f.name: ordering.chain_of_fn(prog, f) for f in (pc, oc)}
    for f in (pc, oc):
        ch = chains[f.name]
        where = '%s:%d' % (f.file, f.line)
        sfx = '' if f is pc else '|cmp'
        keys = None if ch is None else {k for pair in ch for k in pair}
        if ch is not None and keys == {k for pair in want for k in pair} and all(a[1] == b[1] and (a[0], b[0]) == (1, 2) for a, b in ch):
            rep.ok('R7a', 'order-key-fields' + sfx, fn=f.name, where=where, detail='compares ' + ordering.fmt(ch))
            if ch == want:
                rep.ok('R7a', 'tie-break-on-equal-only' + sfx, fn=f.name, where=where,
                       detail='read_index is compared only on the Equal outcome of the settlement-date comparison')
            else:
                rep.violation('R7a', 'tie-break-on-equal-only' + sfx, fn=f.name, where=where,
                              detail='the order is %s; it must be settlement date first, read index on equal dates only' % ordering.fmt(ch))
        else:
            rep.violation('R7a', 'order-key-fields' + sfx, fn=f.name, where=where,
                          detail='Tx ordering is %s; the processing order must be exactly (settlement_date, read_index), self against other'
                                 % ordering.fmt(ch))
    if chains[pc.name] is not None and chains[pc.name] == chains[oc.name]:
        rep.ok('R7a', 'ord-forwards', fn=oc.name, detail='Ord::cmp and PartialOrd::partial_cmp evaluate to the same comparison chain', trivial=True)
    else:
        rep.violation('R7a', 'ord-forwards', fn=oc.name, where='%s:%d' % (oc.file, oc.line),
                      detail='Ord::cmp (%s) and PartialOrd::partial_cmp (%s) of Tx differ' % (ordering.fmt(chains[oc.name]), ordering.fmt(chains[pc.name])))


# ---------------------------------------------------------------------------------------------------- R7b
def root_local(fn, l):
    org = mir.provenance(fn, l, pass_through={'deref', 'deref_mut', 'as_mut_slice', 'as_mut', 'as_slice', 'borrow_mut', 'borrow'})
    users = {x for x in org.locals if x in fn.user or fn.is_param(x)}
    return users or org.locals


def forwards_to_ord(prog, fn, c):
    """sort_by(|a, b| a.cmp(b)) / a.partial_cmp(b).unwrap(): a custom comparator that is just Tx's own ordering"""
    if c.short not in ('sort_by', 'sort_unstable_by') or len(c.args) < 2:
        return False
    cl = op_local(c.args[1])
    g = None
    for (bb, idx, kind, node) in fn.defs.get(cl, []) if cl is not None else []:
        if kind == 'stmt' and node['r']['rv'] == 'agg' and node['r']['kind'].startswith('closure:'):
            g = prog.by_crate[fn.crate].get(node['r']['kind'][8:])
    if g is None:
        return False
    cmps = [x for x in g.calls if x.callee in ('<%s as std::cmp::Ord>::cmp' % TX, '<%s as std::cmp::PartialOrd>::partial_cmp' % TX)]
    others = [x for x in g.calls if x not in cmps and x.short not in ('unwrap', 'expect', 'deref')]
    if len(cmps) != 1 or others:
        return False
    a0 = mir.provenance(g, cmps[0].args[0]).params
    a1 = mir.provenance(g, cmps[0].args[1]).params
    return a0 == {2} and a1 == {3}


def r7b(prog, rep):
    hosts = []
    for fn in prog.product_fns():
        names = {c.callee for c in fn.calls}
        if not any(n.endswith('misc::split_txs_by_security') for n in names):
            continue
        # ... and reads the files: calls parse_tx_csv itself or through a helper of its module
        reach = prog.callees_closure([fn])
        if any(n.endswith('tx_csv::parse_tx_csv') for n in names) or \
                any(n.endswith('tx_csv::parse_tx_csv') for g in reach.values() if g.file == fn.file for n in {c.callee for c in g.calls}):
            hosts.append(fn)
    if not rep.anchor('function that reads the CSV files and splits the transactions by security', hosts):
        return
    for fn in hosts:
        split = [c for c in fn.calls if c.callee.endswith('misc::split_txs_by_security')][0]
        vec_roots = root_local(fn, split.args[0])
        sorts = [c for c in fn.calls if (c.short in SORTS | CUSTOM_SORTS) and re.search(r'slice::<impl \[T\]>::', c.callee)
                 and root_local(fn, c.args[0]) & vec_roots]
        k = '%s|sort-dominates-split' % fn.name
        good = [c for c in sorts if c.short in SORTS and fn.dominates(c.bb, split.bb)]
        custom = [c for c in sorts if c.short in CUSTOM_SORTS and not forwards_to_ord(prog, fn, c)]
        good += [c for c in sorts if c.short in CUSTOM_SORTS and forwards_to_ord(prog, fn, c) and fn.dominates(c.bb, split.bb)]
        if custom:
            rep.violation('R7b', k + '|custom-comparator', where=custom[0].where(), fn=fn.name,
                          detail='the transactions are sorted with a custom comparator (%s) instead of Tx\'s Ord (settlement date, read index)' % custom[0].short)
        if not good:
            rep.violation('R7b', k, where=split.where(), fn=fn.name,
                          detail='split_txs_by_security is not preceded on every path by a sort of the concatenated transactions: rows from later files '
                                 'or out-of-order rows would be processed in file order')
            continue
        s = good[-1]
        rep.ok('R7b', k, where=s.where(), fn=fn.name, detail='<[Tx]>::%s dominates split_txs_by_security' % s.short)
        between = fn.reachable_from(s.bb) & ({b for b in fn.blocks if fn.reaches(b, split.bb)} | {split.bb})
        muts = [c for c in fn.calls if c.bb in between and c.bb not in (s.bb, split.bb) and c.short in MUTATORS
                and c.args and root_local(fn, c.args[0]) & vec_roots]
        if muts:
            rep.violation('R7b', '%s|mutation-between-sort-and-split' % fn.name, where=muts[0].where(), fn=fn.name,
                          detail='the sorted vector is modified (%s) between the sort and the split' % muts[0].short)
        else:
            rep.ok('R7b', '%s|no-mutation-between-sort-and-split' % fn.name, fn=fn.name, detail='no push/append/insert on the vector between sort and split', trivial=True)
    sp = prog.fn('portfolio::misc::split_txs_by_security')
    if rep.anchor('split_txs_by_security', sp):
        bad = [c for c in sp.calls if c.short in ('rev', 'sort', 'sort_by', 'sort_unstable', 'swap', 'reverse', 'insert', 'push_front', 'swap_remove', 'dedup')
               and not re.search(r'HashMap|hash_map', c.callee)]
        h_iter = [c for c in sp.calls if c.short == 'next' and re.search(r'hash_(map|set)::', sp.ty.get(c.arg_local(0), ''))]
        if bad or h_iter:
            rep.violation('R7b', 'split-preserves-order', fn=sp.name, where=(bad or h_iter)[0].where(),
                          detail='split_txs_by_security reorders the transactions of a security (%s)' % (bad or h_iter)[0].short)
        else:
            pushes = [c for c in sp.calls if c.short == 'push']
            rep.ok('R7b', 'split-preserves-order', fn=sp.name, detail='iterates the Vec in order and only pushes (%d push site)' % len(pushes))


# ---------------------------------------------------------------------------------------------------- R7c
def r7c(prog, rep):
    def carried(fn, c, arg, depth=0):
        """the index argument `arg` of call `c` in fn: advanced by each file's row count inside the per-file loop? Returns a list of
        (verdict, fn, call) — one per loop found; follows the argument up through parameters / async captures when the call is not in a
        loop itself"""
        lp = fn.loop_of(c.bb)
        if lp is not None:
            idx_roots = root_local(fn, arg)
            ok = False
            for l in idx_roots:
                for (bb, i, kind, node) in fn.defs.get(l, []):
                    if bb not in lp[1] or kind != 'stmt':
                        continue
                    org = mir.provenance(fn, node['r']['ops'][0] if node['r'].get('ops') else l, follow_all_call_args=True)
                    adds = any(op.startswith('Add') for op, _ in org.binops)
                    if adds and org.has_call(r'vec::Vec::<T, A>::len$|::len$') and l in org.locals:
                        ok = True
                        # ... the length of the file's rows while they are still there: no call that empties that list (it is the
                        # source of an `append`, drained, cleared, taken) lies before the len() in the same iteration
                        for lc in [x for x in org.calls if x.short == 'len' and x.args]:
                            v = mir.nearest_user_local(fn, lc.args[0])
                            if v is None:
                                continue
                            for x in fn.calls:
                                if x.bb not in lp[1] or x is lc or not fn.dominates(x.bb, lc.bb):
                                    continue
                                emptied = (x.short == 'append' and len(x.args) > 1 and mir.nearest_user_local(fn, x.args[1]) == v) or \
                                          (x.short in ('drain', 'clear', 'truncate', 'take', 'split_off') and x.args and mir.nearest_user_local(fn, x.args[0]) == v and
                                           re.search(r'vec::Vec|mem::take', x.callee))
                                if emptied:
                                    ok = False
            return [(ok, fn, c)]
        if depth >= 3:
            return []
        o = mir.provenance(fn, arg)
        owner, pl = None, None
        if o.params - ({1} if fn.kind in ('Closure', 'SyntheticCoroutineBody') else set()):
            owner, pl = fn, sorted(o.params)[-1]
        elif o.upvars:
            owner, pl = mir.owner_local_of_upvar(prog, fn, arg)
        if owner is None or not owner.is_param(pl):
            return []
        out = []
        for cc in prog.callers.get(owner.name, []):
            if not mir.is_testsupport(cc.fn.name) and pl - 1 < len(cc.args):
                out += carried(cc.fn, cc, cc.args[pl - 1], depth + 1)
        return out
    for fn in prog.product_fns():
        for c in fn.calls:
            if not c.callee.endswith('tx_csv::parse_tx_csv'):
                continue
            if mir.is_testsupport(fn.name):
                continue
            res = carried(fn, c, c.args[1])
            if not res:
                rep.info('R7c', '%s|read-index-carried' % fn.name, where=c.where(), fn=fn.name,
                         detail='parse_tx_csv called outside a per-file loop (single file)')
            for (ok, hf, hc) in res:
                k = '%s|read-index-carried' % hf.name
                if ok:
                    rep.ok('R7c', k, where=hc.where(), fn=hf.name, detail='the index handed to parse_tx_csv is advanced by the row count of each file inside the per-file loop')
                else:
                    rep.violation('R7c', k, where=hc.where(), fn=hf.name,
                                  detail='the global read index passed to parse_tx_csv is not advanced by each file\'s row count: rows of later files would tie '
                                         'with (or sort before) rows of earlier files on the same date')
    p = prog.fn('portfolio::io::tx_csv::parse_tx_csv')
    if not rep.anchor('parse_tx_csv', p):
        return
    from props import anchors
    rd = anchors.csv_reader(prog)
    mk = [c for c in p.calls if c.callee == (rd.name if rd else 'portfolio::io::tx_csv::csvtx_from_csv_values')]
    if not rep.anchor('record -> CsvTx conversion call inside parse_tx_csv', mk):
        return
    c = mk[0]
    lp = p.loop_of(c.bb)
    idx_roots = {l for l in root_local(p, c.args[1])}
    from_param = 2 in mir.provenance(p, c.args[1], follow_all_call_args=True).params or any(
        2 in mir.provenance(p, l).params for l in idx_roots)
    incs = []
    for l in idx_roots:
        for (bb, i, kind, node) in p.defs.get(l, []):
            if lp and bb in lp[1] and kind == 'stmt':
                org = mir.provenance(p, node['r']['ops'][0]) if node['r'].get('ops') else None
                if org and any(op.startswith('Add') for op, _ in org.binops) and any(v.startswith('1_') for (_, v, _) in org.consts) and l in org.locals:
                    incs.append(bb)
    k = 'portfolio::io::tx_csv::parse_tx_csv|index-incremented-per-record'
    push = [x for x in p.calls if x.short == 'push' and lp and x.bb in lp[1]]
    if lp and from_param and incs and push and all(p.dominates(push[0].bb, b) for b in incs) and \
            not p.reaches(push[0].bb, lp[0], avoid=set(incs)):
        rep.ok('R7c', k, where=c.where(), fn=p.name, detail='read index starts at the caller\'s value and is incremented once after every pushed record')
    else:
        rep.violation('R7c', k, where=c.where(), fn=p.name,
                      detail='the per-record read index is not (start value from the caller, +1 after every pushed record): '
                             'from_param=%s increments=%d' % (from_param, len(incs)))


# ---------------------------------------------------------------------------------------------------- R7d
def r7d(prog, rep):
    p = prog.fn('portfolio::io::tx_csv::parse_tx_csv')
    if p is None:
        return
    group = [g for g in prog.product_fns() if g.file == p.file and not mir.is_testsupport(g.name)]
    pos_table = [g for g in group if any(POS_TABLE.search(t) for t in g.ty.values())]
    n = c18.index_stability(prog, rep, 'R7d', only_prefix='portfolio::io::tx_csv::', also_types=POS_TABLE)
    n_cells = len([1 for g in group + [h for g0 in group for h in prog.closures_of(g0)] for c in g.calls
                   if c.decl.endswith('Iterator::enumerate') and re.search(r'csv::StringRecordIter', g.ty.get(c.arg_local(0), '') or '')])
    if n < (1 if pos_table else 2) and n_cells < 2:
        rep.violation('R7d', 'anchor-lost:enumerate-sites', fn=p.name, detail='anchor lost: expected enumerate() over the header row and over each record (found %d)' % n)
    # the header text is normalised before the column-name lookup
    lookups = [c for c in p.calls if c.short in ('get', 'contains', 'contains_key', 'get_key_value') and
               re.search(r'Hash(Set|Map)<&(\'\w+ )?str', p.ty.get(c.arg_local(0), '')) and len(c.args) > 1]
    hdr = []
    for c in lookups:
        org = mir.provenance(p, c.args[1], follow_all_call_args=True)
        if org.has_call(r'csv::StringRecord|headers|StringRecordIter'):
            hdr.append((c, org))
    if not rep.anchor('column-name lookup of a header cell in parse_tx_csv', [c for c, _ in hdr]):
        return
    for c, org in hdr:
        k = 'portfolio::io::tx_csv::parse_tx_csv|header-normalised'
        # the normalisation may sit in a closure handed to an adaptor on the way (`headers.iter().map(|c| c.trim().to_lowercase())`)
        closure_calls = [x for kind in org.aggs if kind.startswith('closure:')
                         for g2 in [prog.by_crate[p.crate].get(kind[len('closure:'):])] if g2 is not None for x in g2.calls]
        missing = [n for n, pat in (('to_lowercase', r'str>::to_lowercase$|::to_lowercase$|to_ascii_lowercase$'), ('trim', r'str>::trim$|::trim$'))
                   if not org.has_call(pat) and not any(re.search(pat, x.callee) for x in closure_calls)]
        if missing:
            rep.violation('R7d', k, where=c.where(), fn=p.name,
                          detail='a header cell is looked up without %s: header case / padding would change which columns are recognised' % ' and '.join(missing))
        else:
            rep.ok('R7d', k, where=c.where(), fn=p.name, detail='header cell passes through to_lowercase and trim before the lookup')
    # the record cell is fetched with the index that was stored for the header
    ins = [c for c in p.calls if c.short == 'insert' and re.search(r'HashMap<usize, ', p.ty.get(c.arg_local(0), ''))]
    gets = [c for c in p.calls if c.short in ('get', 'index') and re.search(r'HashMap<usize, ', p.ty.get(c.arg_local(0), ''))]
    if ins and not gets:
        # the look-up sits in a closure of an adaptor chain over the record's cells (`record.iter().enumerate().filter_map(|(i, v)| map.get(&i)..)`):
        # its index is the closure's item, which comes out of enumerate() over the cells untouched
        for g in prog.closures_of(getattr(p, 'origin', p)):
            for c in g.calls:
                if c.short in ('get', 'index') and re.search(r'HashMap<usize, ', g.ty.get(c.arg_local(0), '') or '') and len(c.args) > 1:
                    o1 = mir.provenance(g, c.args[1])
                    item_only = bool(o1.params - {1}) and not o1.binops and not o1.calls and not o1.upvars
                    via_enum = False
                    for (par, hc, ai) in mir.handed_to(prog, g):
                        ro = mir.provenance(par, hc.args[0], pass_through=c18.ITER_PASS | {'filter', 'filter_map', 'map', 'inspect'}, stop_calls=r'Iterator::enumerate$')
                        en = [x for x in ro.calls if x.decl.endswith('Iterator::enumerate')]
                        if en and re.search(r'csv::StringRecordIter', par.ty.get(en[0].arg_local(0), '') or '') and not ro.binops:
                            via_enum = True
                    oi = mir.provenance(p, ins[0].args[1], pass_through=c18.ITER_PASS, stop_calls=r'Iterator::enumerate$')
                    if item_only and via_enum and oi.has_call(r'Iterator::enumerate$') and not oi.binops:
                        rep.ok('R7d', 'portfolio::io::tx_csv::parse_tx_csv|same-index-stored-and-fetched', fn=p.name, where=c.where(),
                               detail='the column map is keyed by the enumerate index of the header row and queried, in the closure that walks a '
                                      'record, with the enumerate index of the cell, both unmodified')
                        return
    if ins and gets:
        # from the use back to the enumerate() that produced the index, and no further (what the row iterator itself derives from —
        # e.g. an error closure capturing `row_num = i + 2` — is not arithmetic on the column index)
        oi = mir.provenance(p, ins[0].args[1], pass_through=c18.ITER_PASS, stop_calls=r'Iterator::enumerate$')
        og = mir.provenance(p, gets[0].args[1], pass_through=c18.ITER_PASS, stop_calls=r'Iterator::enumerate$')
        if oi.has_call(r'Iterator::enumerate$') and og.has_call(r'Iterator::enumerate$') and not oi.binops and not og.binops:
            rep.ok('R7d', 'portfolio::io::tx_csv::parse_tx_csv|same-index-stored-and-fetched', fn=p.name, where=gets[0].where(),
                   detail='the column map is keyed by the enumerate index of the header row and queried with the enumerate index of the record, both unmodified')
        else:
            rep.violation('R7d', 'portfolio::io::tx_csv::parse_tx_csv|same-index-stored-and-fetched', fn=p.name, where=gets[0].where(),
                          detail='the index stored for a header and the index used to fetch a record cell are not both the plain enumerate() position')
    elif pos_table:
        r7d_positional_table(prog, rep, p, group)
    else:
        r7d_index_values(prog, rep, p, group)


ARITH = {'Add', 'Sub', 'Mul', 'Div', 'Rem', 'Shl', 'Shr', 'BitAnd', 'BitOr', 'BitXor', 'AddWithOverflow', 'SubWithOverflow', 'MulWithOverflow',
         'AddUnchecked', 'SubUnchecked', 'MulUnchecked'}


def r7d_index_values(prog, rep, p, group):
    """whatever holds the header positions (here: a record with an `index` field compared with the cell's position): the position of a
    header cell and the position of a record cell are the plain enumerate() values — stored and compared, never computed with"""
    k = 'portfolio::io::tx_csv::parse_tx_csv|same-index-stored-and-fetched'
    fns = list(group) + [h for g in group for h in prog.closures_of(g) if h not in group]

    def cell_enumerates(g):
        # (the cells may reach the enumerate through a helper's `impl Iterator<Item = &str>` parameter: then the receiver is traced back
        # to StringRecord::iter)
        return [c for c in g.calls if c.decl.endswith('Iterator::enumerate') and
                (re.search(r'csv::StringRecordIter', g.ty.get(c.arg_local(0), '') or '') or
                 (not re.search(r'::', (g.ty.get(c.arg_local(0), '') or '').split('<')[0]) and
                  mir.provenance(g, c.args[0], follow_all_call_args=True).has_call(r'csv::StringRecord::iter$')))]
    enums = [(g, c) for g in fns for c in cell_enumerates(g)]
    hdr = [(g, c) for (g, c) in enums if mir.provenance(g, c.args[0], follow_all_call_args=True).has_call(r'::headers$')]
    rec = [(g, c) for (g, c) in enums if (g, c) not in hdr]
    if not hdr or not rec:
        rep.violation('R7d', 'anchor-lost:column-index-map', fn=p.name,
                      detail='anchor lost: enumerate() over the header cells and over the cells of a record (%d / %d found)' % (len(hdr), len(rec)))
        return
    bad = None
    stored = fetched = False
    for g in fns:
        own = {c.bb for c in cell_enumerates(g)}
        for b in g.blocks.values():
            for st in b['stmts']:
                r = st['r']
                if r['rv'] == 'binop' and (r['op'] in ARITH or r['op'] in ('Eq', 'Ne', 'Lt', 'Le', 'Gt', 'Ge')):
                    for o in r['ops']:
                        if not is_place(o):
                            continue
                        org = mir.provenance(g, o, pass_through=c18.ITER_PASS | {'find', 'position'})
                        idx_src = [x for x in org.calls if x.bb in own]
                        if g.kind == 'Closure' and not idx_src and (org.upvars or (org.params - {1})):
                            # an index captured by / handed to a closure (`find(|c| c.index == i)`)
                            f2, cs2 = mir.origins_with_captures(prog, prog.owner_of(g), g, o)
                            idx_src = [x for x in cs2 if (x.decl.endswith('Iterator::enumerate') or x.short == 'next') and
                                       re.search(r'csv::StringRecordIter', x.fn.ty.get(x.arg_local(0), '') or '')]
                        if not idx_src:
                            continue
                        if r['op'] in ARITH:
                            bad = bad or (g, st, r['op'])
                        else:
                            fetched = True
                if r['rv'] == 'agg' and r['kind'].startswith('adt:portfolio::io::tx_csv'):
                    for o in r['ops']:
                        if is_place(o) and any(x.bb in own for x in mir.provenance(g, o, pass_through=c18.ITER_PASS).calls):
                            stored = True
    if bad:
        g, st, op = bad
        rep.violation('R7d', k, fn=g.name, where=g.where(st),
                      detail='a column position taken from enumerate() over the cells is changed by arithmetic (%s) before it is stored / compared' % op)
    elif stored and fetched:
        rep.ok('R7d', k, fn=p.name, where='%s:%d' % (p.file, p.line),
               detail='header positions are stored as they come from enumerate() and compared, unchanged, with the enumerate() position of each record cell')
    else:
        rep.violation('R7d', 'anchor-lost:column-index-map', fn=p.name,
                      detail='anchor lost: where the header position is stored (%s) / where a record cell position is matched against it (%s)' % (stored, fetched))


POS_TABLE = re.compile(r"(std::vec::Vec<|\[)std::option::Option<&('\w+ )?str>")
POS_TABLE_READS = {'len', 'iter', 'contains', 'get', 'index', 'as_slice', 'deref', 'is_empty', 'first', 'last', 'with_capacity', 'new', 'clone',
                   'as_ref', 'borrow', 'into_iter', 'capacity', 'reserve', 'to_vec'}


def r7d_positional_table(prog, rep, p, group):
    """column position -> name kept in a Vec<Option<&str>>: one push per header cell, in header order; fetched with the plain
    enumerate() position of the record cell"""
    k = 'portfolio::io::tx_csv::parse_tx_csv|same-index-stored-and-fetched'
    pushes, others, fetches = [], [], []
    for g in group:
        for c in g.calls:
            t0 = g.ty.get(c.arg_local(0) if c.args else -1, '') or ''
            if not POS_TABLE.search(t0) or not re.search(r'(vec::Vec|slice|\[T\])', c.callee):
                continue
            if c.short == 'push':
                pushes.append((g, c))
            elif c.short in ('get', 'index', 'get_unchecked') and len(c.args) > 1:
                fetches.append((g, c))
            elif c.short not in POS_TABLE_READS:
                others.append((g, c))
    if len(pushes) != 1 or not fetches:
        rep.violation('R7d', 'anchor-lost:column-index-map', fn=p.name,
                      detail='anchor lost: column position -> name table in %s (%d push sites, %d fetch sites)' % (p.file, len(pushes), len(fetches)))
        return
    g, c = pushes[0]
    if others:
        og, oc = others[0]
        rep.violation('R7d', k, fn=og.name, where=oc.where(), detail='the position -> name table is also changed by %s: positions no longer equal header columns' % oc.callee)
        return
    lp = g.loop_of(c.bb)
    drv = [nc for (nc, h, body) in g.iterator_loops() if lp is not None and h == lp[0]]
    why = None
    if lp is None or not drv:
        why = 'the name of a header cell is not pushed from a loop over the header row'
    else:
        h, body = lp
        latches = [b for b in body if h in g.succ[b]]
        if not all(g.dominates(c.bb, b) for b in latches):
            why = 'some header cells are skipped without a push: later columns shift to the left'
        if any(g.loop_of(c.bb)[0] != hh and c.bb in bb for hh, bb in g.loops if hh in body and hh != h):
            why = 'the push sits in an inner loop: more than one entry per header cell'
        org = mir.provenance(g, drv[0].args[0], pass_through=c18.ITER_PASS)
        if not org.has_call(r'csv::StringRecord|headers|StringRecordIter'):
            why = why or 'the loop that fills the table does not run over the header row'
        ch = [x for x in org.calls if x.short in c18.LENCHG]
        if ch:
            why = 'the header row goes through %s before the positions are recorded' % ch[0].short
    for fg, fc in fetches:
        og = mir.provenance(fg, fc.args[1], follow_all_call_args=True)
        binops = list(og.binops)
        enum = og.has_call(r'Iterator::enumerate$')
        if not enum and fg.kind == 'Closure' and (og.params - {1}):
            # the index is (part of) the closure's argument: an item of the iterator the closure was handed to
            for (par, hc, i) in mir.handed_to(prog, fg):
                if i >= 1 and hc.decl.startswith('std::iter::'):
                    o2 = mir.provenance(par, hc.args[0], pass_through=c18.ITER_PASS)
                    enum = enum or o2.has_call(r'Iterator::enumerate$')
                    binops += o2.binops
        if not enum or binops:
            why = why or 'a record cell is fetched with an index that is not the plain enumerate() position'
    if why:
        rep.violation('R7d', k, fn=g.name, where=c.where(), detail=why)
    else:
        rep.ok('R7d', k, fn=g.name, where=fetches[0][1].where(),
               detail='one table entry is pushed per header cell, in header order; a record cell is looked up with its plain enumerate() position')

# ---------------------------------------------------------------------------------------------------- R7e
REORDER = SORTS | CUSTOM_SORTS | {'reverse', 'rev', 'dedup', 'dedup_by', 'dedup_by_key', 'retain', 'retain_mut', 'swap', 'rotate_left',
                                  'rotate_right', 'swap_remove', 'remove', 'truncate', 'drain', 'split_off', 'pop', 'sorted', 'sorted_by',
                                  'sorted_by_key', 'sorted_unstable', 'select_nth_unstable', 'unique', 'skip', 'step_by', 'take'}
READER_SEQ = re.compile(r'(Vec<(acb::)?util::rw::DescribedReader|\[(acb::)?util::rw::DescribedReader\]|(IntoIter|Iter|IterMut)<[^>]*util::rw::DescribedReader)')
NAME_SEQ = re.compile(r'(Vec<std::string::String|\[std::string::String\]|(IntoIter|Iter|IterMut)<[^>]*std::string::String)')
UNORDERED = re.compile(r'std::collections::(HashSet|HashMap|BTreeSet|BTreeMap)<')


def r7e(prog, rep, config='default'):
    """the files reach the parser in the order the user gave them: between the argument list and the reader list handed to the
    application no call re-orders, drops or de-duplicates the file names / readers, and they do not pass through a set or map"""
    n = 0
    for fn in prog.product_fns():
        if fn.kind == 'Closure' and any(READER_SEQ.search(t) for t in prog.owner_of(fn).ty.values()) and prog.owner_of(fn).kind != 'Closure':
            continue      # judged with the function that owns the list
        # the readers may be built in a closure of the function (`names.into_iter().map(|n| DescribedReader::from_file_path(..)).collect()`)
        makes = [c for g in [fn] + list(prog.closures_of(fn)) for c in g.calls if re.search(r'util::rw::DescribedReader::from_(file_path|string)$', c.callee)]
        if not makes or mir.is_testsupport(fn.name):
            continue
        has_list = any(READER_SEQ.search(t) for t in fn.ty.values())
        if not has_list:
            continue
        n += 1
        bad = []
        for c in fn.calls:
            for a in c.args:
                l = op_local(a)
                if l is None:
                    continue
                ty = fn.ty.get(l, '')
                is_reader_seq = bool(READER_SEQ.search(ty))
                is_name_seq = False
                if not is_reader_seq and NAME_SEQ.search(ty):
                    org = mir.provenance(fn, a, follow_all_call_args=True)
                    is_name_seq = any(f == 'csv_files' for (_, f) in org.fields)
                if not (is_reader_seq or is_name_seq):
                    continue
                dty = fn.ty.get(c.dst_local(), '') if c.dst_local() is not None else ''
                if c.short in REORDER:
                    bad.append((c, '%s() on the %s list' % (c.short, 'reader' if is_reader_seq else 'file-name')))
                elif UNORDERED.search(dty) and c.short in ('collect', 'from_iter', 'from', 'into', 'extend'):
                    bad.append((c, 'the %s list is collected into %s' % ('reader' if is_reader_seq else 'file-name', dty[:50])))
        k = '%s|files-read-in-the-order-given' % fn.name
        if bad:
            c, why = bad[0]
            rep.violation('R7e', k, where=c.where(), fn=fn.name,
                          detail='%s: the position of a row in the concatenated input (the tie-break for rows of one security settling on the same '
                                 'day) would no longer follow the order in which the files were given' % why)
        else:
            rep.ok('R7e', k, where=makes[0].where(), fn=fn.name,
                   detail='the reader list is filled in argument order; no sort / reverse / dedup / retain / set on the file-name or reader list')
    want = 2 if config == 'default' else 1      # the command line front end and the acb_wasm entry point
    if n == 0 and config == 'wasm':
        rep.ok('R7e', 'no-front-end-in-this-config', detail='the library built with the wasm feature set contains no function that builds the reader list '
               '(the CLI is compiled out; the acb_wasm entry point is analysed in the default configuration)', trivial=True)
    elif n < want:
        rep.violation('R7e', 'anchor-lost:reader-list-construction',
                      detail='anchor lost: no front-end function building the Vec<DescribedReader> (config %s)' % config)


def fixture():
    return c18.fixture()


# ---------------------------------------------------------------------------------------------------- R7f
def r7f(prog, rep):
    """nothing but Tx's own order, applied stably, arranges a sequence of Tx (or of the TxDelta made from them). R7a fixes what that
    order is and R7b that the transactions are sorted before they are split; a later re-sort by another key (trade date), an unstable
    sort (an adjustment row compares equal to its sale), a reverse / rotate / swap puts the rows of a security into an order in which
    the ledger was never meant to be walked."""
    ELEM = re.compile(r'^(&(\'\w+ )?(mut )?)*(\[|std::vec::Vec<)(&(\'\w+ )?)?(portfolio::model::tx::Tx|portfolio::model::txdelta::TxDelta)\b')
    REORDER = {'sort_by', 'sort_by_key', 'sort_by_cached_key', 'sort_unstable', 'sort_unstable_by', 'sort_unstable_by_key', 'select_nth_unstable',
               'select_nth_unstable_by', 'select_nth_unstable_by_key', 'reverse', 'rotate_left', 'rotate_right', 'swap', 'swap_remove', 'swap_with_slice'}
    want_fields = [('settlement_date',), ('read_index',)]
    n = 0
    for f in prog.product_fns():
        if not f.crate.startswith('acb') or mir.is_testsupport(f.name):
            continue
        for c in f.calls:
            if c.short not in REORDER and c.short != 'sort':
                continue
            if not ('slice' in c.callee or 'vec::Vec' in c.callee or c.callee.startswith('std::slice::')):
                continue
            t = f.ty.get(c.arg_local(0), '') or ''
            if not ELEM.search(t):
                continue
            n += 1
            owner = f.name.split('::{')[0]
            k = '%s|tx-sequence-arranged-only-by-the-tx-order|%s' % (owner, c.short)
            is_delta = 'TxDelta' in t
            # rows read from files carry distinct read indices, so no two Tx compare equal and an unstable sort by the same order gives
            # the same result; a list of deltas does have ties (an adjustment row and its sale)
            if c.short == 'sort' or (c.short == 'sort_unstable' and not is_delta):
                rep.ok('R7f', k, where=c.where(), fn=f.name, detail='sorted by the element\'s own Ord')
                continue
            why = None
            if c.short in ('sort_by', 'sort_by_key') + (() if is_delta else ('sort_unstable_by', 'sort_unstable_by_key')) and len(c.args) > 1:
                g = mir._closure_fn_of(prog, f, c.args[1])
                if g is not None and c.short in ('sort_by', 'sort_unstable_by'):
                    ch = ordering.chain_of_fn(prog, g)
                    if ch is not None and [a[1] for a, b in ch] == want_fields and [b[1] for a, b in ch] == want_fields and \
                            all(a[0] < b[0] for a, b in ch):
                        rep.ok('R7f', k, where=c.where(), fn=f.name, detail='stable sort comparing ' + ordering.fmt(ch))
                        continue
                    if ch is not None and len(ch) == 1 and ch[0][0][1] == () and ch[0][1][1] == () and ch[0][0][0] < ch[0][1][0]:
                        rep.ok('R7f', k, where=c.where(), fn=f.name, detail='stable sort comparing whole elements with their own order')
                        continue
                    why = 'its comparator is %s' % ordering.fmt(ch)
                elif g is not None:
                    # the key: a tuple (settlement_date, read_index) of the element
                    keys = []
                    for b in g.blocks.values():
                        for st in b['stmts']:
                            if st['dst']['l'] == 0 and st['r']['rv'] == 'agg' and st['r']['kind'] == 'tuple':
                                keys = [tuple(fl for (_of, fl) in mir.place_fields(o['pl'])) if is_place(o) else None for o in st['r']['ops']]
                                keys = [(mir.provenance(g, o).fields if is_place(o) else set()) for o in st['r']['ops']]
                    flat = [sorted(fl for (_of, fl) in ks) for ks in keys]
                    if flat == [['settlement_date'], ['read_index']]:
                        rep.ok('R7f', k, where=c.where(), fn=f.name, detail='stable sort by the key (settlement_date, read_index)')
                        continue
                    why = 'its key is (%s)' % ', '.join('.'.join(x) or '?' for x in flat)
            if why is None:
                why = {'reverse': 'it reverses the sequence', 'swap': 'it exchanges two elements', 'swap_remove': 'it moves the last element forward'}.get(
                    c.short, 'an unstable sort leaves the order of rows that compare equal (an adjustment and its sale) open' if 'unstable' in c.short
                    else 'it re-arranges the sequence')
            rep.violation('R7f', k, where=c.where(), fn=f.name,
                          detail='a sequence of %s is arranged by %s(): %s, not the stable (settlement_date, read_index) order the ledger is walked in'
                                 % ('TxDelta' if 'TxDelta' in t else 'Tx', c.short, why))
    if n < 2:
        rep.violation('R7f', 'anchor-lost:tx-sorts', detail='anchor lost: only %d calls arranging a sequence of Tx found (the global sort and the summary sort expected)' % n)
