"""C19 — E*TRADE extraction accounts for every benefit and every sold share once: structural clauses of the matcher
(the regex parsers and the subset-sum search over share counts are not decided).
  R19a  candidate trades for a sell-to-cover are those traded in [benefit date, benefit date + 5 days], both ends inclusive;
  R19b  matched trades are removed from the pool that later benefits (and the manual-trade output) draw from;
  R19c  an unmatched sell-to-cover is an error: Ok is returned only when no error was recorded;
  R19d  every benefit yields a purchase row, every left-over trade a row, and the rows are sorted."""
import re

import mir
from mir import short, is_place, op_local

LEVEL = 'other'
EXPLANATION = ('Decides necessary structural clauses of the benefit/trade matcher in peripheral::etrade_plan_pdf_tx_extract_impl: the five-day '
               'inclusive candidate window on trade dates; consumption of matched trades from the very pool that candidates and manual trades '
               'are taken from; Ok only when no matching error was recorded; one Buy row per benefit and one row per left-over trade, pushed '
               'unconditionally, then sorted. Not decided: the text parsers, the combination search, price proximity.')
TRUSTED_BASE = ['rustc nightly MIR construction and trait resolution']
ASSUMPTIONS = []

MOD = 'peripheral::etrade_plan_pdf_tx_extract_impl::'
BTX = 'peripheral::broker::broker_tx::BrokerTx'


def days_of(prog, fn, operand, depth=0):
    """N of the `Duration::days(N)` an operand comes from — written in place or as a named constant item"""
    from props import c02
    org = mir.provenance(fn, operand)
    for c in org.calls:
        if c.callee == 'time::Duration::days' and c.args:
            n = c02.const_int(prog, fn, c.args[0])
            if n is not None:
                return n
    if depth < 2:
        for (ty, v, d) in org.consts:
            item = prog.resolve(d, fn.crate) if d else None
            if item is not None and 'time::Duration' in (item.ty.get(0) or ''):
                return days_of(prog, item, {'l': 0, 'p': []}, depth + 1)
    return None


def side_origins(prog, m, g, a):
    """(fields, calls) an argument of a comparison derives from; for a comparison inside a closure of m, captured variables are
    followed into m"""
    x = mir.provenance(g, a, follow_all_call_args=False)
    fields, calls = set(x.fields), list(x.calls)
    if g is not m and x.upvars:
        # precise captures (`benefit.acquire_tx_date` captured as a place of its own): the operand the closure was built with
        for b in m.blocks.values():
            for st in b['stmts']:
                if st['r']['rv'] == 'agg' and st['r']['kind'] == 'closure:' + g.name:
                    for u in x.upvars:
                        try:
                            op = st['r']['ops'][int(u)]
                        except (ValueError, IndexError, TypeError):
                            continue
                        if mir.is_place(op):
                            y = mir.provenance(m, op, follow_all_call_args=False)
                            fields |= y.fields
                            calls += y.calls
        for u in x.upvars:
            nm = g.upvar_names.get(u)
            for l, n in m.varnames.items():
                if n == nm:
                    y = mir.provenance(m, l, follow_all_call_args=False)
                    fields |= y.fields
                    calls += y.calls
    return fields, calls


def run(prog, rep, tier='quick', config='default'):
    if config == 'wasm':
        rep.ok('R19', 'not-in-this-config', detail='the PDF extractor is not part of the wasm feature set', trivial=True)
        return
    fns = [f for f in prog.product_fns() if f.name.startswith(MOD) and f.kind in ('Fn', 'AssocFn')]
    if not rep.anchor('module etrade_plan_pdf_tx_extract_impl', fns):
        return
    # the matcher: the function that removes elements from a Vec<BrokerTx>
    matchers = [f for f in fns if any(c.short in ('remove', 'swap_remove', 'retain', 'drain') and re.search(r'Vec<%s' % re.escape(BTX), f.ty.get(c.arg_local(0), '')) for c in f.calls)]
    if not rep.anchor('benefit/trade matcher (consumes trades from a Vec<BrokerTx>)', matchers):
        return
    m = matchers[0]
    r19g(prog, rep, fns)
    r19i(prog, rep)
    # ------------------------------------------------------------------ R19a
    adds = [c for c in m.calls if re.search(r'time::Date::(saturating_add|checked_add)$|ops::Add<time::Duration>', c.callee)]
    n = days_of(prog, m, adds[0].args[1]) if adds else None
    if adds and n == 5:
        rep.ok('R19a', 'five-day-window', where=adds[0].where(), fn=m.name, detail='latest candidate day = benefit date + Duration::days(5)')
    else:
        rep.violation('R19a', 'five-day-window', where=adds[0].where() if adds else '', fn=m.name,
                      detail='the sell-to-cover candidate window is benefit date + %s days (must be 5)' % n)
    lower = upper = None
    group = [m] + [g for g in prog.closures_of(m)]
    for g, c in [(g, c) for g in group for c in g.calls]:
        mm = re.search(r'PartialOrd::(le|lt|ge|gt)$', c.decl)
        if not mm or len(c.args) != 2:
            continue
        o = [side_origins(prog, m, g, a) for a in c.args]
        f0 = [{(of.rsplit('::', 1)[-1], fl) for of, fl in x[0]} for x in o]
        is_latest = [adds and (adds[0] in x[1]) for x in o]
        is_trade = [('BrokerTx', 'trade_date') in x for x in f0]
        is_benefit = [('BenefitEntry', 'acquire_tx_date') in x and not l for x, l in zip(f0, is_latest)]
        op = mm.group(1)
        # the truth value this comparison has where the trade is accepted as a candidate (`if a > b || .. { continue }` accepts on
        # false): on the way to the push into the candidate list, or on the true-returning paths of the filter closure
        truth = None
        if g is not m:
            cases = mir.bool_cases(prog, g, lambda fn_, call_, c=c: ('the-test', 'bool') if call_ is c else None) or []
            vals_ = {cs.get('the-test') for cs, v in cases if v is True}
            if len(vals_) == 1 and None not in vals_:
                truth = vals_.pop()
        else:
            seen = set()
            for x in m.calls:
                if x.short == 'push' and re.search(r'Vec<&.*BrokerTx', m.ty.get(x.arg_local(0), '') or ''):
                    for (sbb, discr, vals, neg) in m.conditions_at(x.bb):
                        if c in mir.provenance(m, discr).calls:
                            seen.add((vals != [0]) if vals is not None else (0 in (neg or [])))
            if len(seen) == 1:
                truth = seen.pop()
        if truth is False:
            op = {'le': 'gt', 'lt': 'ge', 'ge': 'lt', 'gt': 'le'}[op]
        for i in (0, 1):
            j = 1 - i
            if is_trade[i] and is_latest[j]:
                upper = (op if i == 0 else {'le': 'ge', 'lt': 'gt', 'ge': 'le', 'gt': 'lt'}[op], c)
            if is_trade[i] and is_benefit[j]:
                lower = (op if i == 0 else {'le': 'ge', 'lt': 'gt', 'ge': 'le', 'gt': 'lt'}[op], c)
    # the same test written as a range: `(benefit date ..= latest day).contains(&trade.trade_date)`
    for g, c in [(g, c) for g in group for c in g.calls]:
        if c.short != 'contains' or not re.search(r'ops::Range(Inclusive)?::<', c.callee) or len(c.args) != 2:
            continue
        ro = mir.provenance(g, c.args[0])
        mk = [x for x in ro.calls if x.callee.startswith('std::ops::RangeInclusive::<') and x.short == 'new' and len(x.args) == 2]
        ends = None
        inclusive = 'RangeInclusive' in c.callee
        if mk:
            ends = (mk[0].args[0], mk[0].args[1])
        else:
            for b in g.blocks.values():
                for st in b['stmts']:
                    if st['r']['rv'] == 'agg' and re.search(r'ops::Range(Inclusive)?$', st['r']['kind']) and st['dst']['l'] in ro.locals and len(st['r']['ops']) == 2:
                        ends = (st['r']['ops'][0], st['r']['ops'][1])
        if ends is None:
            continue
        so = [side_origins(prog, m, g, a) for a in (ends[0], ends[1], c.args[1])]
        fz = [{(of.rsplit('::', 1)[-1], fl) for of, fl in x[0]} for x in so]
        end_is_latest = bool(adds) and adds[0] in so[1][1]
        start_is_benefit = ('BenefitEntry', 'acquire_tx_date') in fz[0] and not (adds and adds[0] in so[0][1])
        item_is_trade = ('BrokerTx', 'trade_date') in fz[2]
        if not item_is_trade:
            continue
        truth = None
        if g is not m:
            cases = mir.bool_cases(prog, g, lambda fn_, call_, c=c: ('the-test', 'bool') if call_ is c else None) or []
            vals_ = {cs.get('the-test') for cs, v in cases if v is True}
            if len(vals_) == 1 and None not in vals_:
                truth = vals_.pop()
        if truth is False:
            continue        # accepted when OUTSIDE the range: left to the fall-through violation below
        if start_is_benefit:
            lower = ('ge', c)
        if end_is_latest:
            upper = ('le' if inclusive else 'lt', c)
    # normalised as  trade_date OP bound
    if upper and upper[0] == 'le' and lower and lower[0] == 'ge':
        rep.ok('R19a', 'window-inclusive-on-trade-dates', where=upper[1].where(), fn=m.name, detail='benefit date <= trade date <= benefit date + 5 (both inclusive)')
    else:
        rep.violation('R19a', 'window-inclusive-on-trade-dates', fn=m.name, where=(upper or lower or (None, m.calls[0]))[1].where(),
                      detail='the candidate test is not (benefit date <= trade_date <= latest day) on BrokerTx.trade_date: lower=%s upper=%s' % (
                          lower and lower[0], upper and upper[0]))

    # ------------------------------------------------------------------ R19b
    removes = [c for c in m.calls if c.short in ('remove', 'swap_remove', 'retain', 'drain') and re.search(r'Vec<%s' % re.escape(BTX), m.ty.get(c.arg_local(0), ''))]
    pool_roots = set()
    for c in removes:
        r0 = mir.nearest_user_local(m, c.args[0])
        if r0 is not None:
            pool_roots.add(r0)
    cand_iters = []
    cand_iters_bad = []
    for (nc, header, body) in m.iterator_loops():
        if not re.search(r'slice::Iter<.*BrokerTx', m.ty.get(nc.arg_local(0), '')):
            continue
        # the loop that selects candidates: its body tests trade dates
        body_cmp = [c for c in m.calls if c.bb in body and re.search(r'PartialOrd::(le|lt|ge|gt)$', c.decl)]
        if not body_cmp:
            continue
        src = mir.nearest_user_local(m, nc.args[0])
        # `for x in &v` goes through a temporary `iter` variable: resolve one more step
        if src is not None and src not in pool_roots:
            for (bb, idx, kind, node) in m.defs.get(src, []):
                if kind == 'stmt' and node['r']['rv'] == 'use' and is_place(node['r']['ops'][0]):
                    s2 = mir.nearest_user_local(m, node['r']['ops'][0])
                    if s2 is not None:
                        src = s2
        if src in pool_roots:
            cand_iters.append(nc)
        else:
            cand_iters_bad.append(nc)
    # the same selection written as `pool.iter().filter(|t| .. date tests ..)`
    for c in m.calls:
        if c.short not in ('filter', 'filter_map') or not re.search(r'slice::Iter<.*BrokerTx', m.ty.get(c.arg_local(0), '') or ''):
            continue
        g = mir._closure_fn_of(prog, m, c.args[1]) if len(c.args) > 1 else None
        if g is None or not any(re.search(r'PartialOrd::(le|lt|ge|gt)$', x.decl) or
                                (x.short == 'contains' and re.search(r'ops::Range(Inclusive)?::<', x.callee)) for x in g.calls):
            continue
        src = mir.nearest_user_local(m, c.args[0])
        if src is None:
            o = mir.provenance(m, c.args[0], follow_all_call_args=True)
            roots = {l for l in o.locals if l in pool_roots}
            src = next(iter(roots)) if roots else None
        (cand_iters if src in pool_roots else cand_iters_bad).append(c)
    out_ok = False
    for b in m.blocks.values():
        for s in b['stmts']:
            if s['r']['rv'] == 'agg' and 'other_trades' in s['r'].get('fields', []):
                for name, o in zip(s['r']['fields'], s['r']['ops']):
                    if name == 'other_trades' and is_place(o) and mir.nearest_user_local(m, o) in pool_roots:
                        out_ok = True
    if removes and cand_iters and out_ok and not cand_iters_bad:
        rep.ok('R19b', 'matched-trades-leave-the-shared-pool', where=removes[0].where(), fn=m.name,
               detail='matched trades are removed from the pool that candidates are drawn from and that becomes the manual trades')
    else:
        rep.violation('R19b', 'matched-trades-leave-the-shared-pool', fn=m.name, where=removes[0].where() if removes else '',
                      detail='matched trades are not consumed from the pool used for later candidates / manual trades (removal: %s, candidates from pool: %s, '
                             'left-overs from pool: %s): a trade could be counted twice' % (bool(removes), bool(cand_iters), out_ok))
    # ------------------------------------------------------------------ R19h: a trade leaves the pool only for being a matched trade
    # the decision which pool entries go is taken by comparing whole trades (BrokerTx == BrokerTx, or pointer identity, or the index the
    # entry was found at); a comparison of some projection of the trade (a key of file name and row, a date, a symbol) also removes
    # other trades that agree on it, and those then appear nowhere in the output
    def whole_cmp(g, depth=0):
        hits, proj = [], []
        for x in g.calls:
            tys = [g.ty.get(a, '') or '' for a in x.arg_locals()]
            if x.callee.endswith('ptr::eq') or x.decl.endswith('ptr::eq'):
                hits.append(x)
            elif x.short in ('eq', 'ne') and x.decl.endswith(('PartialEq::eq', 'PartialEq::ne')):
                (hits if all(re.search(r'^&*(mut )?&*%s$' % re.escape(BTX), t.replace("'_ ", '').replace('&&', '&').strip()) or
                             re.fullmatch(r'[&\s]*(mut\s)?[&\s]*' + re.escape(BTX), t) for t in tys) and tys else proj).append(x)
            elif x.short == 'contains' and tys:
                (hits if re.search(r'(Vec<|\[)&*%s' % re.escape(BTX), tys[0]) else proj).append(x)
            elif depth < 2:
                h = prog.resolve(x.callee, g.crate)
                if h is not None and h is not g and h.name.startswith('peripheral::'):
                    (h2, p2) = whole_cmp(h, depth + 1)
                    hits += h2
                    proj += p2
        return hits, proj
    n_dec = 0
    for c in removes:
        if c.short == 'retain':
            g = mir._closure_fn_of(prog, m, c.args[1]) if len(c.args) > 1 else None
            decs = [(c, g)] if g is not None else []
        elif c.short in ('remove', 'swap_remove'):
            # the index removed: found by a position() search over the pool, in this body or in a closure of it (the indexes may be
            # gathered in a list first)
            o = mir.provenance(m, c.args[1], follow_all_call_args=True)
            decs = []
            for h in prog.body_group(m):
                for x in h.calls:
                    if x.short in ('position', 'rposition') and len(x.args) > 1 and re.search(r'Iter<.*BrokerTx', h.ty.get(x.arg_local(0), '') or ''):
                        g = mir._closure_fn_of(prog, h, x.args[1])
                        if g is not None:
                            decs.append((x, g))
            if not decs and any(x.short == 'enumerate' for x in o.calls):
                n_dec += 1
                rep.ok('R19h', 'pool-entry-removed-by-identity@%s' % c.short, where=c.where(), fn=m.name, detail='removed at the index the entry was met at')
                continue
        else:
            continue
        for (x, g) in decs:
            n_dec += 1
            (hits, proj) = whole_cmp(g)
            k = 'pool-entry-removed-by-identity@%s' % x.short
            if hits:
                rep.ok('R19h', k, where=x.where(), fn=m.name, detail='the entry to remove is found by comparing whole trades (%s)' % hits[0].short)
            else:
                rep.violation('R19h', k, where=x.where(), fn=m.name,
                              detail='which pool entries are removed is decided by %s, not by comparing the trade as a whole: another trade that agrees on '
                                     'that projection is removed with the matched one and then appears nowhere in the output'
                                     % ('a comparison of a projection of the trade (%s at %s)' % (proj[0].short, proj[0].where()) if proj else 'a test that never compares trades'))
    if removes and not n_dec:
        rep.violation('R19h', 'anchor-lost:removal-decision', fn=m.name, detail='anchor lost: the comparison that selects which pool entries are removed')
    # ------------------------------------------------------------------ R19e: a benefit with sold shares is always matched
    finder_calls = [c for c in m.calls if prog.resolve(c.callee, m.crate) is not None and
                    re.search(r'Result<std::vec::Vec<&.*BrokerTx', m.ty.get(c.dst['l'], ''))]
    bl = [(nc, h, b) for (nc, h, b) in m.iterator_loops() if 'BenefitEntry' in m.ty.get(nc.arg_local(0), '')]
    if not finder_calls or not bl:
        rep.violation('R19e', 'anchor-lost:match-call', fn=m.name, detail='anchor lost: the call that searches the trade set of a benefit / the loop over benefits')
    else:
        nc, header, body = bl[0]
        fc = finder_calls[0]
        sw = m.blocks[nc.target]['term'] if nc.target in m.blocks else None
        entry = ([tg for v, tg in sw['targets'] if v == 1] or [sw['otherwise']])[0] if sw and sw['t'] == 'switch' else None
        allowed = set()
        for i, b in m.blocks.items():
            e = m.bool_switch_edges(i) if i in body else None
            if e is None:
                continue
            d = mir.provenance(m, b['term']['discr'])
            for x in d.calls:
                if x.callee.endswith('Option::<T>::is_none') and len(d.calls) == 1:
                    dd = m.single_def(x.arg_local(0)) if x.arg_local(0) is not None else None
                    if dd and dd[2] == 'stmt' and 'pl' in dd[3]['r'] or (dd and dd[2] == 'stmt' and dd[3]['r'].get('ops') and is_place(dd[3]['r']['ops'][0])):
                        pl = dd[3]['r'].get('pl') or dd[3]['r']['ops'][0]['pl']
                        if mir.place_fields(pl)[-1:] and mir.place_fields(pl)[-1][1] == 'sell_to_cover_shares':
                            allowed.add(e[0])
        if entry is not None and m.reaches(entry, header, avoid={fc.bb} | allowed):
            rep.violation('R19e', 'benefit-with-sold-shares-is-always-matched', where=nc.where(), fn=m.name,
                          detail='a benefit can skip the trade matching for a reason other than "no shares were sold": its sale would keep unmatched dates and the trade '
                                 'confirmation would be emitted again as a manual trade')
        else:
            rep.ok('R19e', 'benefit-with-sold-shares-is-always-matched', where=fc.where(), fn=m.name, detail='matching is skipped only when sell_to_cover_shares is None')
        # R19f: the set returned by the finder comes from the share-count-filtered collection
        fd = prog.resolve(fc.callee, m.crate)
        cols = set()
        for c in fd.calls:
            if c.short == 'push' and re.search(r'Vec<std::vec::Vec<&', fd.ty.get(c.arg_local(0), '')):
                ok_guard = False
                for (sbb, discr, vals, neg) in fd.conditions_at(c.bb):
                    d = mir.provenance(fd, discr, follow_all_call_args=True)
                    tr = (vals != [0]) if vals is not None else (0 in (neg or []))
                    if any(x.decl.endswith('PartialEq::eq') for x in d.calls) and d.has_call(r'Iterator::sum$') and tr and \
                            (any(fl == 'sell_to_cover_shares' for of, fl in d.fields)):
                        ok_guard = True
                if ok_guard:
                    r0 = mir.nearest_user_local(fd, c.args[0])
                    if r0 is not None:
                        cols.add(r0)
        if not cols:
            rep.violation('R19f', 'matching-sets-have-the-sold-share-count', fn=fd.name, where='%s:%d' % (fd.file, fd.line),
                          detail='no collection of candidate sets is filled under "sum of shares == sold shares"')
        else:
            bad = []
            n_ok = 0
            for i, b in fd.blocks.items():
                for s in b['stmts']:
                    if s['dst']['l'] == 0 and s['r']['rv'] == 'agg' and s['r']['kind'].endswith('Result::Ok'):
                        n_ok += 1
                        o = mir.provenance(fd, s['r']['ops'][0], follow_all_call_args=True)
                        if not (o.locals & cols) or (2 in o.params):
                            bad.append(s)
            if bad:
                rep.violation('R19f', 'returned-set-comes-from-the-filtered-sets', where=fd.where(bad[0]), fn=fd.name,
                              detail='a trade set is returned that does not come from the sets whose share counts add up to the sold shares (e.g. a single-candidate '
                                     'shortcut): a sale of a different size would be swallowed by the benefit')
            elif n_ok:
                rep.ok('R19f', 'returned-set-comes-from-the-filtered-sets', fn=fd.name, detail='%d Ok return(s), all taken from the share-count-filtered collection' % n_ok)

    # ------------------------------------------------------------------ R19c
    errs = [l for l, t in m.ty.items() if l in m.user and re.search(r'^std::vec::Vec<std::string::String>$', t)]
    oks = [i for i, b in m.blocks.items() for s in b['stmts'] if s['dst']['l'] == 0 and s['r']['rv'] == 'agg' and s['r']['kind'].endswith('Result::Ok')]
    guarded = False
    for i in oks:
        for (sbb, discr, vals, neg) in m.conditions_at(i):
            d = mir.provenance(m, discr, follow_all_call_args=True)
            tr = (vals != [0]) if vals is not None else (0 in (neg or []))
            if any(c.short == 'is_empty' for c in d.calls) and tr:
                guarded = True
    pushes_err = [c for c in m.calls if c.short == 'push' and re.search(r'Vec<std::string::String>', m.ty.get(c.arg_local(0), '')) and
                  any(dc == 'Err' for dc in mir.provenance(m, c.args[1], follow_all_call_args=True).downcasts)]
    if oks and guarded and pushes_err:
        rep.ok('R19c', 'unmatched-sell-to-cover-is-an-error', fn=m.name, where=pushes_err[0].where(),
               detail='a failed match is recorded and Ok is returned only when no error was recorded')
    else:
        rep.violation('R19c', 'unmatched-sell-to-cover-is-an-error', fn=m.name, where='%s:%d' % (m.file, m.line),
                      detail='a sell-to-cover that cannot be matched does not turn the result into an error (errors recorded: %s, Ok guarded by is_empty: %s)'
                             % (bool(pushes_err), guarded))

    # ------------------------------------------------------------------ R19d
    gens = [f for f in fns if any(s['r']['rv'] == 'agg' and s['r']['kind'].endswith('model::tx::CsvTx::CsvTx') for b in f.blocks.values() for s in b['stmts'])
            and any(c.short in ('sort', 'sort_unstable') for c in f.calls)]
    if rep.anchor('row generator (builds CsvTx rows and sorts them)', gens):
        g = gens[0]
        loops = g.iterator_loops()
        n_ok = 0
        for (nc, header, body) in loops:
            ity = g.ty.get(nc.arg_local(0), '')
            if not re.search(r'BenefitEntry|BrokerTx', ity):
                continue
            sw = g.blocks[nc.target]['term'] if nc.target in g.blocks else None
            entry = ([tg for v, tg in sw['targets'] if v == 1] or [sw['otherwise']])[0] if sw and sw['t'] == 'switch' else None
            pushes = {c.bb for c in g.calls if c.bb in body and c.short == 'push' and 'model::tx::CsvTx' in g.ty.get(c.arg_local(0), '')}
            errs_b = {c.bb for c in g.calls if c.short == 'from_residual'}
            kind = 'benefit' if 'BenefitEntry' in ity else 'left-over trade'
            if entry is not None and pushes and not g.reaches(entry, header, avoid=pushes | errs_b):
                n_ok += 1
                rep.ok('R19d', 'every-%s-yields-a-row' % kind.replace(' ', '-'), where=nc.where(), fn=g.name, detail='every iteration pushes a row (or fails with an error)')
            else:
                rep.violation('R19d', 'every-%s-yields-a-row' % kind.replace(' ', '-'), where=nc.where(), fn=g.name,
                              detail='a %s can be passed over without producing an output row' % kind)
        if n_ok < 2:
            rep.violation('R19d', 'anchor-lost:generator-loops', fn=g.name, detail='anchor lost: loops over benefits and over left-over trades (%d recognised)' % n_ok)
        srt = [c for c in g.calls if c.short in ('sort', 'sort_unstable')]
        last_push = max([c.bb for c in g.calls if c.short == 'push' and 'model::tx::CsvTx' in g.ty.get(c.arg_local(0), '')] or [0])
        if srt and all(g.reaches(c.bb, srt[0].bb) for c in g.calls if c.short == 'push' and 'model::tx::CsvTx' in g.ty.get(c.arg_local(0), '')) and \
                not any(g.reaches(srt[0].bb, c.bb) for c in g.calls if c.short == 'push' and 'model::tx::CsvTx' in g.ty.get(c.arg_local(0), '')):
            rep.ok('R19d', 'rows-sorted-after-all-are-generated', where=srt[0].where(), fn=g.name, detail='sort follows every push and no push follows the sort')
        else:
            rep.violation('R19d', 'rows-sorted-after-all-are-generated', fn=g.name, where=srt[0].where() if srt else '', detail='rows are pushed after the sort (or never sorted)')


# ---------------------------------------------------------------------------------------------------- R19g
FILTERS = {'filter', 'filter_map', 'retain', 'retain_mut', 'take', 'take_while', 'skip', 'skip_while', 'step_by', 'dedup', 'dedup_by',
           'dedup_by_key', 'truncate', 'drain', 'split_off', 'pop', 'map_while', 'unique', 'unique_by'}


def r19g(prog, rep, fns):
    """every benefit entry and every trade confirmation that was parsed is collected: the collector's feeds are not filtered,
    not de-duplicated, and not conditional on what has been collected so far (two equal sales on one day are two trades)"""
    coll = [f for f in fns if f.kind == 'Fn' and re.search(r'PdfData', f.ty.get(0, '')) and
            any(c.short in ('append', 'push', 'extend') and re.search(r'Vec<(%s|%sBenefitEntry)' % (re.escape(BTX), re.escape(MOD.replace('etrade_plan_pdf_tx_extract_impl::', 'broker::etrade::'))), f.ty.get(c.arg_local(0), '')) for c in f.calls)]
    if not coll:
        coll = [f for f in fns if any(c.short in ('append', 'push', 'extend') and re.search(r'Vec<%s' % re.escape(BTX), f.ty.get(c.arg_local(0), '')) for c in f.calls)
                and any('PathBuf' in t for t in f.ty.values())]
    if not rep.anchor('collector of parsed PDF contents (feeds Vec<BrokerTx> / Vec<BenefitEntry> from files)', coll):
        return
    f = coll[0]
    n = 0
    for c in f.calls:
        if c.short not in ('append', 'push', 'extend', 'extend_from_slice') or len(c.args) < 2:
            continue
        rty = f.ty.get(c.arg_local(0), '')
        if not re.search(r'Vec<.*(BrokerTx|BenefitEntry)', rty):
            continue
        root = mir.nearest_user_local(f, c.args[0])
        if root is None:
            continue
        n += 1
        what = 'trade confirmations' if 'BrokerTx' in rty else 'benefit entries'
        bad = None
        o = mir.provenance(f, c.args[1], follow_all_call_args=True)
        fl = [y for y in o.calls if y.short in (FILTERS - {'drain'}) and y.decl.startswith('std::')]
        fl += [y for y in o.calls if y.short == 'drain' and not any('RangeFull' in f.ty.get(a, '') for a in y.arg_locals()[1:])]
        if fl:
            bad = 'the %s added pass through %s()' % (what, fl[0].short)
        for x in f.calls:
            if x.args and x is not c and mir.nearest_user_local(f, x.args[0]) == root and x.short in FILTERS:
                bad = '%s() is applied to the collected %s' % (x.short, what)
        for (sbb, discr, vals, neg) in f.conditions_at(c.bb):
            d = mir.provenance(f, discr, follow_all_call_args=True)
            if root in d.locals and any(y.short in ('any', 'contains', 'iter', 'position', 'find', 'all', 'binary_search', 'binary_search_by', 'last', 'first')
                                        for y in d.calls):
                bad = 'whether a parsed entry is added depends on the %s collected so far' % what
        k = '%s|every-parsed-entry-is-collected|%s#%d' % (short(f.name), what.replace(' ', '-'), n)
        if bad:
            rep.violation('R19g', k, where=c.where(), fn=f.name,
                          detail='%s: an entry that was read from the documents can be left out (two equal sales on one day are two trades), so a '
                                 'benefit finds no trade to match or a sale is missing from the output' % bad)
        else:
            rep.ok('R19g', k, where=c.where(), fn=f.name, detail='%s are added unconditionally and unfiltered' % what)
    if n < 2:
        rep.violation('R19g', 'anchor-lost:collector-feeds', fn=f.name, detail='anchor lost: only %d feed sites of the collected benefit / trade lists found' % n)


# ---------------------------------------------------------------------------------------------------- R19i
def r19i(prog, rep):
    """a trade confirmation keeps its own fees: the commission of the BrokerTx built from a confirmation contains the commission line
    whenever there is one, and the fee line whenever there is one. The two optional capture groups are followed through the Option
    algebra of the expression (zip / map / or / and / unwrap_or.. / +, through helper functions and `?`), for each of the four
    presence combinations; where the expression is not of that form (a `match`), only the plain dependency on both groups is required."""
    import regexgroups as rg
    ATOMS = ('commission', 'fee')
    COMBOS = [(c, f) for c in (0, 1) for f in (0, 1)]

    class Unknown(Exception):
        pass

    def atom_of(fn, c):
        if not re.search(r'Option<', fn.ty.get(c.dst['l'], '') or ''):
            return None
        for a in c.args:
            v = None
            if a.get('k') == 'const':
                v = a.get('v')
            elif mir.is_place(a):
                o = mir.provenance(fn, a)
                vs = [x for (t, x, *_r) in o.consts if 'str' in t]
                v = vs[0] if len(vs) == 1 and not o.params and not o.calls else None
            try:
                sv = rg.decode_rust_str(v) if v else None
            except rg.Unsupported:
                sv = None
            if sv in ATOMS:
                return sv
        return None

    def ev(fn, operand, depth=0):
        """{combo: ('none',) | ('some', atoms) | ('val', atoms)}"""
        if depth > 40:
            raise Unknown('too deep')
        if operand.get('k') == 'const':
            return {cb: ('val', frozenset()) for cb in COMBOS}
        pl = operand['pl']
        l = pl['l']
        d = fn.single_def(l)
        if d is None:
            raise Unknown('local _%d has several definitions' % l)
        bb, idx, kind, node = d
        if kind == 'stmt':
            r = node['r']
            if r['rv'] in ('use', 'ref', 'cast') and r.get('ops', [None])[0] is not None and (r['rv'] != 'ref'):
                return ev(fn, r['ops'][0], depth + 1)
            if r['rv'] == 'ref':
                return ev(fn, {'k': 'copy', 'pl': r['pl']}, depth + 1)
            if r['rv'] == 'agg' and r['kind'].endswith('Option::Some') and r['ops']:
                x = ev(fn, r['ops'][0], depth + 1)
                return {cb: ('some', v[1] if v[0] != 'none' else frozenset()) for cb, v in x.items()}
            if r['rv'] == 'agg' and r['kind'].endswith('Option::None'):
                return {cb: ('none',) for cb in COMBOS}
            if r['rv'] == 'binop' and r['op'] in ('Add', 'Sub'):
                x, y = ev(fn, r['ops'][0], depth + 1), ev(fn, r['ops'][1], depth + 1)
                return {cb: ('val', x[cb][1] | y[cb][1]) for cb in COMBOS}
            raise Unknown('statement %s' % r['rv'])
        c = fn.call_at[bb]
        a = atom_of(fn, c)
        if a is not None:
            i = ATOMS.index(a)
            return {cb: (('some', frozenset([a])) if cb[i] else ('none',)) for cb in COMBOS}
        args = c.args
        sh = c.short
        isopt = re.search(r'^std::option::Option', c.callee) is not None
        if sh == 'branch' or (sh in ('unwrap', 'expect', 'clone', 'cloned', 'copied', 'into', 'from', 'deref', 'as_ref', 'ok', 'transpose') and args):
            return ev(fn, args[0], depth + 1)
        if isopt and sh == 'zip':
            x, y = ev(fn, args[0], depth + 1), ev(fn, args[1], depth + 1)
            return {cb: (('some', x[cb][1] | y[cb][1]) if x[cb][0] == 'some' and y[cb][0] == 'some' else ('none',)) for cb in COMBOS}
        if isopt and sh in ('map', 'inspect', 'filter'):
            x = ev(fn, args[0], depth + 1)
            if sh == 'filter':
                raise Unknown('Option::filter')
            return x
        if isopt and sh in ('or', 'xor'):
            x, y = ev(fn, args[0], depth + 1), ev(fn, args[1], depth + 1)
            return {cb: (x[cb] if x[cb][0] == 'some' else y[cb]) for cb in COMBOS}
        if isopt and sh == 'and':
            x, y = ev(fn, args[0], depth + 1), ev(fn, args[1], depth + 1)
            return {cb: (y[cb] if x[cb][0] == 'some' else ('none',)) for cb in COMBOS}
        if isopt and sh in ('unwrap_or', 'unwrap_or_default', 'unwrap_or_else', 'map_or', 'map_or_else'):
            x = ev(fn, args[0], depth + 1)
            return {cb: ('val', x[cb][1] if x[cb][0] == 'some' else frozenset()) for cb in COMBOS}
        if re.search(r'ops::(Add|Sub)::(add|sub)$', c.decl) and len(args) == 2:
            x, y = ev(fn, args[0], depth + 1), ev(fn, args[1], depth + 1)
            return {cb: ('val', x[cb][1] | y[cb][1]) for cb in COMBOS}
        if re.search(r'iter::Sum|Iterator::sum$', c.decl):
            raise Unknown('sum over an iterator')
        g = prog.resolve(c.callee, fn.crate)
        if g is not None and g.kind in ('Fn', 'AssocFn') and g.crate == fn.crate and depth < 20:
            # a helper of the module: what it returns (the payload of Ok(..) / Some(..) for a `?` at the call site)
            outs = []
            for b in g.blocks.values():
                for st in b['stmts']:
                    if st['dst']['l'] == 0 and not st['dst']['p']:
                        r = st['r']
                        if r['rv'] == 'agg' and (r['kind'].endswith('Result::Ok') or r['kind'].endswith('Option::Some')) and r['ops']:
                            outs.append(ev(g, r['ops'][0], depth + 1))
                        elif r['rv'] == 'agg' and r['kind'].endswith('Result::Err'):
                            continue
                        elif r['rv'] == 'use':
                            outs.append(ev(g, r['ops'][0], depth + 1))
                        else:
                            raise Unknown('return of %s' % g.name)
            gc = [x for x in g.calls if x.dst['l'] == 0 and x.short != 'from_residual']
            for x in gc:
                outs.append(ev(g, {'k': 'copy', 'pl': {'l': 0, 'p': []}}, depth + 1) if False else _ev_call_result(g, x, depth))
            if len(outs) == 1:
                return outs[0]
            if len(outs) > 1 and all(o == outs[0] for o in outs):
                return outs[0]
            raise Unknown('helper %s returns on several paths' % g.name)
        raise Unknown('call of %s' % c.callee)

    def _ev_call_result(g, x, depth):
        raise Unknown('helper result produced by a call')

    n = 0
    for f in prog.product_fns():
        if mir.is_testsupport(f.name) or not f.name.startswith('peripheral::broker::etrade'):
            continue
        for b in f.blocks.values():
            for st in b['stmts']:
                r = st['r']
                if r['rv'] != 'agg' or 'broker_tx::BrokerTx' not in r['kind'] or 'commission' not in r.get('fields', []):
                    continue
                o = r['ops'][r['fields'].index('commission')]
                org = mir.deep_origins(prog, f, o) if hasattr(mir, 'deep_origins') else mir.provenance(f, o, follow_all_call_args=True)
                plain = mir.provenance(f, o, follow_all_call_args=True)
                names = set()
                for src in (plain,):
                    for (t, v, *_r) in src.consts:
                        try:
                            sv = rg.decode_rust_str(v) if 'str' in t else None
                        except rg.Unsupported:
                            sv = None
                        if sv in ATOMS:
                            names.add(sv)
                # helper functions on the way: their constants
                for x in plain.calls:
                    g = prog.resolve(x.callee, f.crate)
                    if g is not None and g.crate == f.crate and g.name.startswith('peripheral::broker::etrade'):
                        for gg in [g] + list(prog.callees_closure([g]).values()):
                            if not gg.name.startswith('peripheral::broker::etrade'):
                                continue
                            for co in mir.const_operands(gg):
                                try:
                                    sv = rg.decode_rust_str(co.get('v', '')) if 'str' in co.get('ty', '') else None
                                except rg.Unsupported:
                                    sv = None
                                if sv in ATOMS:
                                    names.add(sv)
                if not names:
                    continue        # not a confirmation with optional charge lines (a benefit entry with a stated fee)
                n += 1
                k = '%s|confirmation-keeps-its-own-fees' % f.name.split('::{')[0]
                if names != set(ATOMS):
                    rep.violation('R19i', k, where=f.where(st), fn=f.name,
                                  detail='the commission of the trade is computed without the %s line of the confirmation' % ', '.join(sorted(set(ATOMS) - names)))
                    continue
                try:
                    val = ev(f, o)
                except Unknown as e:
                    # (a key of its own: a weaker verdict on one view must not discharge the stronger obligation on the other)
                    rep.ok('R19i', k.replace('confirmation-keeps-its-own-fees', 'commission-depends-on-both-lines'), where=f.where(st), fn=f.name,
                           detail='depends on both the commission and the fee line (not an Option-combinator expression — %s — so only the dependency is decided)' % e)
                    continue
                missing = []
                for cb in COMBOS:
                    have = val[cb][1] if val[cb][0] != 'none' else frozenset()
                    for i, a in enumerate(ATOMS):
                        if cb[i] and a not in have:
                            missing.append((cb, a))
                if missing:
                    cb, a = missing[0]
                    rep.violation('R19i', k, where=f.where(st), fn=f.name,
                                  detail='when the confirmation has %s, the %s line does not reach the commission of the trade: a manual trade loses its own fees'
                                         % (' and '.join(x for i, x in enumerate(('a commission line', 'a fee line')) if cb[i]) or 'neither line', a))
                else:
                    rep.ok('R19i', k, where=f.where(st), fn=f.name, detail='in all four presence combinations every line that is there is part of the commission')
    if n < 2:
        rep.violation('R19i', 'anchor-lost:confirmation-commissions', detail='anchor lost: only %d BrokerTx constructions with optional commission / fee lines found (2 layouts expected)' % n)
