"""Shape-based anchors: private functions are located by what they do, not by their name, so that a rename does not
make a rule lose its footing (a lost anchor fails closed, which is an alarm on a behaviour-preserving edit)."""
import re

import mir


def _product(prog, pred):
    return [f for f in prog.product_fns() if f.crate == 'acb' and pred(f)]


def _aggs(f, pat):
    return [s for b in f.blocks.values() for s in b['stmts'] if s['r']['rv'] == 'agg' and re.search(pat, s['r']['kind'])]


def _variant_projections(f, enum_suffix):
    out = set()
    for b in f.blocks.values():
        for s in b['stmts']:
            for pl in f.stmt_sources(s):
                if enum_suffix in f.ty.get(pl['l'], '') or any(fl == 'action_specifics' for of, fl in mir.place_fields(pl)):
                    for e in pl['p']:
                        if isinstance(e, dict) and 'dc' in e:
                            out.add(e['dc'])
    return out


def _origin(f):
    return getattr(f, 'origin', f)


def _group_aggs(prog, f, pat):
    """aggregates built in f or in a closure nested in f"""
    out = list(_aggs(f, pat))
    for g in prog.closures_of(_origin(f)):
        out += _aggs(g, pat)
    return out


def _select(prog, pred, prefer='inner', exclude=(), within=None):
    """the function with a given shape. On the program as written the shape normally sits in exactly one function. When a function has
    been split into helpers the shape is found on the views with helpers inlined; several nested candidates then qualify (the
    function, and every caller that inlines it): `inner` picks the one that contains no other candidate, `root` the one that no
    other candidate contains."""
    fns = [f for f in prog.product_fns() if f.crate == 'acb' and f.kind in ('Fn', 'AssocFn') and f.name not in exclude]
    if within is not None:
        fns = [f for f in fns if f.name in within]
    plain = [f for f in fns if pred(_origin(f))]
    on_views = getattr(prog, 'is_inlined_view', False)
    if len(plain) == 1 and not (on_views and prefer == 'root'):
        return plain[0]
    cands = plain if (len(plain) > 1 and not on_views) else [f for f in fns if pred(f)]
    if len(cands) <= 1:
        return cands[0] if cands else None
    names = {f.name for f in cands}
    contains = {}
    for f in cands:
        contains[f.name] = {g.name for g in prog.callees_closure([_origin(f)]).values() if g.name in names and g.name != f.name}
    if prefer == 'inner':
        pick = [f for f in cands if not contains[f.name]]
    else:
        inside = set().union(*contains.values())
        pick = [f for f in cands if f.name not in inside]
    return pick[0] if len(pick) == 1 else None


def ledger_step(prog):
    """the per-transaction ledger function: builds a TxDelta and matches on all five action variants"""
    return _select(prog, lambda f: bool(_aggs(f, r'^adt:portfolio::model::txdelta::TxDelta::')) and
                   len(_variant_projections(f, 'TxActionSpecifics') & {'Buy', 'Sell', 'Roc', 'Sfla', 'Split'}) == 5, prefer='inner')


def sfl_validation(prog):
    """the function of the bookkeeping, below the ledger step, that decides about a sale's superficial loss: the outermost function
    whose call tree (inside portfolio::bookkeeping, closures included) builds the automatic SfLA transactions. When that work has
    been split into helpers this is the function that calls them, not the helper holding the constructor."""
    ls = ledger_step(prog)
    if ls is None:
        return None
    below = {g.name: g for g in prog.callees_closure([_origin(ls)]).values()
             if g.name != ls.name and g.name.startswith('portfolio::bookkeeping::') and g.kind in ('Fn', 'AssocFn')}

    def tree(f):
        return [f] + [g for g in prog.callees_closure([_origin(f)]).values() if g.name in below and g.name != f.name]
    cands = [f for f in below.values() if any(_group_aggs(prog, g, r'TxActionSpecifics::Sfla$') for g in tree(f))]
    inside = set()
    for f in cands:
        inside |= {g.name for g in tree(f)[1:]}
    root = [f for f in cands if f.name not in inside]
    return prog.fn(root[0].name) if len(root) == 1 else None


def window_scan(prog, first_name, last_name):
    """the bookkeeping function that scans the window: calls both window-bound functions"""
    c = _product(prog, lambda f: f.name.startswith('portfolio::bookkeeping::') and
                 {first_name, last_name} <= {x.callee for x in f.calls})
    return c[0] if len(c) == 1 else None


def csv_reader(prog):
    """the function that turns a map of cell values into a CsvTx"""
    c = _product(prog, lambda f: f.name.startswith('portfolio::io::') and _aggs(f, r'^adt:portfolio::model::tx::CsvTx::') and
                 any(x.short == 'remove' and 'HashMap' in x.callee for x in f.calls))
    return c[0] if len(c) == 1 else None


def delta_list_driver(prog, ledger_fn):
    """the loop that calls the ledger step for each transaction of a security"""
    if ledger_fn is None:
        return None
    c = _product(prog, lambda f: any(x.callee == ledger_fn.name for x in f.calls) and f.loops)
    return c[0] if len(c) == 1 else None
