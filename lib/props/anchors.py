"""Shape-based anchors: private functions are located by what they do, not by their name, so that a rename does not
make a rule lose its footing (a lost anchor fails closed, which is an alarm on a behaviour-preserving edit)."""
import re

import mir


def _product(prog, pred):
    return [f for f in prog.product_fns() if f.crate == 'acb' and pred(f)]


def _aggs(f, pat):
    return [s for b in f.blocks.values() for s in b['stmts'] if s['r']['rv'] == 'agg' and re.search(pat, s['r']['kind'])]


def _variant_projections(f, enum_suffix):
    out = set()
    for b in f.blocks.values():
        for s in b['stmts']:
            for pl in f.stmt_sources(s):
                if enum_suffix in f.ty.get(pl['l'], '') or any(fl == 'action_specifics' for of, fl in mir.place_fields(pl)):
                    for e in pl['p']:
                        if isinstance(e, dict) and 'dc' in e:
                            out.add(e['dc'])
    return out


def ledger_step(prog):
    """the per-transaction ledger function: builds a TxDelta and matches on all five action variants"""
    c = _product(prog, lambda f: f.kind in ('Fn', 'AssocFn') and _aggs(f, r'^adt:portfolio::model::txdelta::TxDelta::') and
                 len(_variant_projections(f, 'TxActionSpecifics') & {'Buy', 'Sell', 'Roc', 'Sfla', 'Split'}) == 5)
    return c[0] if len(c) == 1 else None


def sfl_validation(prog):
    """the function of the bookkeeping that builds the automatic SfLA transactions (and validates a specified loss)"""
    c = _product(prog, lambda f: f.kind in ('Fn', 'AssocFn') and f.name.startswith('portfolio::bookkeeping::') and
                 _aggs(f, r'TxActionSpecifics::Sfla$'))
    return c[0] if len(c) == 1 else None


def window_scan(prog, first_name, last_name):
    """the bookkeeping function that scans the window: calls both window-bound functions"""
    c = _product(prog, lambda f: f.name.startswith('portfolio::bookkeeping::') and
                 {first_name, last_name} <= {x.callee for x in f.calls})
    return c[0] if len(c) == 1 else None


def csv_reader(prog):
    """the function that turns a map of cell values into a CsvTx"""
    c = _product(prog, lambda f: f.name.startswith('portfolio::io::') and _aggs(f, r'^adt:portfolio::model::tx::CsvTx::') and
                 any(x.short == 'remove' and 'HashMap' in x.callee for x in f.calls))
    return c[0] if len(c) == 1 else None


def delta_list_driver(prog, ledger_fn):
    """the loop that calls the ledger step for each transaction of a security"""
    if ledger_fn is None:
        return None
    c = _product(prog, lambda f: any(x.callee == ledger_fn.name for x in f.calls) and f.loops)
    return c[0] if len(c) == 1 else None
