"""C10 — a summary CSV reproduces the history it replaces: structural clauses of the summary generator.
  R10a  the summarisable boundary is drawn with the shared 30-day window function on settlement dates, and a row settling
        exactly on the first day of a later loss's window is NOT summarised (strict / inclusive polarity);
  R10b  every unsummarisable sale that had a superficial loss is re-emitted with that loss made explicit (not forced);
  R10c  the simple summary is one purchase of (final share balance, cost base / balance) by the affiliate, dated at the
        settlement date of the last summarised row, without commission;
  R10d  summary rows are ordered by Tx's own ordering and their read index is cleared."""
import re

import mir
from mir import short, is_place, op_local

LEVEL = 'other'
EXPLANATION = ('Decides necessary structural clauses of C10 (the round trip itself — re-running on the summary and comparing — is a relation '
               'between runs and is not decided): the boundary of what may be summarised is computed with the shared window function on '
               'settlement dates with the right strictness; every re-emitted sale that was a superficial loss carries the computed loss '
               'explicitly; the simple-summary purchase takes its shares from the final balance and its price from cost base / balance, is '
               'dated at the last summarised settlement date and has no commission; generated rows are sorted with Tx\'s ordering.')
TRUSTED_BASE = ['rustc nightly MIR construction and trait resolution']
ASSUMPTIONS = []

SUM = 'portfolio::summary::'
TXM = 'portfolio::model::tx::'


def _const_operands(f):
    for b in f.blocks.values():
        for st in b['stmts']:
            for o in st['r'].get('ops', []):
                if o.get('k') == 'const':
                    yield o
        t = b['term']
        if t and t['t'] == 'call':
            for o in t['args']:
                if o.get('k') == 'const':
                    yield o


def run(prog, rep, tier='quick', config='default'):
    fns = [f for f in prog.product_fns() if f.name.startswith(SUM)]
    if not rep.anchor('module portfolio::summary', fns):
        return
    # the window-bound function (by shape, as in C02)
    first = None
    for f in prog.product_fns():
        if f.name.startswith('portfolio::bookkeeping::') and f.ty.get(0) == 'time::Date' and f.argc == 1 and \
                [c for c in f.calls if re.search(r'time::Date::(saturating_sub|checked_sub)$|ops::Sub<time::Duration>', c.callee)]:
            first = f
    if not rep.anchor('first-day-of-window function', first):
        return

    r10h(prog, rep)
    # ------------------------------------------------------------------ R10a
    n_cmp = 0
    for f in fns:
        if f.kind not in ('Fn', 'AssocFn'):
            continue
        for c in f.calls:
            m = re.search(r'PartialOrd::(gt|lt|ge|le)$', c.decl)
            if not m or len(c.args) != 2:
                continue
            o = [mir.provenance(f, a, follow_all_call_args=False) for a in c.args]
            bi = [i for i in (0, 1) if o[i].has_call(re.escape(first.name) + '$')]
            if len(bi) != 1:
                continue
            bi = bi[0]
            xi = 1 - bi
            n_cmp += 1
            xf = {fl for (of, fl) in o[xi].fields if of.endswith('model::tx::Tx') and 'date' in fl}
            op = m.group(1)
            opn = op if xi == 0 else {'gt': 'lt', 'lt': 'gt', 'ge': 'le', 'le': 'ge'}[op]
            k = '%s|window-boundary#%d' % (f.name, n_cmp)
            if xf != {'settlement_date'}:
                rep.violation('R10a', k, where=c.where(), fn=f.name, detail='the summary boundary compares Tx.%s with the window start (must be the settlement date)' % sorted(xf))
                continue
            # x < first_day  -> outside the window (summarisable) ; x >= first_day -> inside (overlaps)
            if opn in ('lt', 'ge'):
                rep.ok('R10a', k, where=c.where(), fn=f.name,
                       detail='settlement_date %s window start: a row settling on the first day of the window counts as inside it' % ('<' if opn == 'lt' else '>='))
            else:
                rep.violation('R10a', k, where=c.where(), fn=f.name,
                              detail='settlement_date %s window start: a row settling exactly on the first day of a later loss\'s window would be summarised away '
                                     '(or a row one day earlier kept)' % {'le': '<=', 'gt': '>'}[opn])
    if n_cmp < 2:
        rep.violation('R10a', 'anchor-lost:boundary-comparisons', detail='anchor lost: comparisons of settlement dates with the window start in the summary code (found %d)' % n_cmp)

    # ------------------------------------------------------------------ R10b
    stores = []
    for f in fns:
        for i, b in f.blocks.items():
            for s in b['stmts']:
                dfs = mir.place_fields(s['dst'])
                if dfs and dfs[-1][1] == 'specified_superficial_loss' and dfs[-1][0].endswith('SellTxSpecifics'):
                    stores.append((f, i, s))
    if not stores:
        rep.violation('R10b', 'anchor-lost:explicit-sfl-store', detail='anchor lost: no site in the summary code makes a re-emitted sale\'s superficial loss explicit')
    for n, (f, i, s) in enumerate(stores):
        org = mir.provenance(f, s['r']['ops'][0], follow_all_call_args=True) if s['r'].get('ops') else mir.Origins()
        from_sfl = any(of.endswith('DeltaSflInfo') and fl == 'superficial_loss' for of, fl in org.fields)
        forced = None
        for b in f.blocks.values():
            for s2 in b['stmts']:
                if s2['r']['rv'] == 'agg' and s2['r']['kind'].endswith('SFLInput::SFLInput') and s2['dst']['l'] in org.locals:
                    for name, o in zip(s2['r'].get('fields', []), s2['r']['ops']):
                        if name == 'force':
                            forced = o.get('v') if o['k'] == 'const' else 'computed'
        k = '%s|re-emitted-sale-carries-computed-loss#%d' % (f.name, n + 1)
        if from_sfl and forced == 'false':
            rep.ok('R10b', k, where=f.where(s), fn=f.name, detail='specified_superficial_loss = delta.sfl.superficial_loss, not forced')
        else:
            rep.violation('R10b', k, where=f.where(s), fn=f.name,
                          detail='a re-emitted sale does not carry the computed superficial loss unforced (from delta.sfl: %s, force: %s): re-running on the summary would '
                                 'compute a different loss or skip validation' % (from_sfl, forced))
        # every re-emitted row whose delta has an sfl passes this store: on the way from the Some edge of `delta.sfl` to the push of
        # the row (store inside the re-emission loop) or to the return of the row (store in a helper mapping a delta to its row)
        lp = f.loop_of(i)
        pushes = [c for c in f.calls if c.short == 'push' and 'model::tx::Tx' in f.ty.get(c.arg_local(0), '') and lp and f.loop_of(c.bb) and f.loop_of(c.bb)[0] == lp[0]]
        returns_row = re.search(r'^(acb::)?portfolio::model::tx::Tx$', f.ty.get(0, '') or '') is not None
        sinks = [(c.bb, c.where()) for c in pushes] or ([(e, f.where(f.blocks[e]['term'])) for e in f.exits] if returns_row else [])
        if returns_row and not pushes and not ([c for c in prog.callers.get(f.name, []) if not mir.is_testsupport(c.fn.name)] or
                                               [1 for g in fns for o in _const_operands(g) if o.get('def') == f.name]):
            rep.violation('R10b', '%s|anchor-lost:re-emission-helper-unused' % f.name, fn=f.name,
                          detail='anchor lost: the helper that makes a re-emitted sale\'s loss explicit is not used by the summary code')
        if not sinks:
            rep.violation('R10b', '%s|anchor-lost:re-emission-sink' % f.name, fn=f.name,
                          detail='anchor lost: the row whose loss is made explicit is neither pushed in the same loop nor returned by this function')
        scope = lp[1] if (pushes and lp) else set(f.blocks)
        entry = None
        for j, b in f.blocks.items():
            tm = b['term']
            if tm and tm['t'] == 'switch' and j in scope:
                d = mir.provenance(f, tm['discr'])
                if any(of.endswith('TxDelta') and fl == 'sfl' for of, fl in d.fields):
                    some_t = [tg for v, tg in tm['targets'] if v == 1] or [tm['otherwise']]
                    entry = some_t[0]
        for (sbb, where) in sinks:
            if entry is None:
                rep.violation('R10b', '%s|anchor-lost:sfl-branch' % f.name, fn=f.name, detail='anchor lost: branch on TxDelta.sfl in the re-emission loop')
            elif entry != i and (sbb == entry or f.reaches(entry, sbb, avoid={i})):
                rep.violation('R10b', '%s|every-sfl-sale-is-made-explicit' % f.name, where=where, fn=f.name,
                              detail='a sale with a superficial loss can be re-emitted without its loss being made explicit')
            else:
                rep.ok('R10b', '%s|every-sfl-sale-is-made-explicit' % f.name, where=where, fn=f.name,
                       detail='every path from "delta has an sfl" to the %s passes the store' % ('push' if pushes else 'returned row'))

    # ------------------------------------------------------------------ R10c: the simple summary purchase
    # judged on the function with its same-file helpers spliced in (the purchase row may be built by a helper shared with the
    # annual generator); of nested candidates the outermost one is the generator
    def _view(f):
        return f if getattr(f, 'inlined', None) is not None else mir.inline_view(prog, f)
    simple = [f for f in fns if f.kind in ('Fn', 'AssocFn') and 'split_annual' not in f.name and
              len([s for b in _view(f).blocks.values() for s in b['stmts'] if s['r']['rv'] == 'agg' and s['r']['kind'].endswith('BuyTxSpecifics::BuyTxSpecifics')]) == 1 and
              not [c for c in _view(f).calls if c.short == 'year']]
    inner = {g.name for f in simple for g in prog.callees_closure([getattr(f, 'origin', f)]).values() if g.name != f.name}
    simple = [f for f in simple if f.name not in inner] or simple
    if rep.anchor('simple-summary generator (one Buy, no year arithmetic)', simple):
        f = _view(simple[0])
        buy = [s for b in f.blocks.values() for s in b['stmts'] if s['r']['rv'] == 'agg' and s['r']['kind'].endswith('BuyTxSpecifics::BuyTxSpecifics')][0]
        dep = {}
        for name, o in zip(buy['r'].get('fields', []), buy['r']['ops']):
            org = mir.provenance(f, o, follow_all_call_args=True) if is_place(o) else None
            shorts = {c.short for c in org.calls} if org else set()
            for kind in (org.aggs if org else []):
                # `total_acb.map(|acb| acb.div(balance))`: the operation sits in the closure handed to Option::map
                g = prog.by_crate[f.crate].get(kind[len('closure:'):]) if kind.startswith('closure:') else None
                if g is not None:
                    shorts |= {c.short for c in g.calls}
            dep[name] = ({fl for of, fl in org.fields} if org else set(), shorts)
        problems = []
        if 'share_balance' not in dep.get('shares', (set(),))[0]:
            problems.append('shares do not come from the final share balance')
        aps = dep.get('amount_per_share', (set(), set()))
        if not ({'total_acb', 'share_balance'} <= aps[0] and 'div' in aps[1]):
            problems.append('price is not (cost base / share balance)')
        com = dep.get('commission', (set(), set()))
        if com[0] - set() or not ({x for x in com[1] if x != 'zero'} <= set()):
            problems.append('commission is not zero')
        txagg = [s for b in f.blocks.values() for s in b['stmts'] if s['r']['rv'] == 'agg' and s['r']['kind'].endswith('model::tx::Tx::Tx')]
        if txagg:
            for name, o in zip(txagg[0]['r'].get('fields', []), txagg[0]['r']['ops']):
                if name in ('trade_date', 'settlement_date'):
                    org = mir.provenance(f, o, follow_all_call_args=True) if is_place(o) else None
                    fs = {fl for of, fl in org.fields} if org else set()
                    if 'settlement_date' not in fs or 'trade_date' in fs:
                        problems.append('%s is not the last summarised settlement date' % name)
                if name == 'affiliate':
                    org = mir.provenance(f, o, follow_all_call_args=True) if is_place(o) else None
                    if not org or not org.params:
                        problems.append('the summary row is not attributed to the affiliate being summarised')
        k = '%s|simple-summary-purchase' % f.name
        if problems:
            rep.violation('R10c', k, where=f.where(buy), fn=f.name, detail='; '.join(problems))
        else:
            rep.ok('R10c', k, where=f.where(buy), fn=f.name,
                   detail='Buy(shares = final balance, price = cost base / balance, commission 0) dated at the last summarised settlement date, for the given affiliate')

    # ------------------------------------------------------------------ R10e: one synthetic sale per summarised year
    annual = [f for f in fns if f.kind in ('Fn', 'AssocFn') and any(c.callee == 'time::Date::year' for c in f.calls) and
              any(s['r']['rv'] == 'agg' and s['r']['kind'].endswith('SellTxSpecifics::SellTxSpecifics') for b in f.blocks.values() for s in b['stmts'])]
    if rep.anchor('annual-gains summary generator (per-year synthetic sales)', annual):
        f = annual[0]
        done = False
        for (nc, header, body) in f.iterator_loops():
            if not re.search(r'vec::IntoIter<i32>|slice::Iter<\'_, i32>', f.ty.get(nc.arg_local(0), '')):
                continue
            pushes = {c.bb for c in f.calls if c.bb in body and c.short == 'push' and 'model::tx::Tx' in f.ty.get(c.arg_local(0), '')}
            if not pushes:
                continue
            sw = f.blocks[nc.target]['term'] if nc.target in f.blocks else None
            entry = ([tg for v, tg in sw['targets'] if v == 1] or [sw['otherwise']])[0] if sw and sw['t'] == 'switch' else None
            done = True
            if entry is not None and not f.reaches(entry, header, avoid=pushes):
                rep.ok('R10e', '%s|one-sale-per-summarised-year' % f.name, where=nc.where(), fn=f.name,
                       detail='every year of the list produces a synthetic sale (the base purchase is sized with one extra share per listed year)')
            else:
                rep.violation('R10e', '%s|one-sale-per-summarised-year' % f.name, where=nc.where(), fn=f.name,
                              detail='a summarised year can be skipped without its synthetic one-share sale, while the base purchase still carries one extra share per '
                                     'year: the summary leaves a phantom share (and its cost) in the position')
        if not done:
            rep.violation('R10e', 'anchor-lost:per-year-loop', fn=f.name, detail='anchor lost: loop over the years with gains that emits the synthetic sales')

    # ------------------------------------------------------------------ R10f: the boundary is set by the FIRST later superficial loss
    def _finds_first_sfl(f):
        # `deltas[i + 1..].iter().find(|d| d.is_superficial_loss())`
        out = []
        for c in f.calls:
            if c.decl.endswith('Iterator::find') and re.search(r'slice::Iter<.*TxDelta', f.ty.get(c.arg_local(0), '') or '') and len(c.args) > 1:
                g = mir._closure_fn_of(prog, f, c.args[1])
                if g is not None and any(x.short == 'is_superficial_loss' or (x.short == 'is_some' and any(fl == 'sfl' for (_, fl) in mir.provenance(g, x.args[0]).fields))
                                         for x in g.calls):
                    out.append(c)
        return out
    bfn = [f for f in fns if f.kind in ('Fn', 'AssocFn') and any(c.callee == first.name for c in f.calls) and not any(c.callee.endswith('last_day_in_superficial_loss_period') for c in f.calls)
           and (len([1 for (nc, h, b) in f.iterator_loops()]) >= 2 or (_finds_first_sfl(f) and f.iterator_loops()))]
    if rep.anchor('summary-range function (scans for later superficial losses)', bfn):
        f = bfn[0]
        hit = False
        for (nc, header, body) in f.iterator_loops():
            ity = f.ty.get(nc.arg_local(0), '')
            if not re.search(r'^&mut std::slice::Iter<.*TxDelta', ity):
                continue
            sw = f.blocks[nc.target]['term'] if nc.target in f.blocks else None
            entry = ([tg for v, tg in sw['targets'] if v == 1] or [sw['otherwise']])[0] if sw and sw['t'] == 'switch' else None
            region = {b2 for b2 in f.blocks if entry is not None and f.dominates(entry, b2)}
            wcalls = [c for c in f.calls if c.bb in region and c.callee == first.name]
            if not wcalls:
                continue
            hit = True
            back = [c for c in wcalls if f.reaches(c.bb, header)]
            k = '%s|first-later-loss-sets-the-boundary' % f.name
            if back:
                rep.violation('R10f', k, where=back[0].where(), fn=f.name,
                              detail='the forward scan over the rows after the summary date keeps going after a superficial loss was found and can overwrite the window '
                                     'start with that of a LATER loss: rows inside the first loss\'s window would be summarised away')
            else:
                rep.ok('R10f', k, where=wcalls[0].where(), fn=f.name, detail='the scan stops at the first later superficial loss (no path from the window computation back to the loop head)')
        for c in _finds_first_sfl(f):
            # the same scan as `find`: the first match in iteration order — forward unless the slice iterator was reversed
            src = mir.provenance(f, c.args[0], follow_all_call_args=True)
            fwd = not any(x.short in ('rev', 'rfind', 'last', 'max_by_key', 'min_by_key', 'skip', 'step_by') for x in src.calls)
            feeds = [w for w in f.calls if w.callee == first.name and c in mir.provenance(f, w.args[0], follow_all_call_args=True).calls]
            if not feeds:
                continue
            hit = True
            k = '%s|first-later-loss-sets-the-boundary' % f.name
            if fwd:
                rep.ok('R10f', k, where=c.where(), fn=f.name, detail='the window start is computed from Iterator::find (first match, forward) over the rows after the summary date')
            else:
                rep.violation('R10f', k, where=c.where(), fn=f.name,
                              detail='the superficial loss that sets the window start is not the first one after the summary date (the scan is reversed / skips rows)')
        if not hit:
            rep.violation('R10f', 'anchor-lost:forward-scan', fn=f.name, detail='anchor lost: forward scan over the deltas after the summary date')

    # ------------------------------------------------------------------ R10g: every affiliate of the summarised range is found
    # the scan that records, per affiliate, its last summarisable delta walks the whole range: the loop that fills the
    # affiliate -> index map is left only when the range is exhausted (an early exit drops affiliates that traded earlier —
    # e.g. one that has sold out — together with their carried-over gains)
    AFMAP = re.compile(r'HashMap<(portfolio::model::affiliate::)?Affiliate, usize')
    n_scan = 0
    for f in fns:
        if f.kind not in ('Fn', 'AssocFn'):
            continue
        for (nc, header, body) in f.iterator_loops():
            fills = [c for c in f.calls if c.bb in body and c.short in ('insert', 'entry', 'or_insert', 'or_insert_with') and
                     (AFMAP.search(f.ty.get(c.arg_local(0), '') or '') or re.search(r'(Vacant)?Entry<.*Affiliate, usize', f.ty.get(c.arg_local(0), '') or ''))]
            if not fills:
                # the same record kept as a vector of (affiliate, index) entries: a push whose value holds the row's affiliate and the
                # position the loop is at
                for c in f.calls:
                    if c.bb in body and c.short == 'push' and len(c.args) > 1 and is_place(c.args[1]):
                        o = mir.provenance(f, c.args[1], follow_all_call_args=True)
                        if any(fl == 'affiliate' and of.endswith('model::tx::Tx') for (of, fl) in o.fields) and nc in o.calls and \
                                'usize' in ' '.join(f.ty.get(l, '') for l in o.locals) and 'model::tx::Tx' not in (f.ty.get(c.arg_local(0), '') or ''):
                            fills.append(c)
            if not fills:
                continue
            inner = [1 for (nc2, h2, b2) in f.iterator_loops() if h2 != header and h2 in body and any(c.bb in b2 for c in fills)]
            if inner:
                continue        # judged on the innermost loop holding the fill
            n_scan += 1
            normal, other = f.classify_loop_exits(nc, body)
            # leaving through an error / panic path is not an early "found enough"
            other = [(a, b) for (a, b) in other if not f.is_unreachable_block(b) and
                     not any(c.short in ('from_residual', 'panic', 'panic_fmt', 'begin_panic', 'unwrap_failed', 'expect_failed') for c in f.calls if c.bb == b)]
            k = '%s|affiliate-scan-covers-the-whole-range' % f.name
            if other:
                a, b = other[0]
                rep.violation('R10g', k, where=f.where(f.blocks[a]['term']) if f.blocks[a]['term'] else nc.where(), fn=f.name,
                              detail='the scan that finds each affiliate\'s last summarisable transaction can stop before the start of the range (bb%d -> bb%d): '
                                     'an affiliate that only traded earlier (e.g. sold out) gets no summary rows and its past gains are lost' % (a, b))
            else:
                rep.ok('R10g', k, where=nc.where(), fn=f.name, detail='the loop filling the affiliate -> last-delta map ends only when the range is exhausted')
    if n_scan == 0:
        rep.violation('R10g', 'anchor-lost:affiliate-scan', detail='anchor lost: the loop that records each affiliate\'s last summarisable delta')

    # ------------------------------------------------------------------ R10d
    sname = simple[0].name if simple else ''
    host = [f for f in fns if f.kind in ('Fn', 'AssocFn') and f.name != sname and
            (any(c.callee == sname for c in f.calls) or any(o.get('def') == sname for o in _const_operands(f)))]     # called, or taken as a fn pointer
    if not host:
        rep.violation('R10d', 'anchor-lost:summary-host', detail='anchor lost: the function that invokes the simple-summary generator and orders the rows')
    else:
        f = host[0]
        sorts = [c for c in f.calls if c.short in ('sort', 'sort_unstable') and re.search(r'slice::<impl \[T\]>::', c.callee) and 'model::tx::Tx' in f.ty.get(c.arg_local(0), '')]
        if sorts:
            rep.ok('R10d', '%s|summary-rows-sorted-by-tx-order' % f.name, where=sorts[0].where(), fn=f.name, detail='<[Tx]>::%s (settlement date, then generation order)' % sorts[0].short)
        else:
            rep.violation('R10d', '%s|summary-rows-sorted-by-tx-order' % f.name, fn=f.name, where='%s:%d' % (f.file, f.line),
                          detail='the generated summary rows are not sorted with Tx\'s own ordering')


def r10h(prog, rep):
    """every security whose ledger was computed reaches the summary generator. Between the per-security results and the call of
    make_aggregate_summary_txs the front end sorts them into "failed" (reported) and "ok" (summarised): on the Ok edge of the result every
    path stores the deltas into the map the generator receives, before the next security is looked at. A position skipped there — because
    the affiliate of its last transaction sold out, say — takes the other affiliates' holdings with it out of the summary."""
    DMAP = re.compile(r'HashMap<std::string::String, std::vec::Vec<portfolio::model::txdelta::TxDelta')
    n = 0
    for f in prog.product_fns():
        gen = [c for c in f.calls if c.callee.endswith('summary::make_aggregate_summary_txs')]
        if not gen or mir.is_testsupport(f.name):
            continue
        mo = mir.provenance(f, gen[0].args[1] if DMAP.search(f.ty.get(gen[0].arg_local(1), '') or '') else gen[0].args[0])
        maps = {l for l in mo.locals if DMAP.search((f.ty.get(l, '') or '').lstrip('&').replace('mut ', ''))}
        for (nc, header, body) in f.iterator_loops():
            ins = [c for c in f.calls if c.bb in body and c.short == 'insert' and (set(mir.provenance(f, c.args[0]).locals) | {c.arg_local(0)}) & maps]
            if not ins:
                continue
            n += 1
            k = '%s|every-computed-security-is-summarised' % f.name.split('::{')[0]
            # the Ok edges of the per-security result inside the body
            ok_entries = []
            for i in body:
                t = f.blocks[i]['term']
                if t and t['t'] == 'switch' and is_place(t['discr']):
                    dd = f.single_def(t['discr']['pl']['l'])
                    dty = ''
                    if dd and dd[2] == 'stmt' and dd[3]['r']['rv'] == 'discr':
                        dty = dd[3]['r']['pl'].get('t') or f.ty.get(dd[3]['r']['pl']['l'], '') or ''
                    if dty.startswith('std::result::Result<') and 'TxDelta' in dty:
                        ok_t = [tg for v, tg in t['targets'] if v == 0] or [t['otherwise']]
                        ok_entries.append(ok_t[0])
            if not ok_entries:
                rep.violation('R10h', 'anchor-lost:ok-edge', fn=f.name, detail='anchor lost: the test of a security\'s ledger result in the loop that fills the summary input')
                continue
            ins_bbs = {c.bb for c in ins}
            bad = [e for e in ok_entries if e not in ins_bbs and header in ({e} | f.reachable_from(e, avoid=ins_bbs))]
            if bad:
                rep.violation('R10h', k, where=f.where(f.blocks[bad[0]]['term']) if f.blocks[bad[0]]['term'] else nc.where(), fn=f.name,
                              detail='a security whose ledger was computed can be passed over without being stored for the summary generator: its holdings '
                                     '(of every affiliate) are missing from the summary, and later rows no longer reproduce')
            else:
                rep.ok('R10h', k, where=ins[0].where(), fn=f.name, detail='on the Ok edge every path stores the security\'s deltas for the generator')
    if n == 0:
        rep.violation('R10h', 'anchor-lost:summary-input-loop', detail='anchor lost: the loop that fills the map handed to make_aggregate_summary_txs')
