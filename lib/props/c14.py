"""C14 — an interrupted cache write cannot corrupt exchange rates.  DESIGN.md 5.C14 (R14a-R14d).

Sufficient condition (POSIX rename atomicity): the live cache file is never opened for in-place writing; it is only
replaced by rename() from a temporary file that has been completely written, flushed and fsync'ed."""
import re

import mir
from mir import short, is_place, op_local

LEVEL = 'proof'
EXPLANATION = ('Path taint from the producer of the live cache file name to every file-system sink in all product crates '
               '(in-place writers forbidden), plus a must-precede check on the CFG of RatesCache::write_rates for the CSV cache '
               '(with same-module callees inlined as event lists): create(temp) -> writes -> flush -> fsync -> rename(temp, live), '
               'results of flush/fsync/rename not discarded, and the reader opens the live name only.')
TRUSTED_BASE = [
    'rustc nightly MIR construction and trait resolution',
    'POSIX rename(2) atomically replaces the destination; fsync makes the temp file content durable before the rename',
    'csv::Writer::into_inner / flush write every buffered record to the underlying File before returning Ok',
    'models of std::fs / std::path callees in lib/props/c14.py',
]
ASSUMPTIONS = [
    'a single writer per cache directory (concurrent acb processes are outside the property)',
    'the file system honours rename atomicity across a crash once the source file was fsync\'ed',
]

TRAIT = 'fx::io::rates_cache::RatesCache'
PATH_PASS = {'clone', 'as_path', 'as_ref', 'to_path_buf', 'deref', 'borrow', 'into', 'from', 'as_os_str', 'to_owned', 'new'}
PATH_DERIVE = {'with_extension', 'with_file_name', 'join', 'push', 'set_extension', 'set_file_name', 'parent', 'with_added_extension'}
INPLACE_SINKS = [
    (r'^std::fs::File::create$', 0), (r'^std::fs::File::create_new$', 0), (r'^std::fs::OpenOptions::open$', 1),
    (r'^std::fs::write$', 0), (r'^std::fs::copy$', 1), (r'^std::fs::File::options$', None),
    (r'^async_std::fs::(write|File::create)', 0), (r'^std::fs::hard_link$', 1), (r'^std::os::unix::fs::symlink$', 1),
]
READ_OK = [r'^std::fs::File::open$', r'^std::fs::metadata$', r'^std::path::Path::(exists|is_file|try_exists|display|to_str|metadata)$',
           r'^std::fs::remove_file$', r'^std::fs::read(_to_string)?$', r'^std::path::PathBuf::(as_path|to_str|display)$',
           r'^std::fs::rename$']
EV_CREATE = re.compile(r'^std::fs::File::(create|create_new)$|^std::fs::OpenOptions::open$')
EV_WRITE = re.compile(r'^csv::Writer::<W>::(write_record|write_byte_record|serialize|write_field)$|^std::io::Write::(write|write_all|write_fmt)$')
EV_FLUSH = re.compile(r'^csv::Writer::<W>::(flush|into_inner)$|^std::io::BufWriter::<W>::into_inner$|^std::io::Write::flush$')
EV_SYNC = re.compile(r'^std::fs::File::(sync_all|sync_data)$')
EV_RENAME = re.compile(r'^std::fs::rename$')


def in_module(fn, mod):
    return fn.name.startswith(mod + '::') or ('<' + mod) in fn.name or fn.name.startswith('<' + mod)


class PathTaint:
    """forward inter-procedural taint of 'this value is the live cache file name'"""

    def __init__(self, prog, producer):
        self.prog = prog
        self.producer = producer
        self.tainted = {}     # fn name -> set(locals)
        self.sink_hits = []   # (fn, call, argidx)
        self.work = []

    def seed(self):
        for c in self.prog.callers.get(self.producer.name, []):
            if mir.is_testsupport(c.fn.name):
                continue
            dl = c.dst_local()
            if dl is not None:
                self.add(c.fn, dl)
        self.run()

    def add(self, fn, l):
        s = self.tainted.setdefault(fn.name, set())
        if l not in s:
            s.add(l)
            self.work.append((fn, l))

    def run(self):
        while self.work:
            fn, l = self.work.pop()
            for (bb, idx, kind, node) in fn.uses_of(l):
                if kind == 'stmt':
                    if node['r']['rv'] in ('use', 'ref', 'cast') and not node['dst']['p']:
                        self.add(fn, node['dst']['l'])
                    elif node['r']['rv'] == 'agg' and (node['r']['kind'].startswith('adt:std::option::Option') or
                                                       node['r']['kind'].startswith('adt:std::result::Result')):
                        self.add(fn, node['dst']['l'])
                    elif node['r']['rv'] == 'agg' and node['r']['kind'].startswith('closure:'):
                        # captured by a closure: taint the corresponding upvar reads in the closure body
                        g = self.prog.by_crate[fn.crate].get(node['r']['kind'][len('closure:'):])
                        if g is not None:
                            for n, o in enumerate(node['r']['ops']):
                                if op_local(o) == l:
                                    for b in g.blocks.values():
                                        for s in b['stmts']:
                                            for pl in g.stmt_sources(s):
                                                fs = [e for e in pl['p'] if isinstance(e, dict) and 'f' in e]
                                                if pl['l'] == 1 and fs and fs[0]['f'] == str(n):
                                                    self.add(g, s['dst']['l'])
                elif kind == 'call':
                    c = fn.call_at[bb]
                    idxs = [i for i, a in enumerate(c.args) if op_local(a) == l]
                    g = self.prog.resolve(c.callee, fn.crate) or self.prog.resolve(c.decl, fn.crate)
                    if g is not None and not mir.is_testsupport(g.name):
                        for i in idxs:
                            self.add(g, i + 1)
                        continue
                    if c.short in PATH_PASS and 0 in idxs:
                        if c.dst_local() is not None:
                            self.add(fn, c.dst_local())
                        continue
                    if c.short in PATH_DERIVE:
                        continue  # a different name
                    for i in idxs:
                        self.sink_hits.append((fn, c, i))


def events_of(prog, fn, module, memo, depth=0):
    """ordered event summary of a function: list of (kind, call, via) where via is the call in `fn` that stands for it"""
    if fn.name in memo:
        return memo[fn.name]
    memo[fn.name] = []
    evs = []
    for c in fn.calls:
        kind = None
        if EV_CREATE.search(c.callee) or EV_CREATE.search(c.decl):
            kind = 'create'
        elif EV_WRITE.search(c.decl) or EV_WRITE.search(c.callee):
            kind = 'write'
        elif EV_FLUSH.search(c.decl) or EV_FLUSH.search(c.callee):
            kind = 'flush'
        elif EV_SYNC.search(c.callee):
            kind = 'sync'
        elif EV_RENAME.search(c.callee):
            kind = 'rename'
        if kind:
            if c.in_macro and '$crate::event' in c.exp:
                continue
            evs.append((kind, c, c))
            continue
        g = prog.resolve(c.callee, fn.crate) or prog.resolve(c.decl, fn.crate)
        if g is not None and in_module(g, module) and depth < 6 and not mir.is_testsupport(g.name):
            for (k, c2, _) in events_of(prog, g, module, memo, depth + 1):
                evs.append((k, c2, c))
        # a closure built here and handed to this call (`rows.iter().try_for_each(|r| w.write_record(..))`) runs under it
        for a in c.args[1:]:
            g2 = mir._closure_fn_of(prog, fn, a)
            if g2 is not None and depth < 6:
                for (k, c2, _) in events_of(prog, g2, module, memo, depth + 1):
                    evs.append((k, c2, c))
    memo[fn.name] = evs
    return evs


def result_used(fn, c):
    """R14c: does the Result produced by call c reach `?` (Try::branch), a match/if on it, or the return value?"""
    dl = c.dst_local()
    if dl is None:
        return True
    if dl == 0:
        return True
    seen = set()
    work = [dl]
    while work:
        l = work.pop()
        if l in seen:
            continue
        seen.add(l)
        if l == 0:
            return True
        for (bb, idx, kind, node) in fn.uses_of(l):
            if kind == 'stmt':
                if node['r']['rv'] == 'discr':
                    return True
                if node['r']['rv'] in ('use', 'ref', 'cast', 'agg'):
                    work.append(node['dst']['l'])
            elif kind == 'call':
                c2 = fn.call_at[bb]
                if c2.short == 'branch':
                    return True
                if c2.short in ('map_err', 'map', 'and_then', 'or_else', 'as_ref', 'clone', 'into', 'from', 'unwrap', 'expect'):
                    if c2.short in ('unwrap', 'expect'):
                        return True
                    work.append(c2.dst['l'])
                # is_ok()/is_err()/ok() alone do not propagate the error
            elif kind == 'switch':
                return True
    return False


def producers_in(prog, fn, op):
    """crate-local path-producing functions (returning PathBuf) in the provenance of an operand"""
    org = mir.provenance(fn, op, pass_through=mir.PASS_THROUGH | PATH_PASS)
    out = set()
    for c in org.calls:
        g = prog.resolve(c.callee, fn.crate) or prog.resolve(c.decl, fn.crate)
        if g is not None and 'PathBuf' in g.ty.get(0, ''):
            out.add(g.name)
    return out, org


def run(prog, rep, tier='quick', config='default'):
    # ---------------------------------------------------------------- anchors
    impls = [(crate, i) for crate, i in prog.impls() if i['trait'] == TRAIT]
    rep.anchor('trait ' + TRAIT + ' has impls', impls)
    csv_impl = [(crate, i) for crate, i in impls if 'Csv' in i['self']]
    if config == 'wasm' and impls and not csv_impl:
        rep.ok('R14', 'no-file-cache-in-this-config', detail='the wasm feature set has no file-backed RatesCache (in-memory only)', trivial=True)
        # still: nothing in this configuration may write a rates file
        return
    if not rep.anchor('file-backed RatesCache impl (self type *Csv*)', csv_impl):
        return
    crate, impl = csv_impl[0]
    by = {short(it): prog.by_crate[crate].get(it) for it in impl['items']}
    writer = rep.anchor('RatesCache::write_rates for the CSV cache', by.get('write_rates'))
    reader = rep.anchor('RatesCache::get_usd_cad_rates for the CSV cache', by.get('get_usd_cad_rates'))
    if not writer or not reader:
        return
    module = writer.name[1:].split(' as ')[0].rsplit('::', 1)[0] if writer.name.startswith('<') else writer.name.rsplit('::', 2)[0]
    rep.anchors['cache module'] = module

    # live-name producer := the crate function whose PathBuf result reaches File::open in the read path
    reach = prog.callees_closure([reader])
    opens = []
    for f in reach.values():
        if not in_module(f, module):
            continue
        for c in f.calls:
            if re.search(r'^std::fs::File::open$|^std::fs::OpenOptions::open$|^std::fs::read(_to_string)?$', c.callee):
                opens.append(c)
    rep.anchor('File::open in the cache read path', opens)
    live_producers = set()
    for c in opens:
        ps, org = producers_in(prog, c.fn, c.args[-1] if 'OpenOptions' in c.callee else c.args[0])
        live_producers |= ps
        if not ps:
            rep.violation('R14d', '%s|open-unknown-path' % c.fn.name, where=c.where(), fn=c.fn.name,
                          detail='the reader opens a path that is not produced by a path function (cannot identify the live name)')
    if not rep.anchor('live cache file name producer (fn -> PathBuf reaching File::open in the reader)', sorted(live_producers)):
        return
    if len(live_producers) > 1:
        rep.violation('R14d', 'reader-opens-several-names', fn=reader.name,
                      detail='the read path opens more than one kind of name: %s (a temp/backup name must never be read)' % sorted(live_producers))
    else:
        rep.ok('R14d', 'reader-opens-live-name-only', fn=reader.name, where='%s:%d' % (reader.file, reader.line),
               detail='%d open site(s) in the read path, all on the name produced by %s' % (len(opens), sorted(live_producers)[0]))
    # no directory scans in the read path
    for f in reach.values():
        for c in f.calls:
            if re.search(r'^std::fs::read_dir$|glob', c.callee) and in_module(f, module):
                rep.violation('R14d', '%s|read_dir' % f.name, where=c.where(), fn=f.name, detail='the reader scans the directory (could pick up a temp file)')
    producer = prog.fn(sorted(live_producers)[0])

    # ---------------------------------------------------------------- R14a: live-path taint to sinks
    pt = PathTaint(prog, producer)
    pt.seed()
    n_sinks = 0
    counts = {}
    rename_into_live = []
    for (fn, c, i) in pt.sink_hits:
        n_sinks += 1
        ordn = counts.setdefault((fn.name, c.callee), 0) + 1
        counts[(fn.name, c.callee)] = ordn
        k = '%s|%s|arg%d#%d' % (fn.name, c.callee, i, ordn)
        bad = None
        for pat, argi in INPLACE_SINKS:
            if re.search(pat, c.callee) and (argi is None or argi == i):
                bad = 'opens / writes the live cache file in place'
        if re.search(r'^std::fs::rename$', c.callee):
            if i == 1:
                rename_into_live.append((fn, c, k))
            else:
                rep.ok('R14a', k, where=c.where(), fn=fn.name, detail='live name is moved away by rename() (cannot corrupt it)')
            continue
        if bad:
            rep.violation('R14a', k, where=c.where(), fn=fn.name,
                          detail='%s: %s(live path). A crash leaves a prefix of the new content under the live name; a torn last row '
                                 'still parses and the cache is trusted once it contains the requested date' % (bad, c.callee))
        elif any(re.search(p, c.callee) for p in READ_OK):
            rep.ok('R14a', k, where=c.where(), fn=fn.name, detail='read-only / metadata use of the live name (%s)' % c.callee, trivial=True)
        elif '$crate::event' in c.exp or c.short in ('new_display', 'new_debug', 'to_str', 'display', 'to_string_lossy', 'drop'):
            rep.ok('R14a', k, where=c.where(), fn=fn.name, detail='formatting of the live name', trivial=True)
        else:
            rep.violation('R14a', k, where=c.where(), fn=fn.name, detail='live cache file name passed to unmodelled callee %s' % c.callee)
    rep.extra['live_path_tainted_locals'] = {k: len(v) for k, v in pt.tainted.items()}
    rep.extra['live_path_sink_sites'] = n_sinks
    if n_sinks == 0:
        rep.violation('R14a', 'no-sinks', detail='the live cache file name reaches no file-system call at all (taint engine broken?)')

    # ---------------------------------------------------------------- R14b: ordering in write_rates
    memo = {}
    evs = events_of(prog, writer, module, memo)
    kinds = [k for k, _, _ in evs]
    rep.extra['write_rates_events'] = ['%s:%s@%s (via %s)' % (k, short(c.callee), c.where(), short(v.callee)) for k, c, v in evs]
    renames = [(k, c, v) for (k, c, v) in evs if k == 'rename']
    live_renames = []
    for (k, c, v) in renames:
        ps, _ = producers_in(prog, c.fn, c.args[1])
        ps0, _ = producers_in(prog, c.fn, c.args[0])
        if producer.name in ps and producer.name not in ps0:
            live_renames.append((k, c, v, ps0))
    # every rename(.., live) in the program must be the commit step of write_rates checked below
    commit_sites = {(c.fn.name, c.bb) for (k, c, v, _) in live_renames}
    for (fn, c, k) in rename_into_live:
        if (fn.name, c.bb) in commit_sites:
            rep.ok('R14a', k, where=c.where(), fn=fn.name, detail='live name is the destination of the commit rename() of write_rates')
        else:
            rep.violation('R14a', k, where=c.where(), fn=fn.name,
                          detail='a file is renamed over the live cache file outside the flush -> fsync -> rename sequence of write_rates: '
                                 'a partially written (e.g. left-over temporary) file can become the trusted cache')
    creates = [(k, c, v) for (k, c, v) in evs if k == 'create']
    if not creates:
        rep.violation('R14b', 'no-create', fn=writer.name, detail='write_rates creates no file (anchor lost: cache write path)')
        return
    if not live_renames:
        rep.violation('R14b', 'no-rename-into-place', fn=writer.name, where='%s:%d' % (writer.file, writer.line),
                      detail='write_rates never renames a finished temporary file over the live cache file: the live file is '
                             'written in place (events: %s)' % kinds)
        return
    # temp name identity: rename source and created file come from the same producer
    create_producers = set()
    for (k, c, v) in creates:
        ps, _ = producers_in(prog, c.fn, c.args[-1] if 'OpenOptions' in c.callee else c.args[0])
        create_producers |= ps
    for (k, c, v, ps0) in live_renames:
        if ps0 & create_producers:
            rep.ok('R14b', 'rename-source-is-created-temp', where=c.where(), fn=c.fn.name,
                   detail='rename(src, live): src and the created file both come from %s' % sorted(ps0 & create_producers))
        else:
            rep.violation('R14b', 'rename-source-is-created-temp', where=c.where(), fn=c.fn.name,
                          detail='the file renamed over the live cache (%s) is not the file that was written (%s)' % (sorted(ps0), sorted(create_producers)))

    # the temp name and the live name are built from the same, unmodified (directory, year) arguments
    ARG_PASS = {'deref', 'borrow', 'as_ref', 'clone', 'as_path', 'as_os_str', 'to_path_buf', 'to_owned', 'into', 'from'}

    def arg_sig(fn, op):
        if not is_place(op):
            return ('const', op.get('v'))
        o = mir.provenance(fn, op, pass_through=ARG_PASS)
        modified = bool(o.binops) or any(x.short not in ARG_PASS for x in o.calls)
        return ('modified' if modified else 'plain', tuple(sorted(o.params)), tuple(sorted(f for _, f in o.fields)))

    def producer_calls(fn, op):
        o = mir.provenance(fn, op)
        out = []
        for x in o.calls:
            g = prog.resolve(x.callee, fn.crate)
            if g is not None and 'PathBuf' in g.ty.get(0, ''):
                out.append(x)
        return out

    for (k, c, v, ps0) in live_renames:
        src_calls = producer_calls(c.fn, c.args[0])
        dst_calls = producer_calls(c.fn, c.args[1])
        sigs = []
        bad = None
        for x in src_calls + dst_calls:
            sg = tuple(arg_sig(c.fn, a) for a in x.args)
            sigs.append(sg)
            if any(t[0] == 'modified' for t in sg):
                bad = 'an argument of %s is computed (not passed through) at %s' % (short(x.callee), x.where())
        if not bad and len(set(sigs)) > 1:
            bad = 'the temp name and the live name are built from different arguments'
        # across helpers: the writer hands the same (directory, year) to the create helper and to the commit helper
        if not bad:
            for (k2, c2, v2) in creates:
                if v2 is v or v2.fn is not v.fn or c2.fn is c.fn:
                    continue
                a1 = {arg_sig(v.fn, a) for a in v.args if is_place(a) and re.search(r'Path|^u32$|^i32$', v.fn.ty.get(op_local(a), ''))}
                a2 = {arg_sig(v2.fn, a) for a in v2.args if is_place(a) and re.search(r'Path|^u32$|^i32$', v2.fn.ty.get(op_local(a), ''))}
                if not a1 or not a2:
                    continue      # a closure that captures the directory and year instead of taking them as arguments
                if a1 != a2 or any(t[0] == 'modified' for t in a1 | a2):
                    bad = 'the helper that creates the temp file and the helper that renames it are given different (directory, year) arguments'
                cc = producer_calls(c2.fn, c2.args[-1] if 'OpenOptions' in c2.callee else c2.args[0])
                for x in cc:
                    if any(arg_sig(c2.fn, a)[0] == 'modified' for a in x.args):
                        bad = 'an argument of %s is computed (not passed through) at %s' % (short(x.callee), x.where())
        if bad:
            rep.violation('R14b', 'temp-and-live-name-from-same-arguments', where=c.where(), fn=c.fn.name,
                          detail='%s: the file that is fsynced and the file that is renamed over the live name would not be the same file, so an '
                                 'unsynced or left-over file can become the trusted cache' % bad)
        else:
            rep.ok('R14b', 'temp-and-live-name-from-same-arguments', where=c.where(), fn=c.fn.name,
                   detail='both names are built from the same pass-through (directory, year) arguments, in the helper that creates and in the one that renames')

    # R14f: the temp file starts empty
    for (k, c, v) in creates:
        if re.search(r'File::create(_new)?$', c.callee):
            rep.ok('R14f', '%s|temp-file-opened-truncating' % c.fn.name, where=c.where(), fn=c.fn.name, detail='%s truncates / creates' % short(c.callee))
            continue
        o = mir.provenance(c.fn, c.args[0], follow_all_call_args=True)
        root = mir.nearest_user_local(c.fn, c.args[0])
        bcalls = list(o.calls)
        if root is not None:
            bcalls += [x for x in c.fn.calls if x.args and 'OpenOptions' in x.callee and mir.nearest_user_local(c.fn, x.args[0]) == root]

        def flag(name, calls=bcalls):
            return any(x.short == name and len(x.args) > 1 and str(x.args[1].get('v')) == 'true' for x in calls)
        if (flag('truncate') or flag('create_new')) and not flag('append'):
            rep.ok('R14f', '%s|temp-file-opened-truncating' % c.fn.name, where=c.where(), fn=c.fn.name, detail='OpenOptions with truncate(true) / create_new(true)')
        else:
            rep.violation('R14f', '%s|temp-file-opened-truncating' % c.fn.name, where=c.where(), fn=c.fn.name,
                          detail='the temp file is opened without truncation (or in append mode): bytes left by an interrupted earlier write '
                                 'stay in front of the new content and are renamed over the live cache with it')

    def precedes(a, b):
        """event a always happens before event b (a = (kind, call, via))"""
        (_, ca, va), (_, cb, vb) = a, b
        if ca.fn is cb.fn:
            return ca.fn.dominates(ca.bb, cb.bb) and ca.bb != cb.bb
        if va is not vb and va.fn is vb.fn:
            return va.fn.dominates(va.bb, vb.bb) and va.bb != vb.bb
        # one is nested deeper than the other: compare at the writer level through their `via` chain
        return va.fn is vb.fn and va.bb != vb.bb and va.fn.dominates(va.bb, vb.bb)

    def may_follow(a, b):
        """can event b happen after event a?"""
        (_, ca, va), (_, cb, vb) = a, b
        if ca.fn is cb.fn:
            return ca.fn.reaches(ca.bb, cb.bb)
        if va.fn is vb.fn:
            return va.bb == vb.bb or va.fn.reaches(va.bb, vb.bb)
        return True

    syncs = [e for e in evs if e[0] == 'sync']
    flushes = [e for e in evs if e[0] == 'flush']
    writes = [e for e in evs if e[0] == 'write']
    for (k, c, v, _) in live_renames:
        r = (k, c, v)
        s_ok = [s for s in syncs if precedes(s, r)]
        if s_ok:
            rep.ok('R14b', 'sync-before-rename', where=c.where(), fn=c.fn.name, detail='%s dominates rename' % s_ok[0][1].callee)
        else:
            rep.violation('R14b', 'sync-before-rename', where=c.where(), fn=c.fn.name,
                          detail='rename(temp, live) is not preceded on every path by File::sync_all/sync_data: after a power loss the '
                                 'renamed file may be empty or partial')
        f_ok = [f for f in flushes if any(precedes(f, s) for s in s_ok)] if s_ok else [f for f in flushes if precedes(f, r)]
        if f_ok:
            rep.ok('R14b', 'flush-before-sync', where=f_ok[0][1].where(), fn=f_ok[0][1].fn.name, detail='%s dominates the sync' % f_ok[0][1].callee)
        else:
            rep.violation('R14b', 'flush-before-sync', where=c.where(), fn=c.fn.name,
                          detail='the buffered csv writer is not flushed (flush/into_inner) before the fsync/rename on every path')
        for w in writes:
            late = [f for f in f_ok if may_follow(f, w)] + ([r] if may_follow(r, w) else [])
            if late and not (w[1].in_macro and 'write_errln' in w[1].exp):
                rep.violation('R14b', 'write-after-flush|%s' % short(w[1].callee), where=w[1].where(), fn=w[1].fn.name,
                              detail='a record can be written after the flush/rename (%s)' % late[0][1].where())
        if writes:
            rep.ok('R14b', 'writes-precede-flush', fn=writer.name, detail='%d write event(s), none reachable after the flush' % len(writes), trivial=True)
        else:
            rep.violation('R14b', 'anchor-lost:record-writes', fn=writer.name, detail='anchor lost: no record write found on the way to the flush / rename')
        # sync receiver is the written file
        for s in s_ok:
            org = mir.provenance(s[1].fn, s[1].args[0])
            if org.has_call(r'into_inner|get_ref|get_mut|File::create|OpenOptions::open') or org.params:
                rep.ok('R14b', 'sync-on-written-file', where=s[1].where(), fn=s[1].fn.name,
                       detail='fsync receiver derives from %s' % (sorted(org.call_names())[:3] or 'a parameter'), trivial=True)
            else:
                rep.violation('R14b', 'sync-on-written-file', where=s[1].where(), fn=s[1].fn.name, detail='fsync is applied to a file that is not the written temp file')
    # every path of write_rates to `return` goes through the rename (or through an error exit)
    f = writer
    via_blocks = {v.bb for (k, c, v, _) in live_renames if v.fn is f}
    err_blocks = set()
    for c in f.calls:
        if c.short == 'from_residual':
            err_blocks.add(c.bb)
    for i, b in f.blocks.items():
        for s in b['stmts']:
            if s['dst']['l'] == 0 and s['r']['rv'] == 'agg' and s['r']['kind'].endswith('Result::Err'):
                err_blocks.add(i)
    reach = {0} | f.reachable_from(0, avoid=via_blocks | err_blocks)
    if 0 in via_blocks:
        reach = set()
    leaks = [e for e in f.exits if e in reach]
    if leaks and via_blocks:
        rep.violation('R14b', 'ok-return-without-rename', fn=f.name, where='%s:%d' % (f.file, f.line),
                      detail='write_rates can return without renaming the temp file into place and without reporting an error')
    elif via_blocks:
        rep.ok('R14b', 'ok-return-dominated-by-rename', fn=f.name, detail='every non-error path to return passes the commit (rename) step')

    # ---------------------------------------------------------------- R14c: error discipline
    for (k, c, v) in evs:
        if k in ('flush', 'sync', 'rename'):
            chain = [c] if c is v else [c, v]
            for cc in chain:
                if result_used(cc.fn, cc):
                    rep.ok('R14c', '%s|%s-result-used' % (cc.fn.name, short(cc.callee)), where=cc.where(), fn=cc.fn.name,
                           detail='Result of %s reaches `?`, a match or the return value' % short(cc.callee))
                else:
                    rep.violation('R14c', '%s|%s-result-used' % (cc.fn.name, short(cc.callee)), where=cc.where(), fn=cc.fn.name,
                                  detail='the Result of %s is discarded: a failed %s would still be followed by the rename / an Ok return'
                                         % (cc.callee, k))

    # ---------------------------------------------------------------- R14e: the live name is built in one place only
    def templates(fn):
        out = set()
        for b in fn.blocks.values():
            for st in b['stmts']:
                for o in st['r'].get('ops', []):
                    if o.get('k') == 'const' and re.search(r'^b?"', o.get('v', '')) and len(o['v']) > 6:
                        out.add(o['v'])
            t = b['term']
            if t and t['t'] == 'call':
                for o in t['args']:
                    if o.get('k') == 'const' and re.search(r'^b?"', o.get('v', '')) and len(o['v']) > 6:
                        out.add(o['v'])
        return out
    # the producer may take the bare file name from a helper of the cache module (`rates_csv_file_name(year)`)
    helpers = [g for g in prog.callees_closure([producer]).values() if g is not producer and in_module(g, module) and g.kind in ('Fn', 'AssocFn')]
    group = {producer.name} | {g.name for g in helpers}
    live_t = templates(producer)
    for g in helpers:
        live_t |= templates(g)
    dup = []
    if live_t:
        for fn in prog.product_fns():
            if any(fn.name == n or fn.name.startswith(n + '::') for n in group):
                continue
            if templates(fn) & live_t:
                dup.append(fn)
    # any other user of such a helper must turn its result into a different name (the temporary name: a constant suffix is appended)
    for g in helpers:
        for c in prog.callers.get(g.name, []):
            if c.fn.name in group or mir.is_testsupport(c.fn.name) or prog.owner_of(c.fn).name in group:
                continue
            t = mir.forward_taint(c.fn, {c.dst['l']})
            changed = False
            for x in c.fn.calls:
                if x.bb == c.bb or not x.args or x.arg_local(0) not in t:
                    continue
                if re.search(r'ops::Add<&(\'\w+ )?str>|String::push_str$|String::push$|ops::AddAssign<&(\'\w+ )?str>', x.callee + ' ' + x.decl) and len(x.args) > 1:
                    o2 = mir.provenance(c.fn, x.args[1])
                    if o2.consts and not o2.params and not [y for y in o2.calls if y.short not in ('deref', 'as_str', 'borrow', 'as_ref')]:
                        changed = True
            if not changed:
                # ... or calls the helper with a different constant text for one of its parameters than the producer of the live
                # name does (`name_with_suffix(dir, year, ".tmp")` beside `name_with_suffix(dir, year, "")`): the same template
                # filled differently is a different name
                def const_text(f_, a_):
                    if a_.get('k') == 'const':
                        return a_.get('v') if re.search(r'^"', a_.get('v', '')) else None
                    oo = mir.provenance(f_, a_)
                    vs = {v for (ty_, v, *_r) in oo.consts if 'str' in ty_}
                    if len(vs) == 1 and not oo.params and not [y for y in oo.calls if y.short not in ('deref', 'as_str', 'borrow', 'as_ref')]:
                        v = vs.pop()
                        if v.startswith('"'):
                            return v
                        h = prog.fns.get(v)        # a named constant
                        if h is not None:
                            for b_ in h.blocks.values():
                                for st_ in b_['stmts']:
                                    for o_ in st_['r'].get('ops', []):
                                        if o_.get('k') == 'const' and str(o_.get('v', '')).startswith('"'):
                                            return o_['v']
                    return None
                pcs = [x for h in [producer] + helpers for x in h.calls if x.callee == c.callee and h.name in group]
                for pc in pcs:
                    for ai, a_ in enumerate(c.args):
                        if ai < len(pc.args):
                            va, vp = const_text(c.fn, a_), const_text(pc.fn, pc.args[ai])
                            if va is not None and vp is not None and va != vp:
                                changed = True
            if not changed:
                dup.append(c.fn)
    if not live_t:
        rep.violation('R14e', 'anchor-lost:live-name-template', fn=producer.name, detail='anchor lost: the format template of the live cache file name')
    elif dup:
        rep.violation('R14e', 'live-name-built-in-one-place', fn=dup[0].name, where='%s:%d' % (dup[0].file, dup[0].line),
                      detail='%s builds the live cache file name itself (same format template as %s): files opened through it escape the path analysis' % (dup[0].name, producer.name))
    else:
        rep.ok('R14e', 'live-name-built-in-one-place', fn=producer.name, detail='no other function carries the format template of the live cache file name')

    # ---------------------------------------------------------------- who else writes rate files?
    for c in prog.all_calls():
        if c.fn.name == producer.name:
            continue
    rep.extra['live_name_producer'] = producer.name
