"""C17 — total-cost tables: structural clauses of the cost tracker.
  R17a  a day's figures are filed under the transaction's settlement date, and the figure observed is the post-status cost base;
  R17b  only the default, non-registered affiliate contributes, and every transaction that is skipped is listed as ignored;
  R17c  several settlements of a security on one day combine by maximum, and the row total is kept equal to the sum
        (total - old + new on every update);
  R17d  the yearly table files each day under that day's own year and replaces the remembered day only for a strictly
        larger total, comparing the days' totals."""
import re

import mir
from mir import short, is_place, op_local

LEVEL = 'other'
EXPLANATION = ('Decides necessary structural clauses of C17 (that the figures are the true maxima is a relation over run-time sequences and is '
               'not decided): '
               'per-day figures are keyed by Tx.settlement_date and take post_status.total_acb; rows of other / registered affiliates are '
               'skipped only together with a note in the ignored list; same-day observations combine by max and the total is updated as '
               'total - old + new; the yearly table keys a day by its own year and keeps the earlier day unless the new total is strictly larger; '
               'nothing is recorded before the skip filters; the figure carried to days without a transaction is the closing cost, not the '
               'day maximum; every delta reaches the cost pass unfiltered; a security\'s opening cost is recorded once.')
TRUSTED_BASE = ['rustc nightly MIR construction and trait resolution']
ASSUMPTIONS = []

MOD = 'portfolio::bookkeeping::costs::'
SKEY = r"&?(?:'\w+ )?std::string::String"      # the security key of the per-security maps, owned or borrowed
DAY = MOD + 'MaxSingleDayCosts'


def truth_edge(vals, neg):
    return (vals != [0]) if vals is not None else (0 in (neg or []))


def run(prog, rep, tier='quick', config='default'):
    fns = [f for f in prog.product_fns() if f.name.startswith(MOD)]
    if not rep.anchor('module portfolio::bookkeeping::costs', fns):
        return
    # the observer: a method of the day record that takes &mut self and updates `total`
    obs = [f for f in fns if f.kind == 'AssocFn' and any(mir.place_fields(s['dst'])[-1:] == [(DAY, 'total')] for b in f.blocks.values() for s in b['stmts'])]
    # the per-delta pass: iterates TxDeltas and calls the observer
    passes = [f for f in fns if obs and any(c.callee == obs[0].name for c in f.calls) and
              any('txdelta::TxDelta' in f.ty.get(nc.arg_local(0), '') for (nc, h, b) in f.iterator_loops())]
    if not rep.anchor('cost observer (updates MaxSingleDayCosts.total)', obs) or not rep.anchor('per-delta pass over the TxDeltas', passes):
        return
    ob, ps = obs[0], passes[0]

    r17i(prog, rep, ps, ob)
    # ------------------------------------------------------------------ R17a
    loops = [(nc, h, b) for (nc, h, b) in ps.iterator_loops() if 'txdelta::TxDelta' in ps.ty.get(nc.arg_local(0), '')]
    nc, header, body = loops[0]
    keyed = [c for c in ps.calls if c.bb in body and c.short in ('insert', 'get_mut', 'contains_key', 'entry') and
             re.search(r'HashMap<time::Date, ', ps.ty.get(c.arg_local(0), ''))]
    bad_key = []
    for c in keyed:
        o = mir.provenance(ps, c.args[1], follow_all_call_args=True)
        ds = {fl for of, fl in o.fields if of.endswith('model::tx::Tx') and 'date' in fl}
        if ds != {'settlement_date'}:
            bad_key.append((c, ds))
    if not keyed:
        rep.violation('R17a', 'anchor-lost:day-map', fn=ps.name, detail='anchor lost: the per-day map keyed by Date')
    elif bad_key:
        c, ds = bad_key[0]
        rep.violation('R17a', 'days-keyed-by-settlement-date', where=c.where(), fn=ps.name, detail='a day\'s figures are filed under Tx.%s (must be the settlement date)' % sorted(ds))
    else:
        rep.ok('R17a', 'days-keyed-by-settlement-date', where=keyed[0].where(), fn=ps.name, detail='%d accesses of the per-day map, all keyed by Tx.settlement_date' % len(keyed))
    calls_obs = [c for c in ps.calls if c.callee == ob.name and c.bb in body]
    for c in calls_obs:
        o = mir.provenance(ps, c.args[-1], follow_all_call_args=True)
        fs = {(of.rsplit('::', 1)[-1], fl) for of, fl in o.fields}
        if ('TxDelta', 'post_status') in fs and ('PortfolioSecurityStatus', 'total_acb') in fs and ('TxDelta', 'pre_status') not in fs:
            rep.ok('R17a', 'observed-figure-is-post-status-cost-base', where=c.where(), fn=ps.name, detail='observe(sec, delta.post_status.total_acb)')
        else:
            rep.violation('R17a', 'observed-figure-is-post-status-cost-base', where=c.where(), fn=ps.name,
                          detail='the figure recorded for a settlement is not the cost base after the transaction (post_status.total_acb)')

    # ------------------------------------------------------------------ R17b
    # entry of the loop body; every path back to the header that avoids the observer call passes a push onto a Vec<String>
    sw = ps.blocks[nc.target]['term'] if nc.target in ps.blocks else None
    entry = None
    if sw and sw['t'] == 'switch':
        entry = ([tg for v, tg in sw['targets'] if v == 1] or [sw['otherwise']])[0]
    notes = {c.bb for c in ps.calls if c.bb in body and c.short == 'push' and re.search(r'Vec<std::string::String>', ps.ty.get(c.arg_local(0), ''))}
    obs_b = {c.bb for c in calls_obs}
    if entry is None or not notes:
        rep.violation('R17b', 'anchor-lost:ignored-notes', fn=ps.name, detail='anchor lost: the list of ignored transactions')
    elif ps.reaches(entry, header, avoid=notes | obs_b):
        rep.violation('R17b', 'skipped-transactions-are-listed', fn=ps.name, where=nc.where(),
                      detail='a transaction can be skipped by the cost tracker without being listed as ignored')
    else:
        rep.ok('R17b', 'skipped-transactions-are-listed', fn=ps.name, where=nc.where(), detail='every iteration either records a cost or pushes an "ignored" note')
    # R17e: nothing is recorded for a transaction that may still be skipped (state updates come after the filters)
    if entry is not None and notes:
        early = []
        for c in ps.calls:
            if c.bb not in body or c.bb in notes or '$crate::event' in c.exp:
                continue
            a0 = c.arg_local(0)
            if a0 is None or not ps.ty.get(a0, '').startswith('&mut'):
                continue
            if c.short not in ('insert', 'push', 'entry', 'get_mut', 'remove', 'extend') and c.callee != ob.name:
                continue
            if re.search(r'Vec<std::string::String>', ps.ty.get(a0, '')):
                continue
            # can a note (= a skip) still follow within this iteration?
            if any(ps.reaches(c.bb, nb, avoid={header}) for nb in notes):
                early.append(c)
        if early:
            rep.violation('R17e', 'nothing-recorded-before-the-skip-filters', where=early[0].where(), fn=ps.name,
                          detail='%s records state for a transaction that can still be skipped as "ignored" afterwards: figures of other / registered affiliates '
                                 'would leak into the table (e.g. an opening cost base of 0 taken from another affiliate\'s row)' % short(early[0].callee))
        else:
            rep.ok('R17e', 'nothing-recorded-before-the-skip-filters', fn=ps.name, detail='every state update of the pass lies after both skip filters')
    # the two skip conditions: no cost base (registered) and non-default affiliate
    conds = set()
    for nb in notes:
        for (sbb, discr, vals, neg) in ps.conditions_at(nb):
            d = mir.provenance(ps, discr, follow_all_call_args=True)
            if any(fl == 'total_acb' for of, fl in d.fields):
                conds.add('no-cost-base')
            if d.has_call(r'Affiliate::is_default$'):
                conds.add('non-default-affiliate')
    if not conds >= {'no-cost-base', 'non-default-affiliate'}:
        # the decision made by a helper that answers `Ok(cost base)` or `Err(reason)`: the note is written on its Err answer, and its Ok
        # answer carries the (present) cost base and is given only for the default affiliate
        for nb in notes:
            for (sbb, discr, vals, neg) in ps.conditions_at(nb):
                dl = op_local(discr) if is_place(discr) else None
                dd = ps.single_def(dl) if dl is not None else None
                if not (dd and dd[2] == 'stmt' and dd[3]['r']['rv'] == 'discr'):
                    continue
                src = mir.provenance(ps, {'k': 'copy', 'pl': dd[3]['r']['pl']})
                for hc in src.calls:
                    h = prog.resolve(hc.callee, ps.crate)
                    if h is None or not h.name.startswith(MOD.rsplit('::', 2)[0]) or not re.search(r'Result<|Option<', h.ty.get(0, '') or ''):
                        continue
                    oks = [(i, st) for i, b in h.blocks.items() for st in b['stmts'] if st['dst']['l'] == 0 and not st['dst']['p'] and
                           st['r']['rv'] == 'agg' and (st['r']['kind'].endswith('Result::Ok') or st['r']['kind'].endswith('Option::Some'))]
                    good = bool(oks)
                    for (i, st) in oks:
                        po = mir.provenance(h, st['r']['ops'][0], follow_all_call_args=True) if st['r']['ops'] and is_place(st['r']['ops'][0]) else None
                        has_acb = po is not None and any(fl == 'total_acb' for of, fl in po.fields)
                        dflt = False
                        for (sb2, d2, v2, n2) in h.conditions_at(i):
                            o2 = mir.provenance(h, d2, follow_all_call_args=True)
                            if o2.has_call(r'Affiliate::is_default$'):
                                flipped = (len({id(x_) for op_, x_ in list(o2.binops) + list(o2.unops) if op_ == 'Not'}) % 2 == 1)
                                truth = (v2 != [0]) if v2 is not None else (0 in (n2 or []))
                                if truth != flipped:
                                    dflt = True
                        good = good and has_acb and dflt
                    if good:
                        conds |= {'no-cost-base', 'non-default-affiliate'}
    if conds >= {'no-cost-base', 'non-default-affiliate'}:
        rep.ok('R17b', 'only-default-non-registered-affiliate-counts', fn=ps.name, detail='skips are conditioned on "no cost base" and on !affiliate.is_default()')
    else:
        rep.violation('R17b', 'only-default-non-registered-affiliate-counts', fn=ps.name, where=nc.where(),
                      detail='the cost tracker no longer restricts itself to the default, non-registered affiliate (found conditions: %s)' % sorted(conds))

    # ------------------------------------------------------------------ R17c
    ins = [c for c in ob.calls if c.short == 'insert' and re.search(r'HashMap<' + SKEY + r', util::decimal::ConstrainedDecimal', ob.ty.get(c.arg_local(0), ''))]
    if ins:
        o = mir.provenance(ob, ins[0].args[-1], follow_all_call_args=True)
        if o.has_call(r'Decimal::max$|cmp::Ord::max$|cmp::max$') and not o.has_call(r'Decimal::min$|cmp::min$'):
            rep.ok('R17c', 'same-day-observations-combine-by-max', where=ins[0].where(), fn=ob.name, detail='stored figure = max(previous figure of the day, new cost)')
        else:
            rep.violation('R17c', 'same-day-observations-combine-by-max', where=ins[0].where(), fn=ob.name,
                          detail='the figure stored for a security on a day is not the maximum of the day\'s observations')
    else:
        rep.violation('R17c', 'anchor-lost:per-security-insert', fn=ob.name, detail='anchor lost: per-security figure of the day')
    tot = [s for b in ob.blocks.values() for s in b['stmts'] if mir.place_fields(s['dst'])[-1:] == [(DAY, 'total')]]
    if tot:
        o = mir.provenance(ob, tot[0]['r']['ops'][0], follow_all_call_args=True)
        subs = [c for c in o.calls if re.search(r'std::ops::Sub::sub$', c.decl)]
        adds = [c for c in o.calls if re.search(r'std::ops::Add::add$', c.decl)]
        uses_total = any(of == DAY and fl == 'total' for of, fl in o.fields)
        if subs and adds and uses_total:
            rep.ok('R17c', 'row-total-kept-equal-to-the-sum', where=ob.where(tot[0]), fn=ob.name, detail='total = total - old figure + new figure')
        else:
            rep.violation('R17c', 'row-total-kept-equal-to-the-sum', where=ob.where(tot[0]), fn=ob.name,
                          detail='the row total is not updated as (total - old + new): it would drift from the sum of the securities\' figures')

    # ------------------------------------------------------------------ R17f: what is carried forward is the closing cost, not the day maximum
    maxfield = None
    if ins:
        for (of, fl) in mir.provenance(ob, ins[0].args[0]).fields:
            if of == DAY:
                maxfield = fl
    carry = []
    for c in ps.calls:
        if c.short != 'insert' or ps.loop_of(c.bb) is None:
            continue
        if not re.search(r'^&mut std::collections::HashMap<' + SKEY + r', util::decimal::ConstrainedDecimal', ps.ty.get(c.arg_local(0), '')):
            continue
        o = mir.provenance(ps, c.args[0])
        if any(of == DAY for (of, fl) in o.fields):
            continue        # a map inside the day record, not the carry map
        root = mir.nearest_user_local(ps, c.args[0])
        if root is not None and not ps.is_param(root):
            carry.append(c)
    if not carry or maxfield is None:
        rep.violation('R17f', 'anchor-lost:carry-forward-map', fn=ps.name,
                      detail='anchor lost: the per-security map that carries a cost base forward to days without a transaction')
    for n, c in enumerate(carry, 1):
        o = mir.provenance(ps, c.args[-1], follow_all_call_args=True)
        k = 'carried-figure-is-the-closing-cost#%d' % n
        if any(of == DAY and fl == maxfield for (of, fl) in o.fields) or o.has_call(r'Decimal::max$|cmp::Ord::max$|cmp::max$'):
            rep.violation('R17f', k, where=c.where(), fn=ps.name,
                          detail='the figure carried forward to later days is read from %s.%s, the day\'s *maximum*: a security bought and sold '
                                 'down on one day keeps showing that day\'s peak on every later row instead of its cost base after its most recent '
                                 'transaction' % (short(DAY), maxfield))
        else:
            rep.ok('R17f', k, where=c.where(), fn=ps.name,
                   detail='the carried figure does not pass through the per-day maximum (%s.%s)' % (short(DAY), maxfield))

    # ------------------------------------------------------------------ R17g: the cost pass sees every delta (others are *listed* as ignored there)
    FILTERS = {'filter', 'filter_map', 'retain', 'retain_mut', 'take', 'take_while', 'skip', 'skip_while', 'step_by', 'dedup', 'dedup_by',
               'dedup_by_key', 'truncate', 'drain', 'split_off', 'pop', 'remove', 'swap_remove', 'map_while', 'find', 'last', 'nth'}
    entry = [f for f in fns if f.kind in ('Fn', 'AssocFn') and any(c.callee == ps.name for c in f.calls)]
    tops = entry or [ps]
    feed_sites = []
    for top in tops:
        for c in prog.callers.get(top.name, []):
            if mir.is_testsupport(c.fn.name) or c.fn.name.startswith(MOD):
                continue
            feed_sites.append(c)
    if not feed_sites:
        rep.violation('R17g', 'anchor-lost:cost-table-caller', detail='anchor lost: no product caller hands a delta list to the cost tables')
    for n, c in enumerate(feed_sites, 1):
        f = c.fn
        root = mir.nearest_user_local(f, c.args[0])
        if root is None or (f.kind == 'Closure' and f.is_param(root)):
            # the call sits in a closure (`flag.then(|| calc_total_costs(&all_deltas))`): judge the captured list in the owner
            of, ol = mir.owner_local_of_upvar(prog, f, c.args[0])
            if of is not None:
                f, root = of, ol
        k = '%s|every-delta-reaches-the-cost-pass#%d' % (f.name.split('::{')[0], n)
        if root is None:
            rep.violation('R17g', k, where=c.where(), fn=f.name, detail='anchor lost: the delta list handed to the cost tables is not a local variable')
            continue
        bad = None
        n_feed = 0
        for x in f.calls:
            if not x.args or mir.nearest_user_local(f, x.args[0]) != root or x is c or x.bb == c.bb and x.fn is c.fn:
                continue
            if x.short in FILTERS:
                bad = (x, '%s() on the delta list' % x.short)
            if x.short in ('sort', 'sort_by', 'sort_by_key', 'sort_unstable', 'sort_unstable_by', 'sort_unstable_by_key', 'sort_by_cached_key',
                           'reverse', 'swap', 'rotate_left', 'rotate_right', 'select_nth_unstable'):
                bad = (x, '%s() re-orders the delta list: the cost pass relies on each security\'s deltas arriving in processing order '
                          '(the last one of a day is its closing cost; a generated adjustment compares equal to its sale)' % x.short)
            if x.short in ('append', 'extend', 'push', 'extend_from_slice') and len(x.args) > 1:
                n_feed += 1
                o = mir.provenance(f, x.args[1], follow_all_call_args=True)
                fl = [y for y in o.calls if y.short in FILTERS and y.decl.startswith('std::')]
                if fl:
                    bad = (fl[0], 'the deltas added to the list pass through %s()' % fl[0].short)
        if bad:
            x, why = bad
            rep.violation('R17g', k, where=x.where(), fn=f.name,
                          detail=(why if 're-orders' in why else '%s: transactions of other affiliates (or whatever else is dropped) never reach the cost '
                                  'pass, so they are neither counted nor listed as ignored' % why))
        elif n_feed == 0:
            rep.violation('R17g', k, where=c.where(), fn=f.name, detail='anchor lost: nothing is appended to the delta list handed to the cost tables')
        else:
            rep.ok('R17g', k, where=c.where(), fn=f.name, detail='%d append/extend site(s) feed the list, none through a filtering adaptor' % n_feed)

    # ------------------------------------------------------------------ R17h: the opening cost of a security is recorded once
    # the map holding, per security, the cost base before its first transaction: keyed by the security (String), its values derive
    # from `TxDelta.pre_status` — whatever the value type is (a (date, cost) tuple today, possibly a small struct)
    def _is_open_map_ty(t):
        return re.search(r"(HashMap|Entry|VacantEntry|OccupiedEntry)<.*&?('\w+ )?std::string::String, ", t or '') is not None
    open_tys = set()
    for c in ps.calls:
        if c.short in ('insert', 'or_insert', 'or_insert_with', 'or_insert_with_key') and c.args and _is_open_map_ty(ps.ty.get(c.arg_local(0), '')):
            vo = mir.provenance(ps, c.args[-1], follow_all_call_args=True)
            vf = set(vo.fields)
            for kind in vo.aggs:
                g2 = prog.by_crate[ps.crate].get(kind[len('closure:'):]) if kind.startswith('closure:') else None
                if g2 is not None:
                    vf |= {x for b2 in g2.blocks.values() for st in b2['stmts'] for pl in g2.stmt_sources(st) for x in mir.place_fields(pl)}
            if any(fl == 'pre_status' for (_, fl) in vf):
                m = re.search(r'std::string::String, (.*?)(, std::hash::RandomState|>$|, std::alloc)', ps.ty.get(c.arg_local(0), '') or '')
                if m:
                    open_tys.add(m.group(1))
    vt = '|'.join(re.escape(t) for t in sorted(open_tys)) or r'\(time::Date, util::decimal::ConstrainedDecimal'
    OPEN_RX = r"HashMap<" + SKEY + r", (%s)" % vt
    opens = [c for c in ps.calls if c.short == 'insert' and re.search(OPEN_RX, ps.ty.get(c.arg_local(0), ''))]
    # `entry(sec).or_insert(..)` writes only when absent by construction
    entry_inserts = [c for c in ps.calls if c.short in ('or_insert', 'or_insert_with', 'or_insert_with_key', 'or_default') and
                     re.search(r'Entry<.*' + SKEY + r', (%s)' % vt, ps.ty.get(c.arg_local(0), ''))]
    # `match map.entry(sec) { Entry::Vacant(v) => v.insert(..), .. }`: a vacant entry is absent by construction
    entry_inserts += [c for c in ps.calls if c.short == 'insert' and
                      re.search(r'VacantEntry<.*' + SKEY + r', (%s)' % vt, ps.ty.get(c.arg_local(0), ''))]
    overwrites = [c for c in ps.calls if c.short in ('insert', 'get_mut', 'into_mut', 'insert_entry') and
                  re.search(r'OccupiedEntry<.*' + SKEY + r', (%s)' % vt, ps.ty.get(c.arg_local(0), ''))]
    for c in overwrites:
        rep.violation('R17h', 'opening-cost-recorded-once#occupied', where=c.where(), fn=ps.name,
                      detail='the entry holding a security\'s cost base before its first transaction is changed through an occupied entry (%s)' % c.short)
    for n, c in enumerate(entry_inserts, 1):
        rep.ok('R17h', 'opening-cost-recorded-once#e%d' % n, where=c.where(), fn=ps.name, detail='recorded through the entry API (%s): only when absent' % c.short)
    if not opens and not entry_inserts:
        rep.violation('R17h', 'anchor-lost:opening-cost-map', fn=ps.name, detail='anchor lost: the map holding each security\'s cost base before its first transaction')
    for n, c in enumerate(opens, 1):
        guarded = False
        for (sbb, discr, vals, neg) in ps.conditions_at(c.bb):
            d = mir.provenance(ps, discr, follow_all_call_args=True)
            absent_edge = False
            for x in d.calls:
                if x.short == 'contains_key' and re.search(OPEN_RX, ps.ty.get(x.arg_local(0), '')):
                    absent_edge = not truth_edge(vals, neg)
                if x.short == 'get' and re.search(OPEN_RX, ps.ty.get(x.arg_local(0), '')) and ps._is_discr_of(discr, x.dst['l']):
                    absent_edge = (vals == [0])
            guarded = guarded or absent_edge
        k = 'opening-cost-recorded-once#%d' % n
        if guarded:
            rep.ok('R17h', k, where=c.where(), fn=ps.name, detail='inserted only when the security has no entry yet')
        else:
            rep.violation('R17h', k, where=c.where(), fn=ps.name,
                          detail='the entry holding a security\'s cost base before its first transaction is overwritten by later transactions: '
                                 'rows before the first settlement show a later figure instead of the opening cost base')

    # ------------------------------------------------------------------ R17d: yearly table
    yearly = [f for f in fns if f.kind in ('Fn', 'AssocFn') and any(c.callee == 'time::Date::year' for c in f.calls) and
              any(re.search(r'HashMap<i32, time::Date>', t) for t in f.ty.values())]
    if rep.anchor('yearly-maximum function (HashMap<i32, Date>)', yearly):
        f = yearly[0]
        insy = [c for c in f.calls if c.short == 'insert' and re.search(r'HashMap<i32, time::Date>', f.ty.get(c.arg_local(0), ''))]
        # the same store through the entry API: `match map.entry(day.year()) { Occupied(e) => .. e.insert(day), Vacant(e) => e.insert(day) }`
        YENTRY = r'(Occupied|Vacant)Entry<.*i32, time::Date'
        einsy = [c for c in f.calls if c.short == 'insert' and re.search(YENTRY, f.ty.get(c.arg_local(0), '') or '') and len(c.args) == 2]
        okk = True
        for c in insy:
            ko = mir.provenance(f, c.args[1], follow_all_call_args=True)
            vo = mir.provenance(f, c.args[2], follow_all_call_args=True)
            if not ko.has_call(r'time::Date::year$') or not (ko.locals & vo.locals):
                okk = False
        for c in einsy:
            eo = mir.provenance(f, c.args[0], follow_all_call_args=False)
            ent = [x for x in eo.calls if x.short == 'entry' and re.search(r'HashMap<i32, time::Date>', f.ty.get(x.arg_local(0), '') or '') and len(x.args) > 1]
            if not ent:
                okk = False
                continue
            ko = mir.provenance(f, ent[0].args[1], follow_all_call_args=True)
            vo = mir.provenance(f, c.args[1], follow_all_call_args=True)
            if not ko.has_call(r'time::Date::year$') or not (ko.locals & vo.locals):
                okk = False
        insy = insy + einsy
        if insy and okk:
            rep.ok('R17d', 'day-filed-under-its-own-year', where=insy[0].where(), fn=f.name, detail='insert(day.year(), day) for the same day (%d sites)' % len(insy))
        else:
            rep.violation('R17d', 'day-filed-under-its-own-year', fn=f.name, where=insy[0].where() if insy else '', detail='a day is filed under a year that is not its own')
        cmps = [c for c in f.calls if re.search(r'PartialOrd::(lt|gt|le|ge)$', c.decl)]
        good = False
        def fields_with_local_closures(x):
            # a total fetched by a local closure (`let total_on = |d| map[d].total; total_on(a) < total_on(b)`): what the closure reads
            fs = set(x.fields)
            for y in x.calls:
                if y.short in ('call', 'call_mut', 'call_once') and y.args:
                    g2 = mir._closure_fn_of(prog, f, y.args[0])
                    if g2 is None:
                        for l_ in mir.provenance(f, y.args[0]).locals:
                            g2 = g2 or mir._closure_fn_of(prog, f, {'k': 'copy', 'pl': {'l': l_, 'p': []}})
                    if g2 is not None:
                        for b_ in g2.blocks.values():
                            for st_ in b_['stmts']:
                                for pl_ in g2.stmt_sources(st_):
                                    fs |= set(mir.place_fields(pl_))
            return fs
        for c in cmps:
            o = [mir.provenance(f, a, follow_all_call_args=True) for a in c.args]
            tot_fields = [any(of == DAY and fl == 'total' for of, fl in fields_with_local_closures(x)) for x in o]
            if not all(tot_fields):
                continue
            op = re.search(r'PartialOrd::(\w+)$', c.decl).group(1)
            # which side is the remembered (old) day: derived from a HashMap<i32, Date>::get (or from the occupied entry's value)
            old_side = [i for i in (0, 1) if any(x.short == 'get' and re.search(r'HashMap<i32, time::Date>|OccupiedEntry<.*i32, time::Date', f.ty.get(x.arg_local(0), '') or '') for x in o[i].calls)]
            if len(old_side) != 1:
                continue
            opn = op if old_side[0] == 0 else {'lt': 'gt', 'gt': 'lt', 'le': 'ge', 'ge': 'le'}[op]
            # replacement happens on the true edge?
            sw = f.blocks[c.target]['term'] if c.target in f.blocks else None
            if sw and sw['t'] == 'switch':
                true_t = sw['otherwise']
                replaces_on_true = any(x.bb == true_t or f.reaches(true_t, x.bb) for x in insy) and not any(
                    (x.bb == tg or f.reaches(tg, x.bb)) for v, tg in sw['targets'] if v == 0 for x in insy if not (x.bb == true_t or f.reaches(true_t, x.bb)))
                if replaces_on_true and opn == 'lt':
                    good = True
                elif replaces_on_true:
                    rep.violation('R17d', 'replace-only-for-strictly-larger-total', where=c.where(), fn=f.name,
                                  detail='the remembered day is replaced when old.total %s new.total (must be strictly smaller): ties would move to a later day' % {'le': '<=', 'gt': '>', 'ge': '>='}[opn])
                    good = None
        if good is False and insy:
            # the same decision through a closure / bool variable (`get(&year).map_or(true, |best| new.total > best.total)`):
            # enumerate the paths to the insert over the atoms "a day is remembered" and "old.total <op> new.total"
            YMAP = r'HashMap<i32, time::Date>'

            def atom(fn, c):
                a0 = fn.ty.get(c.arg_local(0), '') if c.args else ''
                if c.short == 'get' and re.search(YMAP, a0):
                    return ('remembered', 'option')
                if c.short == 'contains_key' and re.search(YMAP, a0):
                    return ('remembered', 'bool')
                m = re.search(r'PartialOrd::(lt|gt|le|ge)$', c.decl)
                if m and len(c.args) == 2:
                    o = [mir.provenance(fn, a, follow_all_call_args=True) for a in c.args]
                    if not all(any(of == DAY and fl == 'total' for of, fl in x.fields) for x in o):
                        return None
                    old = [i for i in (0, 1) if any(x.short == 'get' and re.search(YMAP, fn.ty.get(x.arg_local(0), '')) for x in o[i].calls) or
                           (fn.kind == 'Closure' and (o[i].params - {1}))]
                    if len(old) != 1:
                        return None
                    op = m.group(1) if old[0] == 0 else {'lt': 'gt', 'gt': 'lt', 'le': 'ge', 'ge': 'le'}[m.group(1)]
                    return ('old_%s_new' % op, 'bool')
                return None
            verdicts = []
            for c in insy:
                paths = mir.symbolic_paths(f, 0, c.bb, atom, prog=prog)
                if paths is None or not paths:
                    verdicts.append(None)
                    continue
                def strictly(p):
                    return p.get('remembered') is False or p.get('old_lt_new') is True or p.get('old_ge_new') is False
                verdicts.append(all(strictly(p) for p in paths) and any(p.get('remembered') is not False for p in paths))
            if verdicts and all(v is True for v in verdicts):
                good = True
            elif any(v is False for v in verdicts):
                rep.violation('R17d', 'replace-only-for-strictly-larger-total', where=insy[0].where(), fn=f.name,
                              detail='the remembered day can be replaced on a path where its total is not strictly smaller than the new day\'s total: ties would move to a later day')
                good = None
        if good:
            rep.ok('R17d', 'replace-only-for-strictly-larger-total', fn=f.name, detail='the remembered day is replaced only when its total is strictly smaller than the new day\'s total')
        elif good is False:
            rep.violation('R17d', 'anchor-lost:yearly-comparison', fn=f.name, detail='anchor lost: comparison of the remembered day\'s total with the new day\'s total')


def r17i(prog, rep, ps, ob):
    """every security has a figure on every day. (i) The carry-forward pass — the loop over the securities, inside the loop over
    the days, that calls the observer for a security without a figure of its own that day — runs over the whole security set: no
    filter / skip / take on the way (a security "not opened yet" has its opening cost base that day). (ii) Where the report reads a
    security's figure of a day, a missing entry is not papered over with a default (zero): the look-up is unwrapped or indexed."""
    DROPS = {'filter', 'filter_map', 'skip', 'skip_while', 'take', 'take_while', 'step_by', 'map_while', 'retain', 'dedup', 'truncate', 'drain', 'pop',
             'remove', 'swap_remove', 'split_off'}
    n = 0
    view = mir.inline_view(prog, getattr(ps, 'origin', ps))
    for f in {id(x): x for x in (ps, view)}.values():
        for (nc, header, body) in f.iterator_loops():
            obs_calls = [c for c in f.calls if c.bb in body and c.callee == ob.name]
            outer = [1 for (nc2, h2, b2) in f.iterator_loops() if h2 != header and header in b2]
            if not obs_calls or not outer or 'txdelta::TxDelta' in (f.ty.get(nc.arg_local(0), '') or ''):
                continue
            inner = [1 for (nc2, h2, b2) in f.iterator_loops() if h2 != header and h2 in body and any(c.bb in b2 for c in obs_calls)]
            if inner:
                continue
            n += 1
            src = mir.provenance(f, nc.args[0], follow_all_call_args=True)
            dropped = [x for x in src.calls if x.short in DROPS and (x.decl.startswith('std::iter::') or 'vec::Vec' in x.callee or 'slice' in x.callee)]
            k = 'carry-forward-visits-every-security'
            if dropped:
                rep.violation('R17i', k, where=dropped[0].where(), fn=ps.name,
                              detail='the securities whose figure is carried forward into a day pass through %s() first: a security it leaves out has no figure '
                                     'that day (e.g. its opening cost base before its first transaction) and is missing from the row total' % dropped[0].short)
            else:
                rep.ok('R17i', k, where=nc.where(), fn=ps.name, detail='the carry-forward loop runs over the whole security set')
            break
        if n:
            break
    if n == 0:
        rep.violation('R17i', 'anchor-lost:carry-forward-loop', fn=ps.name, detail='anchor lost: the loop over the securities inside the loop over the days that carries figures forward')
    # (ii) readers of the per-security figures of a day
    FIG = 'sec_max_cost_for_day'
    n_r = 0
    bad = None
    for f in prog.product_fns():
        if mir.is_testsupport(f.name) or f.name.startswith(MOD):
            continue
        for c in f.calls:
            if c.short not in ('get', 'index') or not c.args:
                continue
            ro = mir.provenance(f, c.args[0])
            flds = set(ro.fields)
            if f.kind == 'Closure' and ro.upvars:
                f2, _cs = mir.origins_with_captures(prog, prog.owner_of(f), f, c.args[0])
                flds |= set(f2)
                for b in prog.owner_of(f).blocks.values():
                    for st in b['stmts']:
                        if st['r']['rv'] == 'agg' and st['r']['kind'] == 'closure:' + f.name:
                            for o in st['r']['ops']:
                                if is_place(o):
                                    flds |= set(mir.provenance(prog.owner_of(f), o).fields)
            if not any(fl == FIG for (_of, fl) in flds):
                continue
            n_r += 1
            if c.short == 'index':
                continue
            t = mir.forward_taint(f, {c.dst['l']}, stop=lambda x: not re.search(r'^std::option::Option', x.callee))
            soft = [x for x in f.calls if x.short in ('unwrap_or', 'unwrap_or_default', 'unwrap_or_else', 'map_or', 'map_or_else', 'is_some', 'is_none', 'is_some_and', 'ok_or', 'ok_or_else')
                    and x.arg_local(0) in t and re.search(r'^std::option::Option', x.callee)]
            if soft and bad is None:
                bad = (f, soft[0])
    if bad:
        f, x = bad
        rep.violation('R17i', 'missing-figure-is-not-defaulted', where=x.where(), fn=f.name,
                      detail='a security\'s figure of a day is read with %s(): a security without an entry is shown with a default instead of its cost base '
                             '(and the row no longer adds up to its total)' % x.short)
    elif n_r:
        rep.ok('R17i', 'missing-figure-is-not-defaulted', fn='portfolio::render', detail='%d look-ups of a per-security figure, none with a default' % n_r)
    else:
        rep.violation('R17i', 'anchor-lost:figure-readers', detail='anchor lost: where the report reads MaxSingleDayCosts.sec_max_cost_for_day')
