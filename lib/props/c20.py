"""C20 — statement FMV extraction: the structural clause "page-order hints never cause a page to be skipped or a
non-existent page to be requested".  DESIGN.md 5.C20 (R20a sanitiser pass-through, R20b grow-only page cache)."""
import re

import mir
from mir import short, is_place, op_local

LEVEL = 'other'
EXPLANATION = ('Decides two necessary structural clauses of C20\'s page-hint sentence: (R20a) every page-group list that reaches the '
               'optimised page iterator was produced by the range sanitiser (safe_page_chunks_with_remainder*), which prunes out-of-range '
               'pages and appends the unlisted ones; (R20b) the loaded-page cache of LazyPageTextVec only grows (a shrinking resize would '
               'drop a loaded page that is still to be yielded). Not decided: the allocation-table text parser and month extraction.')
TRUSTED_BASE = ['rustc nightly MIR construction and trait resolution', 'the sanitiser body itself (pinned by an existing unit test)']
ASSUMPTIONS = []

SHRINKERS = {'truncate', 'clear', 'remove', 'pop', 'drain', 'swap_remove', 'split_off', 'retain', 'dedup', 'resize_with', 'take'}
SANITISER = r'safe_page_chunks_with_remainder'


def run(prog, rep, tier='quick', config='default'):
    if config == 'wasm':
        rep.ok('R20', 'not-in-this-config', detail='the PDF reader is not part of the wasm feature set', trivial=True)
        return
    adts = prog.adts('acb')
    cache_adts = [a for a in adts.values() if a['name'].startswith('peripheral::pdf::') and
                  any(re.search(r'Vec<std::option::Option<std::rc::Rc<std::string::String>>>', f['ty']) for v in a['variants'] for f in v['fields'])]
    if not rep.anchor('page-text cache struct in peripheral::pdf (a field Vec<Option<Rc<String>>>)', [a['name'] for a in cache_adts]):
        return
    adt = cache_adts[0]
    field = [f['name'] for v in adt['variants'] for f in v['fields'] if 'Vec<std::option::Option<std::rc::Rc' in f['ty']][0]
    rep.anchors['page cache field'] = '%s.%s' % (adt['name'], field)

    # ------------------------------------------------------------------ R20b
    n_mut = 0
    for fn in prog.product_fns():
        ordn = {}
        for c in fn.calls:
            if not re.search(r'^std::vec::Vec::<T, A>::|^std::vec::Vec::<T>::', c.callee):
                continue
            a0 = c.arg_local(0)
            if a0 is None or not fn.ty.get(a0, '').startswith('&mut'):
                continue
            org = mir.provenance(fn, c.args[0])
            if (adt['name'], field) not in org.fields:
                continue
            n_mut += 1
            ordn[c.short] = ordn.get(c.short, 0) + 1
            k = '%s|%s#%d' % (fn.name, c.short, ordn[c.short])
            if c.short in SHRINKERS:
                rep.violation('R20b', k, where=c.where(), fn=fn.name,
                              detail='%s on the loaded-page cache can discard a page that was loaded and is still to be yielded' % c.short)
            elif c.short == 'resize':
                ok, why = guarded_growth(prog, fn, c, adt['name'], field)
                if ok:
                    rep.ok('R20b', k, where=c.where(), fn=fn.name, detail='resize only grows: %s' % why)
                else:
                    rep.violation('R20b', k, where=c.where(), fn=fn.name,
                                  detail='Vec::resize on the loaded-page cache is not guarded by len() < new_len (%s): a page group listing a '
                                         'lower page after a higher one (e.g. [3, 1]) truncates the cache and the iterator then indexes a '
                                         'dropped page' % why)
            else:
                rep.ok('R20b', k, where=c.where(), fn=fn.name, detail='%s does not shrink the cache' % c.short, trivial=True)
        # whole-field stores: `self.page_texts = ...` after construction
        for b in fn.blocks.values():
            for s in b['stmts']:
                fs = mir.place_fields(s['dst'])
                if fs and fs[-1] == (adt['name'], field) and fn.kind != 'Closure':
                    rep.violation('R20b', '%s|field-store' % fn.name, where=fn.where(s), fn=fn.name,
                                  detail='the page cache is replaced wholesale outside the constructor')
    if n_mut == 0:
        rep.violation('R20b', 'anchor-lost:page-cache-mutation', detail='anchor lost: no mutation of the page cache found (where are pages stored?)')

    # ------------------------------------------------------------------ R20a
    sinks = {}
    iters = [a for a in adts.values() if a['name'].startswith('peripheral::pdf::') and
             any(re.search(r'Vec<std::vec::Vec<u32>>', f['ty']) for v in a['variants'] for f in v['fields'])]
    if not rep.anchor('page iterator struct in peripheral::pdf (a field Vec<Vec<u32>>)', [a['name'] for a in iters]):
        return
    it_name = iters[0]['name']
    # constructors: functions in peripheral::pdf that build the iterator struct from a Vec<Vec<u32>> parameter
    for fn in prog.product_fns():
        if not fn.name.startswith('peripheral::pdf::'):
            continue
        for b in fn.blocks.values():
            for s in b['stmts']:
                if s['r']['rv'] == 'agg' and s['r']['kind'].startswith('adt:' + it_name):
                    for o in s['r']['ops']:
                        l = op_local(o)
                        if l is not None and 'Vec<std::vec::Vec<u32>>' in fn.ty.get(l, ''):
                            org = mir.provenance(fn, o)
                            for p in org.params:
                                sinks[(fn.name, p)] = 'constructs %s' % it_name
    rep.anchor('constructor of the page iterator taking the page groups', sorted('%s#%d' % k for k in sinks))
    n_sites = 0
    changed = True
    checked = set()
    while changed:
        changed = False
        for (sname, pidx) in list(sinks):
            for c in prog.callers.get(sname, []):
                fn = c.fn
                if mir.is_testsupport(fn.name) or (fn.name, c.bb, pidx) in checked:
                    continue
                checked.add((fn.name, c.bb, pidx))
                if pidx - 1 >= len(c.args):
                    continue
                arg = c.args[pidx - 1]
                org = mir.provenance(fn, arg)
                k = '%s|%s' % (fn.name, short(sname))
                if org.has_call(SANITISER) and not [x for x in org.aggs if x == 'array']:
                    n_sites += 1
                    rep.ok('R20a', k, where=c.where(), fn=fn.name, detail='page groups come from %s' %
                           sorted(n for n in org.call_names() if re.search(SANITISER, n))[0])
                elif org.params and fn.name.startswith('peripheral::pdf::') and not org.has_call(r'vec::from_elem|into_vec|Vec::<T>::new|push'):
                    for p in org.params:
                        if (fn.name, p) not in sinks:
                            sinks[(fn.name, p)] = 'forwards to %s' % sname
                            changed = True
                    rep.ok('R20a', k + '|forwarder', where=c.where(), fn=fn.name, detail='forwards its own parameter; its callers are checked', trivial=True)
                else:
                    n_sites += 1
                    rep.violation('R20a', k, where=c.where(), fn=fn.name,
                                  detail='page groups reach the optimised page iterator without passing the range sanitiser '
                                         '(safe_page_chunks_with_remainder*): out-of-range pages would be requested and unlisted pages never visited')
    if n_sites == 0:
        rep.violation('R20a', 'anchor-lost:no-iterator-user', detail='anchor lost: no product call site constructs the optimised page iterator')
    r20cd(prog, rep, adt['name'], it_name)
    r20f(prog, rep)
    r20g(prog, rep)
    r20h(prog, rep)
    rep.extra['page_cache_mutation_sites'] = n_mut
    rep.extra['iterator_construction_sites'] = n_sites


def guarded_growth(prog, fn, c, adt, field):
    """is the resize call only reachable when len(cache) < new_len, or is the new length max(len, n)?"""
    new_len = c.args[1]
    org_n = mir.provenance(fn, new_len, follow_all_call_args=True)
    if org_n.has_call(r'cmp::max$|::max$') and org_n.has_call(r'Vec::<T, A>::len$|::len$'):
        return True, 'new length is max(len, n)'
    for (sbb, discr, vals, negvals) in fn.conditions_at(c.bb):
        org = mir.provenance(fn, discr)
        for (op, stmt) in org.binops:
            if op not in ('Lt', 'Le', 'Gt', 'Ge'):
                continue
            a, b = stmt['r']['ops']
            oa, ob = mir.provenance(fn, a, follow_all_call_args=True), mir.provenance(fn, b, follow_all_call_args=True)
            a_len = oa.has_call(r'::len$') and (adt, field) in oa.fields
            b_len = ob.has_call(r'::len$') and (adt, field) in ob.fields
            if not (a_len or b_len):
                continue
            # truth value taken on the edge leading to the resize
            if vals is not None:
                truth = (vals != [0])
            else:
                truth = (0 in (negvals or []))
            if a_len and ((op in ('Lt', 'Le') and truth) or (op in ('Ge', 'Gt') and not truth)):
                return True, 'guarded by len %s n' % op
            if b_len and ((op in ('Gt', 'Ge') and truth) or (op in ('Le', 'Lt') and not truth)):
                return True, 'guarded by n %s len' % op
            return False, 'guard has the wrong polarity'
    return False, 'no dominating comparison with len()'


LENCHG = {'filter', 'filter_map', 'skip', 'skip_while', 'take_while', 'take', 'step_by', 'retain', 'dedup', 'truncate', 'drain'}


def end_sites(prog, f, cache_adt, depth=0):
    """The places where the page iterator (or a helper whose None it propagates with `?`) ends the iteration.
    Returns (sites, bad): sites = [(bb, node)], bad = [(where, why)] for the sites that are neither "no page group left" nor
    "loading the group failed"."""
    sites, bad = [], []
    for i, b in f.blocks.items():
        for st in b['stmts']:
            if st['dst']['l'] == 0 and not st['dst']['p'] and st['r']['rv'] == 'agg' and st['r']['kind'].endswith('Option::None'):
                sites.append((i, st))
                ok_edge = False
                for (sbb, discr, vals, neg) in f.conditions_at(i):
                    d = mir.provenance(f, discr, follow_all_call_args=True)
                    cmp_len = any(op in ('Ge', 'Gt', 'Le', 'Lt', 'Eq') for op, _ in d.binops) and any(x.short == 'len' for x in d.calls)
                    load_err = any(x.short in ('is_err', 'is_ok') or (x.callee.startswith(cache_adt + '::')) for x in d.calls)
                    if cmp_len or load_err:
                        ok_edge = True
                if not ok_edge:
                    bad.append((f.where(st), 'None is returned on a path that tests neither "no group left" nor "loading failed"'))
    # `x?` on an Option: what is x?
    if any(c.short == 'from_residual' for c in f.calls):
        for c in f.calls:
            if c.short != 'branch' or not c.args or not re.search(r'^std::option::Option<', f.ty.get(c.arg_local(0), '') or ''):
                continue
            sites.append((c.bb, c.t))
            src = mir.provenance(f, c.args[0], follow_all_call_args=False)
            why = None
            helper = None
            for x in src.calls:
                g = prog.resolve(x.callee, f.crate)
                if x.short in ('pop_front', 'pop', 'pop_back', 'remove', 'front', 'back', 'first', 'last') and re.search(r'VecDeque|Vec', x.callee):
                    why = 'a `?` on an Option turns an empty queue into the end of the iteration'
                elif g is not None and g.kind in ('Fn', 'AssocFn') and re.search(r'^std::option::Option<', g.ty.get(0) or ''):
                    helper = g
            first = None
            d0 = f.single_def(c.arg_local(0)) if c.arg_local(0) is not None else None
            if d0 and d0[2] == 'call':
                first = f.call_at[d0[0]]
            if why is None and first is not None:
                if first.short in ('get', 'get_mut') and re.search(r'Vec<std::vec::Vec<u32|\[std::vec::Vec<u32', f.ty.get(first.arg_local(0), '') or ''):
                    continue          # page_groups.get(idx)?  — no group left
                if first.short in ('ok', 'err'):
                    o2 = mir.provenance(f, first.args[0], follow_all_call_args=False)
                    if any(x.callee.startswith(cache_adt + '::') for x in o2.calls):
                        continue      # load_pages(..).ok()?  — loading failed
                if helper is not None and prog.resolve(first.callee, f.crate) is helper and depth < 2:
                    hs, hb = end_sites(prog, helper, cache_adt, depth + 1)
                    if hs and not hb:
                        continue      # a helper that itself only ends on those two conditions
                    if hb:
                        bad.append(hb[0])
                        continue
            bad.append((c.where(), why or 'a `?` ends the iteration on a condition that is neither "no group left" nor "loading failed"'))
    return sites, bad


def r20cd(prog, rep, cache_adt, iter_adt):
    """R20c: every page popped by the iterator is yielded (no skipping); R20d: every requested page is loaded."""
    nxt = [f for f in prog.product_fns() if f.name.startswith('<' + iter_adt) and f.name.endswith('::next')]
    if rep.anchor('Iterator::next of the page iterator', nxt):
        f = nxt[0]
        pops = [c for c in f.calls if c.short in ('pop_front', 'pop', 'pop_back', 'remove') and re.search(r'VecDeque|Vec', c.callee)]
        k = '%s|popped-page-is-yielded' % f.name
        if not pops:
            rep.violation('R20c', 'anchor-lost:pop', fn=f.name, detail='anchor lost: the iterator no longer pops the next page number')
        else:
            in_loop = [c for c in pops if f.loop_of(c.bb) is not None]
            again = [c for c in pops if any(f.reaches(c.bb, d.bb) for d in pops)]
            if in_loop or again:
                c = (in_loop or again)[0]
                rep.violation('R20c', k, where=c.where(), fn=f.name,
                              detail='after taking a page number the iterator can take another one without yielding the first: a page of the document is skipped')
            else:
                # the popped page's text is unwrapped (a missing page is a bug, not something to skip)
                rep.ok('R20c', k, where=pops[0].where(), fn=f.name, detail='each call pops one page number and returns it (no loop back to another pop)')
        # R20e: the queue of pages to yield is the whole requested group; the iterator ends only when the groups are exhausted
        # or a load failed
        qstores = []
        # the refill may sit in a helper method of the iterator that `next` calls
        fgroup = [f] + [g for g in prog.callees_closure([f]).values() if g is not f and g.file == f.file and g.kind in ('Fn', 'AssocFn')]
        for g in fgroup:
            for i, b in g.blocks.items():
                for st in b['stmts']:
                    if any(re.search(r'VecDeque<u32', prog.field_type(of, fl) or '') for (of, fl) in mir.place_fields(st['dst'])[-1:]):
                        qstores.append((g, st, [o for o in st['r'].get('ops', []) if is_place(o)], g.where(st)))
                t = b['term']
                if t and t['t'] == 'call' and any(re.search(r'VecDeque<u32', prog.field_type(of, fl) or '') for (of, fl) in mir.place_fields(t['dst'])[-1:]):
                    qstores.append((g, t, [a for a in t['args'] if is_place(a)], g.where(t)))
        # ... or be written as `self.queue.extend(group)` on the (empty) queue
        for g in fgroup:
            for c in g.calls:
                if c.short in ('extend', 'append', 'extend_from_slice') and 'VecDeque' in c.callee + (g.ty.get(c.arg_local(0), '') or '') and len(c.args) > 1:
                    ro = mir.provenance(g, c.args[0])
                    if any(re.search(r'VecDeque<u32', prog.field_type(of, fl) or '') for (of, fl) in ro.fields):
                        qstores.append((g, c.d if hasattr(c, 'd') else g.blocks[c.bb]['term'], [a for a in c.args[1:] if is_place(a)], c.where()))
        if not qstores:
            rep.violation('R20e', 'anchor-lost:queue-store', fn=f.name, detail='anchor lost: the iterator no longer refills its queue of page numbers')
        for n, (g, node, ops, where) in enumerate(qstores, 1):
            ch = []
            from_groups = False
            for o in ops:
                org = mir.provenance(g, o, follow_all_call_args=True)
                ch += [x for x in org.calls if x.short in LENCHG and x.decl.startswith('std::')]
                from_groups = from_groups or any(re.search(r'Vec<std::vec::Vec<u32', prog.field_type(of, fl) or '') for (of, fl) in org.fields)
            k2 = '%s|queue-is-the-whole-group#%d' % (f.name, n)
            if ch:
                rep.violation('R20e', k2, where=where, fn=f.name,
                              detail='the page numbers queued for yielding pass through %s(): pages of a requested group can be left out (and a group '
                                     'that filters down to nothing ends the iteration before the remaining groups)' % ch[0].short)
            elif from_groups:
                rep.ok('R20e', k2, where=where, fn=f.name, detail='the queue is refilled with the complete next group')
            else:
                rep.violation('R20e', k2, where=where, fn=f.name, detail='the queue is not refilled from the page groups')
        k3 = '%s|ends-only-when-groups-exhausted-or-load-failed' % f.name
        nones, bad_ends = end_sites(prog, f, cache_adt)
        bad_end = bad_ends[0] if bad_ends else None
        if bad_end:
            rep.violation('R20e', k3, where=bad_end[0], fn=f.name,
                          detail='%s: later groups (including the remainder group holding every page not named by a hint) are never visited' % bad_end[1])
        elif nones:
            rep.ok('R20e', k3, where=f.where(nones[0][1]) if 'sp' in nones[0][1] else '', fn=f.name,
                   detail='%d end-of-iteration site(s), each behind the group-count test or the load-failure test' % len(nones))
        else:
            rep.violation('R20e', 'anchor-lost:none-returns', fn=f.name, detail='anchor lost: the iterator never returns None')
    loaders = [f for f in prog.product_fns() if f.name.startswith(cache_adt + '::') and
               any(c.callee.startswith('peripheral::pdf::get_pages_text') for c in f.calls)]
    if rep.anchor('page loader of the page cache', loaders):
        f = loaders[0]
        for c in f.calls:
            if not c.callee.startswith('peripheral::pdf::get_pages_text'):
                continue
            org = mir.provenance(f, c.args[-1], follow_all_call_args=True)
            ch = [x for x in org.calls if x.short in LENCHG]
            k = '%s|all-requested-pages-loaded' % f.name
            if ch or not org.params:
                rep.violation('R20d', k, where=c.where(), fn=f.name,
                              detail='the pages handed to the text extractor are not exactly the requested page numbers (%s): a requested page may never be loaded'
                                     % (ch[0].short if ch else 'not the parameter'))
            else:
                rep.ok('R20d', k, where=c.where(), fn=f.name, detail='the extractor receives the requested page list unfiltered')
        zips = [c for c in f.calls if c.short == 'zip']
        for c in zips:
            org = mir.provenance(f, c.args[0], follow_all_call_args=True)
            ch = [x for x in org.calls if x.short in LENCHG]
            if ch:
                rep.violation('R20d', '%s|zip-over-requested-pages' % f.name, where=c.where(), fn=f.name, detail='loaded texts are paired with a filtered page list')


def r20f(prog, rep):
    """every page handed to the statement parser is tested for the table marker: inside the page loop no path returns to the
    loop head without having run the regex test that guards the table parser (no `continue` ahead of it)"""
    cands = []
    for f in prog.product_fns():
        if not f.name.startswith('peripheral::questrade_statement_fmv_impl::') or f.kind not in ('Fn', 'AssocFn'):
            continue
        for (nc, header, body) in f.iterator_loops():
            tests = [c for c in f.calls if c.bb in body and c.short in ('is_match', 'find', 'captures', 'contains') and re.search(r'regex::|str', c.callee)]
            parsers = [c for c in f.calls if f.dominates(header, c.bb) and prog.resolve(c.callee, f.crate) is not None and
                       prog.resolve(c.callee, f.crate).name.startswith('peripheral::questrade_statement_fmv_impl::') and
                       prog.resolve(c.callee, f.crate).kind in ('Fn', 'AssocFn')]
            rets = [i for i in body if any(st['dst']['l'] == 0 and st['r']['rv'] == 'agg' and st['r']['kind'].endswith('Result::Ok') for st in f.blocks[i]['stmts'])]
            if tests and parsers and re.search(r'StatementFmvs', f.ty.get(0, '')):
                cands.append((f, nc, header, body, tests, parsers))
    if not rep.anchor('page loop of the statement parser (regex test guarding the table parser)', [c[0].name for c in cands]):
        return
    for (f, nc, header, body, tests, parsers) in cands:
        # the table parser: the crate function whose result becomes the returned StatementFmvs (other helpers, e.g. the statement-date
        # finder, may run on every page)
        ok_ops = [o for b in f.blocks.values() for st in b['stmts'] if st['dst']['l'] == 0 and st['r']['rv'] == 'agg' and st['r']['kind'].endswith('Result::Ok')
                  for o in st['r']['ops']]
        feeds = set()
        for o in ok_ops:
            org = mir.provenance(f, o, follow_all_call_args=False)
            feeds |= {x.bb for x in org.calls}
        guarded = [p_ for p_ in parsers if any(f.dominates(t.bb, p_.bb) and t.bb != p_.bb for t in tests)]
        pc = ([p_ for p_ in guarded if p_.bb in feeds] or guarded or parsers)[0]
        markers = [t for t in tests if f.dominates(t.bb, pc.bb) and t.bb != pc.bb]
        k = '%s|every-page-is-tested-for-the-table' % f.name
        if not markers:
            rep.violation('R20f', k, where=pc.where(), fn=f.name, detail='anchor lost: the table parser is not guarded by a test of the page text')
            continue
        sw = f.blocks[nc.target]['term'] if nc.target in f.blocks else None
        entry = ([tg for v, tg in sw['targets'] if v == 1] or [sw['otherwise']])[0] if sw and sw['t'] == 'switch' else None
        errs = {c.bb for c in f.calls if c.short == 'from_residual'}
        avoid = {m.bb for m in markers} | errs
        if entry is None:
            rep.violation('R20f', k, where=nc.where(), fn=f.name, detail='anchor lost: body entry of the page loop')
        elif entry in avoid or not f.reaches(entry, header, avoid=avoid):
            rep.ok('R20f', k, where=markers[-1].where(), fn=f.name,
                   detail='no path through the loop body reaches the next page without the marker test (%s)' % short(markers[-1].callee))
        else:
            rep.violation('R20f', k, where=markers[-1].where(), fn=f.name,
                          detail='a page can be passed over (the loop continues with the next page) before it is tested for the table marker: a table on '
                                 'that page is never found')


def r20g(prog, rep):
    """in the allocation-table reader, a line that looks like the total row but on which the pending security cannot be completed
    is *always* handed on as a further line of that security (a holding of 100.0% next to 0.0% rows has such a line of its own):
    from the failure edge of the completing call no error return is reachable ahead of the call that gathers the line"""
    found = 0
    for f in prog.product_fns():
        if not f.name.startswith('peripheral::questrade_statement_fmv_impl::') or f.kind not in ('Fn', 'AssocFn'):
            continue
        loops = [(nc, h, b) for (nc, h, b) in f.iterator_loops() if 'Lines' in f.ty.get(nc.arg_local(0), '')]
        if not loops:
            continue
        nc, header, body = loops[0]
        local = [c for c in f.calls if c.bb in body and prog.resolve(c.callee, f.crate) is not None and
                 prog.resolve(c.callee, f.crate).name.startswith('peripheral::questrade_statement_fmv_impl::')]
        fins = [c for c in local if len(c.args) == 1 and re.search(r'Result<\(\), ', f.ty.get(c.dst['l'], ''))]
        gathers = [c for c in local if len(c.args) == 2 and re.search(r'Result<\(\), ', f.ty.get(c.dst['l'], ''))]
        if not fins or not gathers:
            continue
        for fin in fins:
            # the failure edge of the completing call
            err_targets = set()
            for i, b in f.blocks.items():
                t = b['term']
                if not t or t['t'] != 'switch' or not f.dominates(fin.bb, i):
                    continue
                d = mir.provenance(f, t['discr'], follow_all_call_args=True)
                if fin not in d.calls:
                    continue
                e = f.bool_switch_edges(i)
                if any(x.short == 'is_err' for x in d.calls) and e:
                    err_targets.add(e[0])
                elif any(x.short == 'is_ok' for x in d.calls) and e:
                    err_targets.add(e[1])
                elif f._is_discr_of(t['discr'], fin.dst['l']):
                    for v, tg in t['targets']:
                        if v == 1:
                            err_targets.add(tg)
                    if not any(v == 1 for v, tg in t['targets']):
                        err_targets.add(t['otherwise'])
            if not err_targets:
                continue
            found += 1
            gblocks = {g.bb for g in gathers if g.callee != fin.callee}
            reach = set()
            for et in err_targets:
                if et in gblocks:
                    continue
                reach |= {et} | f.reachable_from(et, avoid=gblocks | {header})
            errs = [i for i in reach if any(st['dst']['l'] == 0 and st['r']['rv'] == 'agg' and st['r']['kind'].endswith('Result::Err') for st in f.blocks[i]['stmts'])]
            errs += [c.bb for c in f.calls if c.short == 'from_residual' and c.bb in reach]
            k = '%s|unfinishable-total-like-line-joins-the-security' % f.name
            if errs:
                rep.violation('R20g', k, where=f.where(f.blocks[errs[0]]['term']) if f.blocks[errs[0]]['term'] else fin.where(), fn=f.name,
                              detail='when %s fails on a line that looks like the total row, the reader can give up with an error before handing the line to '
                                     '%s: a holding shown as 100.0%% beside 0.0%% rows (its numbers on a line of their own) makes the whole table unreadable'
                                     % (short(fin.callee), short(gathers[0].callee)))
            else:
                rep.ok('R20g', k, where=fin.where(), fn=f.name,
                       detail='on the failure edge of %s the line always reaches %s first' % (short(fin.callee), short(gathers[0].callee)))
    if found == 0:
        rep.violation('R20g', 'anchor-lost:table-reader', detail='anchor lost: the line loop of the allocation-table reader with its completing / gathering calls')


def r20h(prog, rep):
    """the pages that no hint names are collected from page ranges that start at 1, reach num_pages, and - if there are several -
    follow each other without a gap: a range start that is carried round a loop is assigned the previous range's exclusive end
    unchanged (`start = end`, not `end + 1`)"""
    cands = [f for f in prog.product_fns() if f.name.startswith('peripheral::pdf::') and f.kind in ('Fn', 'AssocFn') and
             re.search(r'^std::vec::Vec<std::vec::Vec<u32', f.ty.get(0, '')) and any(f.ty.get(p) == 'u32' for p in range(1, f.argc + 1))]
    if not rep.anchor('page-group sanitiser (num_pages: u32, hints) -> Vec<Vec<u32>>', [f.name for f in cands]):
        return
    for f in cands:
        npar = [p for p in range(1, f.argc + 1) if f.ty.get(p) == 'u32'][0]
        ranges = []
        for i, b in f.blocks.items():
            for st in b['stmts']:
                r = st['r']
                if r['rv'] == 'agg' and re.search(r'^adt:std::ops::Range(Inclusive)?\b', r['kind']) and 'u32' in f.ty.get(st['dst']['l'], ''):
                    ranges.append((i, st))
        k = '%s|remainder-ranges-cover-every-page' % f.name
        if not ranges:
            rep.violation('R20h', 'anchor-lost:remainder-range', fn=f.name, detail='anchor lost: no page range in the sanitiser')
            continue
        bad = None
        reaches_n = False
        for (i, st) in ranges:
            r = st['r']
            inclusive = 'RangeInclusive' in r['kind']
            start, end = r['ops'][0], r['ops'][1]
            eo = mir.provenance(f, end, follow_all_call_args=True) if is_place(end) else None
            if eo is not None and npar in eo.params:
                reaches_n = True
            if start['k'] == 'const':
                if not re.match(r'^1_u32$', str(start.get('v'))):
                    bad = bad or (f.where(st), 'a remainder range starts at %s, not at page 1' % start.get('v'))
                continue
            sl = mir.nearest_user_local(f, start)
            el = mir.nearest_user_local(f, end) if is_place(end) else None
            lp = f.loop_of(i)
            if sl is None or lp is None:
                so = mir.provenance(f, start)
                if not (so.consts and not so.params and not so.binops):
                    bad = bad or (f.where(st), 'the start of a remainder range is computed, not the constant 1')
                continue
            body = lp[1]
            for (bb, idx, kind, node) in f.defs.get(sl, []):
                if bb not in body or kind != 'stmt':
                    continue
                vo = mir.provenance(f, node['r']['ops'][0]) if node['r'].get('ops') and is_place(node['r']['ops'][0]) else None
                plain_copy = node['r']['rv'] == 'use' and vo is not None and not vo.binops and el is not None and el in vo.locals
                plus_one = vo is not None and any(op.startswith('Add') for op, _ in vo.binops) and el is not None and el in vo.locals
                if inclusive and not plus_one:
                    bad = bad or (f.where(node), 'after an inclusive range the next one must start at end + 1')
                elif not inclusive and not plain_copy:
                    bad = bad or (f.where(node), 'the next range does not start exactly where the previous (exclusive) one ended: pages between them are in no group')
        if not reaches_n:
            bad = bad or ('%s:%d' % (f.file, f.line), 'no remainder range ends at num_pages')
        if bad:
            rep.violation('R20h', k, where=bad[0], fn=f.name, detail='%s, so a page that no hint names is never visited' % bad[1])
        else:
            rep.ok('R20h', k, fn=f.name, where=f.where(ranges[0][1]), detail='%d page range(s): from 1 up to num_pages, contiguous' % len(ranges))
        # R20i: what is collected from those ranges reaches the returned groups whole: on the way from the range to the group list no
        # step may leave pages out (chunks_exact drops the tail, take / truncate / step_by / skip cut), apart from the one filter that
        # removes the pages a hint already named
        k2 = '%s|remainder-pages-all-reach-a-group' % f.name
        CUT = {'chunks_exact', 'rchunks_exact', 'take', 'take_while', 'skip', 'skip_while', 'step_by', 'truncate', 'drain', 'pop', 'remove',
               'swap_remove', 'split_off', 'dedup', 'retain', 'windows', 'nth', 'last', 'first', 'map_while', 'split_at', 'split_first', 'split_last'}
        seeds = {st['dst']['l'] for (_, st) in ranges}
        t = mir.forward_taint(f, seeds)
        cuts = [c for c in f.calls if c.short in CUT and any(a in t for a in c.arg_locals()) and
                (c.decl.startswith('std::iter::') or 'slice' in c.callee or 'vec::Vec' in c.callee)]
        filters = [c for c in f.calls if c.short in ('filter', 'filter_map') and c.decl.startswith('std::iter::') and any(a in t for a in c.arg_locals())]
        odd_filters = []
        for c in filters:
            g2 = mir._closure_fn_of(prog, f, c.args[1]) if len(c.args) > 1 else None
            if g2 is None or not any(x.short == 'contains' and re.search(r'(HashSet|BTreeSet)<u32', g2.ty.get(x.arg_local(0), '') or '') for x in g2.calls):
                odd_filters.append(c)
        sinks = [c for c in f.calls if c.short in ('push', 'extend', 'append', 'insert') and re.search(r'Vec<std::vec::Vec<u32', f.ty.get(c.arg_local(0), '') or '')
                 and any(a in t for a in c.arg_locals()[1:])]
        if cuts or odd_filters:
            c = (cuts or odd_filters)[0]
            rep.violation('R20i', k2, where=c.where(), fn=f.name,
                          detail='the pages no hint names pass through %s() on their way into the page groups: the pages it leaves out are in no group '
                                 'and are never loaded or searched' % c.short)
        elif sinks:
            rep.ok('R20i', k2, where=sinks[0].where(), fn=f.name, detail='the remainder pages are added to the groups without a step that can leave pages out')
        else:
            rep.violation('R20i', 'anchor-lost:remainder-sink', fn=f.name, detail='anchor lost: where the remainder pages are added to the page groups')
