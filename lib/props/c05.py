"""C05 — never a panic: the two structural clauses.  DESIGN.md 5.C05
 (a) R5a/R5a': every `ConstrainedDecimal::try_from(e).unwrap()` is justified by sign algebra (incl. rounding), per
     generic instantiation;
 (b) R5b: the Result/Option of a parser applied to user text never reaches unwrap/expect."""
import re

import mir
from mir import short, is_place, op_local

LEVEL = 'other'
EXPLANATION = ('Decides necessary structural clauses of C05 (not panic-freedom as a whole): R5a-R5f. (R5a) every '
               'Result<ConstrainedDecimal<C>,_>::unwrap/expect in product code is an infallibility belief; the sign of the checked '
               'expression is computed in the lattice of subsets of {-,0,+} (constants evaluated, + - * neg abs max min by sign algebra, a quotient may be zero, '
               'rounding weakens strict signs, edge refinement on is_zero/is_sign_* tests) and must be within C; generic wrappers '
               '(c_round_to_cent<T>, c_maybe_round_to_effective_cent<T>) are judged per instantiation reaching them from any call site. '
               '(R5b) the Result/Option produced by a text parser (Decimal::from_str, str::parse, Date::parse, json::parse, acb\'s own '
               'parse_* functions, ...) whose text is not a compile-time constant never flows into unwrap/expect. (R5c) no slice index is '
               'bounded only by the length of a different sequence. (R5d) no assertion demands exact equality of a Decimal computed on '
               'the spot. (R5e) the divisor of every Decimal division / remainder reachable from a front end is non-zero by type, by the '
               'sign lattice, or by a dominating is_zero / sign test. (R5f) every regex capture group that is unwrapped or indexed, '
               'directly or behind helpers that take the group name, exists and takes part in every match of the pattern(s) that '
               'produced the Captures (patterns rebuilt from program constants incl. format! templates). Not decided: every other panic site (map look-ups, the other '
               'asserts, other slice indices), Decimal overflow, termination.')
TRUSTED_BASE = ['rustc nightly MIR construction and trait resolution', 'the ConstrainedDecimal type invariant (decided by C04/R4a)',
                'sign algebra of rust_decimal +,-,* in exact arithmetic; a quotient may round to zero; rounding never changes the sign but may reach zero']
ASSUMPTIONS = ['a PRODUCT of strictly signed values does not underflow to zero (two factors taken from input fields are >= 1e-10 each; '
               'longer products are an assumption): such sites are reported as "exact-arithmetic only" in the evidence. A QUOTIENT is not '
               'covered by this assumption: it is treated as possibly zero (1e-10 / 1e19 rounds to 0 in 28 digits)']

NEG, ZERO, POS = '-', '0', '+'
TOP = frozenset([NEG, ZERO, POS])
S = {
    'Neg': frozenset([NEG]), 'LessEqualZero': frozenset([NEG, ZERO]), 'GreaterEqualZero': frozenset([ZERO, POS]),
    'Pos': frozenset([POS]),
}


def sname(s):
    for k, v in (('Neg', S['Neg']), ('Zero', frozenset([ZERO])), ('Pos', S['Pos']), ('LEZ', S['LessEqualZero']),
                 ('GEZ', S['GreaterEqualZero']), ('NonZero', frozenset([NEG, POS])), ('Top', TOP)):
        if s == v:
            return k
    return '{%s}' % ''.join(sorted(s))


def add1(x, y):
    if x == ZERO:
        return {y}
    if y == ZERO:
        return {x}
    if x == y:
        return {x}
    return set(TOP)


def neg1(x):
    return {NEG: POS, POS: NEG, ZERO: ZERO}[x]


def mul1(x, y):
    if x == ZERO or y == ZERO:
        return ZERO
    return POS if x == y else NEG


def lift2(f, a, b):
    out = set()
    for x in a:
        for y in b:
            r = f(x, y)
            out |= r if isinstance(r, set) else {r}
    return frozenset(out)


ORDER = {NEG: 0, ZERO: 1, POS: 2}


def max_s(a, b):
    return frozenset(x if ORDER[x] >= ORDER[y] else y for x in a for y in b)


def min_s(a, b):
    return frozenset(x if ORDER[x] <= ORDER[y] else y for x in a for y in b)


def round_s(a):
    out = set(a)
    if POS in a or NEG in a:
        out.add(ZERO)
    return frozenset(out)


CD_RE = re.compile(r'ConstrainedDecimal<(?:util::decimal::constraint::)?(\w+)>')
ROUNDERS = re.compile(r'^rust_decimal::Decimal::(round|round_dp|round_dp_with_strategy|round_sf|round_sf_with_strategy|trunc|'
                      r'trunc_with_scale|floor|ceil|rescale|normalize)$|util::math::(round_to_cent|maybe_round_to_effective_cent)$')


WEAK_DIV = [True]      # switched off only to ask "would this hold in exact arithmetic?" when a violation is classified


class SignEval:
    def __init__(self, prog, fn, subst=None):
        self.prog = prog
        self.fn = fn
        self.subst = subst or {}
        self.memo = {}
        self.inexact = False     # a strict sign was obtained from a product/quotient (may underflow to zero outside practical ranges)
        self.rounded = False
        self.trace = []

    def ty_sign(self, ty):
        m = CD_RE.search(ty or '')
        if not m:
            return None
        c = m.group(1)
        c = self.subst.get(c, c)
        return S.get(c)

    def constraint_name(self, ty):
        m = CD_RE.search(ty or '')
        if not m:
            return None
        return self.subst.get(m.group(1), m.group(1))

    def const_sign(self, o):
        v = o.get('def') or ''
        if v.endswith('Decimal::ZERO'):
            return frozenset([ZERO])
        if re.search(r'Decimal::(ONE|TWO|TEN|ONE_HUNDRED|ONE_THOUSAND|MAX|PI|E)$', v):
            return S['Pos']
        if re.search(r'Decimal::(NEGATIVE_ONE|MIN)$', v):
            return S['Neg']
        if v:
            # a named constant of the crate: evaluate its body
            g = self.prog.resolve(v, self.fn.crate)
            if g is not None and g.kind in ('Const', 'AssocConst'):
                return SignEval(self.prog, g).eval_local(0)
        val = o.get('v', '')
        m = re.match(r'^(-?\d+)_[iu](8|16|32|64|128|size)$', val)
        if m:
            n = int(m.group(1))
            return frozenset([ZERO]) if n == 0 else (S['Pos'] if n > 0 else S['Neg'])
        return TOP

    def eval_op(self, o, depth=0):
        if not is_place(o):
            return self.const_sign(o)
        return self.eval_place(o['pl'], depth)

    def eval_place(self, pl, depth=0):
        fn = self.fn
        # the type of the innermost ConstrainedDecimal on the access path decides
        base_ty = fn.ty.get(pl['l'], '')
        fields = [e for e in pl['p'] if isinstance(e, dict) and 'f' in e]
        dcs = [e['dc'] for e in pl['p'] if isinstance(e, dict) and 'dc' in e]
        if dcs and all(e.get('of', '') in ('', 'std::option::Option', 'std::result::Result') or e['of'].startswith('std::option::Option') or
                       e['of'].startswith('std::result::Result') for e in fields) and all(d in ('Some', 'Ok') for d in dcs):
            # the payload of an Option / Result: `((x as Ok).0 as Some).0` -> what the producer put there, under its own tests
            s = payload_sign_local(self.prog, fn, pl['l'], tuple(dcs), depth)
            if s:
                return s
        if fields:
            last = fields[-1]
            fty = self.prog.field_type(last['of'], last['f'])
            if last['of'].endswith('util::decimal::ConstrainedDecimal') and last['f'] == '0':
                # inner Decimal of a constrained value: constraint from the enclosing type
                if len(fields) >= 2:
                    pty = self.prog.field_type(fields[-2]['of'], fields[-2]['f'])
                    s = self.ty_sign(pty)
                else:
                    s = self.ty_sign(base_ty)
                if s is not None:
                    return s
                return TOP
            s = self.ty_sign(fty)
            if s is not None:
                return s
            if fty and 'rust_decimal::Decimal' in fty:
                return TOP
            # tuple / enum payload fields: fall back to the definition of the base local
            return self.eval_local(pl['l'], depth + 1) if not [e for e in fields if e['of']] else TOP
        s = self.ty_sign(base_ty)
        if s is not None:
            return s
        return self.eval_local(pl['l'], depth + 1)

    def eval_local(self, l, depth=0):
        fn = self.fn
        if l in self.memo:
            v = self.memo[l]
            return TOP if v is None else v
        if depth > 60:
            return TOP
        s = self.ty_sign(fn.ty.get(l, ''))
        if s is not None and l != 0:
            self.memo[l] = s
            return s
        if re.match(r'^&?(u8|u16|u32|u64|u128|usize)$', fn.ty.get(l, '')):
            self.memo[l] = S['GreaterEqualZero']
            return self.memo[l]
        self.memo[l] = None   # cycle guard -> Top
        defs = fn.defs.get(l, [])
        if fn.is_param(l) or not defs:
            base = TOP
            if fn.is_param(l) and fn.kind == 'Closure' and l >= 2 and re.search(r'Decimal', fn.ty.get(l, '') or ''):
                # the argument of a closure handed to Option::map / and_then / Result::map ..: the payload of the receiver
                acc = frozenset()
                known = True
                hs = mir.handed_to(self.prog, fn)
                for (par, hc, ai) in hs:
                    want = {'option': 'Some', 'result': 'Ok'}.get('option' if 'option::Option' in hc.callee else ('result' if 'result::Result' in hc.callee else ''), None)
                    if want is None or hc.short not in ('map', 'and_then', 'map_or', 'map_or_else', 'is_some_and', 'inspect', 'filter') or not is_place(hc.args[0]) or hc.args[0]['pl']['p']:
                        known = False
                        break
                    sx = payload_sign_local(self.prog, par, hc.args[0]['pl']['l'], (want,), depth + 1)
                    if not sx:
                        known = False
                        break
                    acc |= sx
                if hs and known and acc:
                    base = acc
                if not hs:
                    # a local closure called by name in the function that defines it (`let mag = |d| ..; mag(x)`): the sign of the
                    # argument at every call, under the tests that dominate that call
                    par = self.prog.by_crate[fn.crate].get(fn.parent)
                    acc, n_sites = frozenset(), 0
                    if par is not None and depth < 30:
                        locs = {st['dst']['l'] for b in par.blocks.values() for st in b['stmts']
                                if st['r']['rv'] == 'agg' and st['r']['kind'] == 'closure:' + fn.name and not st['dst']['p']}
                        for c2 in par.calls:
                            if c2.short not in ('call', 'call_mut', 'call_once') or len(c2.args) != 2 or not is_place(c2.args[1]):
                                continue
                            if not (set(mir.provenance(par, c2.args[0]).locals) | {c2.arg_local(0)}) & locs:
                                continue
                            tup = par.single_def(c2.args[1]['pl']['l'])
                            if not (tup and tup[2] == 'stmt' and tup[3]['r']['rv'] == 'agg' and tup[3]['r']['kind'] == 'tuple' and len(tup[3]['r']['ops']) > l - 2):
                                acc, n_sites = frozenset(), 0
                                break
                            ev2 = SignEval(self.prog, par)
                            ev2.set_site(c2.bb)
                            acc |= ev2.eval_op(tup[3]['r']['ops'][l - 2], depth + 1)
                            n_sites += 1
                    if n_sites and acc:
                        base = acc
            # otherwise nothing is known about a parameter except what the dominating sign tests say (`if is_negative(&x) { .. }`)
            self.memo[l] = self.refine_local(l, base) if fn.is_param(l) else TOP
            return self.memo[l]
        acc = frozenset()
        for (bb, idx, kind, node) in defs:
            if node['dst']['p']:
                acc = TOP
                continue
            if kind == 'stmt':
                acc = acc | self.eval_rvalue(node['r'], depth)
            else:
                acc = acc | self.eval_call(fn.call_at[bb], depth)
        if not acc:
            acc = TOP
        acc = self.refine_local(l, acc)
        self.memo[l] = acc
        return acc

    def set_site(self, bb):
        """collect the sign tests (is_zero, is_negative, ...) that hold on every path to block bb"""
        fn = self.fn
        self.tests = []
        for (sbb, discr, vals, neg) in fn.conditions_at(bb):
            d = mir.provenance(fn, discr)
            truth = (vals != [0]) if vals is not None else (0 in (neg or []))
            if any(op == 'Not' for op, _ in d.binops) or any(c.short == 'not' for c in d.calls):
                truth = not truth
            for c in d.calls:
                m = re.search(r'(is_zero|is_sign_negative|is_sign_positive|is_negative|is_positive)$', c.callee)
                if not m or not c.args:
                    continue
                a = mir.provenance(fn, c.args[0], pass_through={'deref', 'clone', 'borrow'})
                self.tests.append((a.locals, a.fields, m.group(1), truth))

    def refine_local(self, l, sign):
        for (locals_, fields, pred, truth) in getattr(self, 'tests', []):
            if l not in locals_ or fields:
                continue
            if not (l in self.fn.user or self.fn.is_param(l)):
                continue
            sets = frozenset({'is_zero': {ZERO}, 'is_sign_negative': {NEG, ZERO}, 'is_sign_positive': {POS, ZERO},
                              'is_negative': {NEG}, 'is_positive': {POS}}[pred])
            if truth:
                sign = sign & sets
            elif pred in ('is_zero', 'is_negative', 'is_positive'):
                sign = sign - sets
            elif pred == 'is_sign_negative':
                sign = sign - frozenset({NEG})
            elif pred == 'is_sign_positive':
                sign = sign - frozenset({POS})
        return sign

    def eval_rvalue(self, r, depth):
        rv = r['rv']
        if rv == 'use':
            return self.eval_op(r['ops'][0], depth)
        if rv in ('ref', 'rawptr'):
            return self.eval_place(r['pl'], depth)
        if rv == 'cast':
            return self.eval_op(r['ops'][0], depth)
        if rv == 'unop' and r['op'] == 'Neg':
            return frozenset(neg1(x) for x in self.eval_op(r['ops'][0], depth))
        if rv == 'binop':
            a, b = [self.eval_op(o, depth) for o in r['ops']]
            op = r['op']
            if op.startswith('Add'):
                return lift2(add1, a, b)
            if op.startswith('Sub'):
                return lift2(add1, a, frozenset(neg1(x) for x in b))
            if op.startswith('Mul'):
                return lift2(mul1, a, b)
            return TOP
        if rv == 'agg':
            # Decimal literal struct etc. -> unknown; tuple from checked arithmetic -> first operand
            if r['kind'] == 'tuple' and r['ops']:
                return self.eval_op(r['ops'][0], depth)
            return TOP
        return TOP

    def eval_call(self, c, depth):
        fn = self.fn
        decl, res = c.decl, c.callee
        args = c.args
        sh = c.short

        def A(i):
            return self.eval_op(args[i], depth + 1)

        dst_sign = self.ty_sign(fn.ty.get(c.dst['l'], ''))
        if sh in ('deref', 'clone', 'borrow', 'as_ref', 'copied', 'cloned', 'to_owned', 'into', 'from') and len(args) == 1:
            if dst_sign is not None:
                return dst_sign
            return A(0)
        if res.endswith('Decimal::from_parts') and len(args) == 5:
            vals = [a.get('v', '') for a in args]
            if all(a['k'] == 'const' for a in args):
                nz = any(not v.startswith('0_') for v in vals[:3])
                if not nz:
                    return frozenset([ZERO])
                return S['Neg'] if vals[3] == 'true' else S['Pos']
            return TOP
        if re.search(r'Decimal::(new|from_i128_with_scale|try_new|try_from_i128_with_scale)$', res) and args and args[0]['k'] == 'const':
            return self.const_sign(args[0])
        if dst_sign is not None:
            return dst_sign
        arith = re.search(r'std::ops::(Add|Sub|Mul|Div|Neg|Rem)::(add|sub|mul|div|neg|rem)$', decl)
        if arith and 'Decimal' in (fn.ty.get(c.dst['l'], '') + res):
            op = arith.group(1)
            if op == 'Neg':
                return frozenset(neg1(x) for x in A(0))
            a, b = A(0), A(1)
            if op == 'Add':
                return lift2(add1, a, b)
            if op == 'Sub':
                return lift2(add1, a, frozenset(neg1(x) for x in b))
            if op in ('Mul', 'Div'):
                if op == 'Div':
                    b = b - {ZERO} or b     # division by zero is a different panic
                r = lift2(mul1, a, b)
                if WEAK_DIV[0] and op == 'Div' and r - {ZERO}:
                    # a quotient of in-range amounts can be smaller than 1e-28 (1e-10 / 1e19): rust_decimal rounds it to zero
                    r = r | {ZERO}
                if ZERO not in r and ZERO not in a:
                    self.inexact = True
                return r
            return TOP
        if re.search(r'Decimal::abs$', res):
            return frozenset(POS if x != ZERO else ZERO for x in A(0))
        if re.search(r'(Decimal::max|cmp::Ord::max|cmp::max)$', res) or re.search(r'cmp::Ord::max$', decl):
            return max_s(A(0), A(1))
        if re.search(r'(Decimal::min|cmp::Ord::min|cmp::min)$', res) or re.search(r'cmp::Ord::min$', decl):
            return min_s(A(0), A(1))
        if ROUNDERS.search(res) or ROUNDERS.search(decl):
            self.rounded = True
            return round_s(A(0))
        if re.search(r'Decimal::from$|convert::From::from$', decl) and args and re.match(r'^(u8|u16|u32|u64|usize)$', fn.ty.get(op_local(args[0]) or -1, '')):
            return S['GreaterEqualZero']
        if sh in ('unwrap', 'expect', 'unwrap_or', 'branch', 'ok') and args:
            return A(0)
        if sh == 'try_from' and args:
            return A(0)
        # a call through a function-pointer parameter (`op(*d)`): the functions the product callers pass for it
        mi = re.match(r'^<indirect:_(\d+)>$', res)
        ps = sorted(mir.provenance(fn, int(mi.group(1)), pass_through=set()).params) if mi else []
        if mi and len(ps) == 1 and depth < 40:
            pidx = ps[0]
            cands = []
            callers = [x for x in self.prog.callers.get(fn.name, []) if not mir.is_testsupport(x.fn.name)]
            for x in callers:
                a = x.args[pidx - 1] if pidx - 1 < len(x.args) else None
                defs = set()
                if a is not None and a.get('k') == 'const':
                    defs = {a.get('def') or ''}
                elif a is not None and is_place(a):
                    oa = mir.provenance(x.fn, a, pass_through=set())
                    defs = {d for (_, _, d) in oa.consts if d} if not oa.params and not oa.calls else set()
                g = self.prog.resolve(next(iter(defs)), x.fn.crate) if len(defs) == 1 else None
                cands.append(g)
            if cands and all(g is not None and g.kind in ('Fn', 'AssocFn') for g in cands):
                out = frozenset()
                for g in {g.name: g for g in cands}.values():
                    if ROUNDERS.search(g.name):
                        self.rounded = True
                        out |= round_s(A(0))
                    elif 'rust_decimal::Decimal' == g.ty.get(0, ''):
                        sub = SignEval(self.prog, g, self.subst)
                        for i, a in enumerate(args):
                            sub.memo[i + 1] = self.eval_op(a, depth + 1)
                        out |= sub.eval_local(0, depth + 1)
                        self.inexact |= sub.inexact
                        self.rounded |= sub.rounded
                    else:
                        return TOP
                return out
            return TOP
        # crate-local function returning Decimal: evaluate its return value when it is simple
        g = self.prog.resolve(res, fn.crate) or self.prog.resolve(decl, fn.crate)
        if g is not None and 'rust_decimal::Decimal' == g.ty.get(0, '') and depth < 40:
            sub = SignEval(self.prog, g, dict(self.subst))
            # the callee's constraint parameters, bound from the argument types (`&ConstrainedDecimalRatio<Pos>` for `&..Ratio<CONSTRAINT>`)
            GEN = re.compile(r'ConstrainedDecimal(?:Ratio)?<(?:util::decimal::constraint::)?(\w+)>')
            for i, a in enumerate(args):
                pt = g.ty.get(i + 1, '') or ''
                at = fn.ty.get(op_local(a) if is_place(a) else -1, '') or ''
                for pn, an in zip(GEN.findall(pt), GEN.findall(at)):
                    an = self.subst.get(an, an)
                    if pn not in S and an in S:
                        sub.subst[pn] = an
            # bind parameters by sign
            for i, a in enumerate(args):
                sub.memo[i + 1] = self.eval_op(a, depth + 1)
            r = sub.eval_local(0, depth + 1)
            self.inexact |= sub.inexact
            self.rounded |= sub.rounded
            return r
        return TOP

    def refine(self, site_bb, operand, sign):
        """edge refinement: `if x.is_zero()` / is_sign_negative / is_positive ... on the evaluated value"""
        fn = self.fn
        root = mir.provenance(fn, operand, pass_through={'deref', 'clone', 'borrow'})
        roots = root.locals
        for (sbb, discr, vals, neg) in fn.conditions_at(site_bb):
            d = mir.provenance(fn, discr, pass_through={'not'})
            truth = (vals != [0]) if vals is not None else (0 in (neg or []))
            negated = any(op == 'Not' for op, _ in d.binops)
            for c in d.calls:
                m = re.search(r'(is_zero|is_sign_negative|is_sign_positive|is_negative|is_positive)$', c.callee)
                if not m or not c.args:
                    continue
                a = mir.provenance(fn, c.args[0], pass_through={'deref', 'clone', 'borrow'})
                if not (a.locals & roots and (a.fields == root.fields or not a.fields)):
                    continue
                pred = m.group(1)
                sets = {'is_zero': {ZERO}, 'is_sign_negative': {NEG, ZERO}, 'is_sign_positive': {POS, ZERO},
                        'is_negative': {NEG}, 'is_positive': {POS}}[pred]
                if truth:
                    sign = sign & frozenset(sets)
                else:
                    sign = sign - frozenset(sets) if pred in ('is_zero', 'is_negative', 'is_positive') else sign
        return sign


def _fn_value_of(prog, fn, operand):
    """the body behind a closure operand or a function item handed over as a value"""
    g = mir._closure_fn_of(prog, fn, operand)
    if g is not None:
        return g
    if operand.get('k') == 'const':
        for key in ('def', 'v', 'ty'):
            nm = str(operand.get(key) or '')
            nm = re.sub(r'^fn\([^)]*\)[^{]*\{|\}$', '', nm).strip()
            h = prog.resolve(nm, fn.crate) if nm else None
            if h is not None and h.kind in ('Fn', 'AssocFn'):
                return h
    return None


def payload_sign_local(prog, fn, l, path, depth=0, _seen=None):
    """sign of the Decimal found at `path` (variants, outermost first, e.g. ('Ok', 'Some')) inside the Option / Result held by
    local l of fn; None when unknown. The value is followed to where it was built: `Ok(x)` / `Some(x)` literals (x judged at that
    site, with the sign tests dominating it), results of functions and closures of the crate, copies and payload moves."""
    _seen = _seen if _seen is not None else set()
    key = (fn.name, l, path)
    if key in _seen or depth > 40:
        return None
    _seen.add(key)
    acc = frozenset()
    defs = [d for d in fn.defs.get(l, []) if not d[3]['dst']['p']]
    if not defs or fn.is_param(l):
        return None
    for (bb, idx, kind, node) in defs:
        if kind == 'stmt':
            r = node['r']
            if r['rv'] == 'agg':
                m = re.search(r'^adt:std::(?:option::Option|result::Result)::(\w+)$', r['kind'])
                if not m:
                    return None
                if m.group(1) != path[0]:
                    continue          # the other variant: contributes no payload at this path
                x = r['ops'][0]
                if len(path) == 1:
                    ev = SignEval(prog, fn)
                    ev.set_site(bb)
                    sx = ev.eval_op(x, depth + 1)
                    if is_place(x):
                        sx = ev.refine(bb, x, sx)
                    acc |= sx
                else:
                    if not is_place(x) or x['pl']['p']:
                        return None
                    sx = payload_sign_local(prog, fn, x['pl']['l'], path[1:], depth + 1, _seen)
                    if sx is None:
                        return None
                    acc |= sx
            elif r['rv'] == 'use' and is_place(r['ops'][0]):
                pl = r['ops'][0]['pl']
                more = tuple(e['dc'] for e in pl['p'] if isinstance(e, dict) and 'dc' in e)
                if any(isinstance(e, dict) and 'f' in e and e.get('of', '') not in ('',) and not e['of'].startswith('std::option::Option')
                       and not e['of'].startswith('std::result::Result') and not e['of'].startswith('std::ops::ControlFlow') for e in pl['p']):
                    return None
                sx = payload_sign_local(prog, fn, pl['l'], more + path, depth + 1, _seen)
                if sx is None:
                    return None
                acc |= sx
            else:
                return None
        else:
            c = fn.call_at[bb]
            g = prog.resolve(c.callee, fn.crate) or prog.resolve(c.decl, fn.crate)
            if g is not None and g.kind in ('Fn', 'AssocFn', 'Closure'):
                sx = payload_sign_local(prog, g, 0, path, depth + 1, _seen)
            elif c.short in ('branch',) and c.args and is_place(c.args[0]) and path and path[0] == 'Continue':
                sx = payload_sign_local(prog, fn, c.args[0]['pl']['l'], ('Ok',) + path[1:], depth + 1, _seen)
            elif c.short in ('clone', 'cloned', 'copied', 'as_ref', 'as_deref', 'into', 'from') and c.args and is_place(c.args[0]) and not c.args[0]['pl']['p']:
                sx = payload_sign_local(prog, fn, c.args[0]['pl']['l'], path, depth + 1, _seen)
            elif c.short == 'map' and len(c.args) == 2 and len(path) >= 2 and path[1] == 'Some' and c.args[1].get('k') == 'const' and \
                    (str(c.args[1].get('def') or '').endswith('::Some') or str(c.args[1].get('v') or '').endswith('::Some')) and \
                    'Option' in str(c.args[1].get('ty') or '') and is_place(c.args[0]) and not c.args[0]['pl']['p']:
                # `res.map(Some)`: the payload is wrapped once more
                sx = payload_sign_local(prog, fn, c.args[0]['pl']['l'], (path[0],) + path[2:], depth + 1, _seen)
            elif c.short in ('map', 'and_then') and len(c.args) == 2 and path and path[0] in ('Ok', 'Some') and \
                    re.search(r'^std::(option::Option|result::Result)::<', c.callee) and _fn_value_of(prog, fn, c.args[1]) is not None:
                # `res.map(|d| ..)` / `res.and_then(helper)`: the new payload is what the closure or function returns (a closure's
                # argument is the old payload, see eval_local)
                g2 = _fn_value_of(prog, fn, c.args[1])
                if c.short == 'and_then':
                    sx = payload_sign_local(prog, g2, 0, path, depth + 1, _seen)
                elif len(path) > 1:
                    sx = payload_sign_local(prog, g2, 0, path[1:], depth + 1, _seen)
                else:
                    sx = SignEval(prog, g2).eval_local(0, depth + 1)
            elif c.short == 'from_residual' and path and path[0] in ('Ok', 'Some'):
                sx = frozenset()          # `?` on the error path builds Err / None only
            elif c.short in ('map_err', 'or_else', 'inspect_err') and path and path[0] == 'Ok' and c.args and is_place(c.args[0]) and not c.args[0]['pl']['p']:
                sx = payload_sign_local(prog, fn, c.args[0]['pl']['l'], path, depth + 1, _seen)      # the Ok payload passes unchanged
            elif c.short in ('ok',) and path and path[0] == 'Some' and c.args and is_place(c.args[0]) and not c.args[0]['pl']['p']:
                sx = payload_sign_local(prog, fn, c.args[0]['pl']['l'], ('Ok',) + path[1:], depth + 1, _seen)
            elif c.short in ('ok_or', 'ok_or_else') and path and path[0] == 'Ok' and c.args and is_place(c.args[0]) and not c.args[0]['pl']['p']:
                sx = payload_sign_local(prog, fn, c.args[0]['pl']['l'], ('Some',) + path[1:], depth + 1, _seen)
            else:
                sx = None
            if sx is None:
                return None
            acc |= sx
    return acc          # possibly empty: this producer never builds that variant


def instantiations(prog, g):
    """concrete constraint names with which generic function g<T: DecConstraint> is reached from any call site"""
    out = {}
    seen = set()

    def visit(fn_name, depth):
        if (fn_name) in seen or depth > 6:
            return
        seen.add(fn_name)
        for c in prog.callers.get(fn_name, []):
            if mir.is_testsupport(c.fn.name):
                continue
            cons = None
            for ga in c.gargs:
                m = re.match(r'^(?:util::decimal::constraint::)?(Neg|Pos|GreaterEqualZero|LessEqualZero)$', ga)
                if m:
                    cons = m.group(1)
            if cons:
                out.setdefault(cons, []).append(c)
            else:
                # generic caller: propagate
                owner = prog.owner_of(c.fn)
                visit(owner.name, depth + 1)
    visit(g.name, 0)
    return out


PARSERS = re.compile(
    r'^rust_decimal::Decimal::(from_str_exact|from_str_radix|from_scientific)$|<rust_decimal::Decimal as std::str::FromStr>::from_str$|'
    r'^core::str::<impl str>::parse$|^std::str::FromStr::from_str$|^time::Date::parse$|^time::(PrimitiveDateTime|OffsetDateTime|Time)::parse$|'
    r'^time::format_description::(parse|parse_owned|parse_borrowed)|^json::parse$|^chrono::NaiveDate::parse_from_str$|'
    r'^util::decimal::parse_large_decimal$|^util::date::(parse_standard_date|parse_date|parse_month|parse_dyn_date_format)$|'
    r'^portfolio::model::tx::SplitRatio::parse$|<portfolio::model::tx::TxAction as std::convert::TryFrom<&str>>::try_from$|'
    r'^std::num::<impl std::str::FromStr for|^core::num::<impl std::str::FromStr for|'
    r'<portfolio::model::tx::SFLInput as std::str::FromStr>|^csv::StringRecord::deserialize|^serde_json::from_')
UNWRAPS = re.compile(r'^std::(result::Result::<T, E>|option::Option::<T>)::(unwrap|expect|unwrap_unchecked|unwrap_err|expect_err)$')
RESULT_PASS = {'map', 'map_err', 'ok', 'and_then', 'as_ref', 'as_mut', 'or_else', 'ok_or', 'ok_or_else', 'cloned', 'copied',
               'branch', 'transpose', 'flatten', 'into', 'from', 'clone', 'as_deref'}


def text_is_constant(prog, fn, c):
    """is the text handed to parser call c a compile-time constant (following one level of parameters)?"""
    # receiver / first argument is the text for all modelled parsers; time::Date::parse(text, fmt): text is arg 0
    if not c.args:
        return True
    idx = 0
    org = mir.provenance(fn, c.args[idx], pass_through={'deref', 'as_str', 'as_ref', 'borrow', 'trim', 'clone', 'to_string', 'as_bytes'})
    if not org.params and not [x for x in org.calls if x.short not in ('deref', 'as_str', 'as_ref', 'borrow', 'trim', 'clone', 'to_string', 'new',
                                                                        'case_insensitive', 'multi_line', 'as_bytes')] and org.consts:
        return True
    if org.params and not org.calls and fn.kind in ('Fn', 'AssocFn'):
        # one level up: every caller passes a constant
        callers = [x for x in prog.callers.get(fn.name, []) if not mir.is_testsupport(x.fn.name)]
        if callers and all(
                (lambda o: o.consts and not o.params and not o.calls)(mir.provenance(x.fn, x.args[list(org.params)[0] - 1]))
                for x in callers if list(org.params)[0] - 1 < len(x.args)):
            return True
    return False


def requirements_hold(fn, ev, tf, entry, prog=None):
    org = None
    for req in entry.get('requires', []):
        if 'provenance_call' in req:
            if org is None:
                org = mir.provenance(fn, tf.args[0], follow_all_call_args=True)
            if not org.has_call(req['provenance_call']):
                return False
        if 'test' in req:
            hit = False
            for (locals_, fields, pred, truth) in getattr(ev, 'tests', []):
                if pred == req['test'] and truth == req['truth'] and any(f == req['field'] for of, f in fields):
                    hit = True
            if not hit and prog is not None and fn.kind in ('Fn', 'AssocFn'):
                # the test is made by every caller of this helper, before the call
                sites = [c for c in prog.callers.get(fn.name, []) if not mir.is_testsupport(c.fn.name) and not c.inlined]

                def site_has(c):
                    ev2 = SignEval(prog, c.fn)
                    ev2.set_site(c.bb)
                    return any(pred == req['test'] and truth == req['truth'] and any(f == req['field'] for of, f in fields)
                               for (locals_, fields, pred, truth) in ev2.tests)
                def site_filtered(c):
                    # the helper is called from a closure whose item passed a `filter` that made the test
                    if c.fn.kind != 'Closure':
                        return False
                    def atom2(g, x, req=req):
                        if x.short == req['test'] and x.args and any(f == req['field'] for of, f in mir.provenance(g, x.args[0]).fields) and \
                                not mir.provenance(g, x.args[0]).upvars:
                            return ('the-test', 'bool')
                        return None
                    return mir.filter_guarantees(prog, c.fn, atom2).get('the-test') is req['truth']
                if sites and all(site_has(c) or site_filtered(c) for c in sites):
                    hit = True
            if not hit and prog is not None and fn.kind == 'Closure':
                # the test was made by a `filter` the item passed before it reached this closure
                def atom(g, c, req=req):
                    if c.short == req['test'] and c.args and any(f == req['field'] for of, f in mir.provenance(g, c.args[0]).fields) and \
                            not mir.provenance(g, c.args[0]).upvars:
                        return ('the-test', 'bool')
                    return None
                if mir.filter_guarantees(prog, fn, atom).get('the-test') is req['truth']:
                    hit = True
            if not hit:
                return False
    return True


FORMAT_INTERNAL = re.compile(r'^(std|core|alloc)::fmt::|std::fmt::format|alloc::fmt::format|std::hint::must_use|'
                             r'std::string::String::new$|std::string::String::from$|Arguments')


def _is_closure_ty(g, local, closure_fn):
    """does `local` of g hold (a reference to) the closure `closure_fn`?  Closure types print as {closure@file:line:col: ...}"""
    t = g.ty.get(local if local is not None else -1, '')
    return '{closure@%s:%d:' % (closure_fn.file, closure_fn.line) in t


def const_derived(prog, fn, operand, depth=0):
    """is the value built only from compile-time constants (through format!/to_string/...) and from parameters that every
    product caller fills with such values (two levels up)?  Returns (bool, reason)."""
    org = mir.provenance(fn, operand, follow_all_call_args=True)
    for c in org.calls:
        if not c.arg_locals() and not FORMAT_INTERNAL.search(c.callee) and not c.args:
            return False, 'value produced by %s' % c.callee
    if org.upvars and fn.kind == 'Closure':
        return False, 'captured variable'
    for p in org.params:
        if depth >= 3:
            return False, 'parameter chain too deep'
        owner = fn
        if fn.kind == 'Closure':
            # the closure's own arguments: look at the calls of the closure in the parent
            parent = prog.by_crate[fn.crate].get(fn.parent)
            if parent is None or p == 1:
                return False, 'closure environment'
            ok_any = False
            # (a) the closure is handed to an iterator / Option adapter: its argument is an item of the receiver
            clos_locals = {st['dst']['l'] for b in parent.blocks.values() for st in b['stmts']
                           if st['r']['rv'] == 'agg' and st['r']['kind'] == 'closure:' + fn.name and not st['dst']['p']}
            handed = [c for c in parent.calls if any(mir.is_place(a) and not a['pl']['p'] and a['pl']['l'] in clos_locals for a in c.args[1:])]
            if handed:
                for c in handed:
                    if not (c.decl.startswith('std::iter::') or re.search(r'^std::(option::Option|result::Result)<', c.decl) or
                            re.search(r'^std::(option::Option|result::Result)::', c.decl) or 'slice' in c.decl):
                        return False, 'closure handed to %s' % c.callee
                    ok, why = const_derived(prog, parent, c.args[0], depth + 1)
                    if not ok:
                        return False, 'closure applied by %s to values that are not constants (%s)' % (c.short, why)
                continue
            # (b) the closure is called from a sibling closure that captured it
            sib_calls = [(g, c) for g in prog.closures_of(parent) if g is not fn for c in g.calls
                         if c.short in ('call', 'call_mut', 'call_once') and c.args and
                         fn.name.rsplit('::', 1)[-1] != '' and _is_closure_ty(g, c.arg_local(0), fn)]
            if sib_calls:
                for g, c in sib_calls:
                    if len(c.args) < 2:
                        return False, 'closure called without arguments'
                    ok, why = const_derived(prog, g, c.args[1], depth + 1)
                    if not ok:
                        return False, 'closure called from %s with a non-constant argument (%s)' % (g.name, why)
                ok_any = True
            for c in parent.calls:
                if c.short in ('call', 'call_mut', 'call_once') and c.args and fn.local_name.split('::')[-1] in parent.ty.get(c.arg_local(0) or -1, '') \
                        or (c.short in ('call', 'call_mut', 'call_once') and '{closure' in parent.ty.get(c.arg_local(0) or -1, '')):
                    ok_any = True
                    tup = mir.provenance(parent, c.args[1], follow_all_call_args=True) if len(c.args) > 1 else None
                    if tup is None or tup.params or not tup.consts:
                        return False, 'closure called with a non-constant argument at %s' % c.where()
            if not ok_any:
                return False, 'closure call sites not found'
            continue
        callers = [x for x in prog.callers.get(owner.name, []) if not mir.is_testsupport(x.fn.name)]
        if not callers:
            return False, 'public parameter without product callers'
        for x in callers:
            if p - 1 >= len(x.args):
                return False, 'arity mismatch'
            ok, why = const_derived(prog, x.fn, x.args[p - 1], depth + 1)
            if not ok:
                return False, 'caller %s passes a non-constant (%s)' % (x.fn.name, why)
    if not org.consts and not org.params:
        return False, 'no constant source'
    return True, 'constants only'


def regex_patterns(prog, rep):
    """R5b-regex: a pattern compiled with Regex::new / RegexBuilder::new is program text, never user text"""
    n = 0
    ordn = {}
    for fn in prog.product_fns():
        for c in fn.calls:
            if re.search(r'^regex::(Regex|RegexBuilder|RegexSet|bytes::Regex)::new$', c.callee):
                n += 1
                ok, why = const_derived(prog, fn, c.args[0])
                ordn[fn.name] = ordn.get(fn.name, 0) + 1
                k = '%s|regex-pattern#%d' % (fn.name, ordn[fn.name])
                if ok:
                    rep.ok('R5b', k, where=c.where(), fn=fn.name, detail='pattern is built from compile-time constants only', trivial=True)
                else:
                    rep.violation('R5b', k, where=c.where(), fn=fn.name,
                                  detail='a regular expression is compiled from text that is not a compile-time constant (%s) and the result is '
                                         'unwrapped somewhere: a malformed pattern would panic' % why)
    return n


def run(prog, rep, tier='quick', config='default'):
    reviewed = __import__('check').load_reviewed('c05_sign_reviewed.json')
    # ------------------------------------------------------------------ reachability from the front ends
    roots = [f for f in prog.fns.values() if f.crate != 'acb' and f.kind in ('Fn', 'AssocFn')]
    reach = prog.callees_closure(roots) if roots else {f.name: f for f in prog.product_fns()}
    if config != 'default':
        reach = {f.name: f for f in prog.product_fns()}

    # ------------------------------------------------------------------ R5a
    from props import anchors
    alias = {}
    sv = anchors.sfl_validation(prog)
    if sv is None and not getattr(prog, 'is_inlined_view', False) and hasattr(prog, 'inlined'):
        # the ledger step may only be recognisable with its arm functions spliced in: the alias is a name, the view finds it
        try:
            sv = anchors.sfl_validation(prog.inlined())
            sv = prog.fn(sv.name) if sv is not None else None
        except Exception:
            sv = None
    if sv is not None:
        alias[sv.name] = '@sfl_validation'     # private function located by shape: keys survive a rename
        # ... and a split into helpers of the same file (their closures included)
        for h in prog.callees_closure([getattr(sv, 'origin', sv)]).values():
            if h.file == sv.file and h.kind in ('Fn', 'AssocFn') and h.name != sv.name:
                alias[h.name] = '@sfl_validation'
        for h in list(alias):
            hf = prog.fn(h)
            for cl in (prog.closures_of(hf) if hf is not None else []):
                alias.setdefault(cl.name, '@sfl_validation')
    DAY = 'portfolio::bookkeeping::costs::MaxSingleDayCosts'
    for cand in prog.product_fns():
        if cand.kind == 'AssocFn' and any(mir.place_fields(st['dst'])[-1:] == [(DAY, 'total')] for b in cand.blocks.values() for st in b['stmts']):
            alias[cand.name] = '@cost_observer'    # the method that keeps MaxSingleDayCosts.total up to date
    sites = []
    for fn in prog.product_fns():
        for c in fn.calls:
            if UNWRAPS.search(c.callee) and c.gargs and 'ConstrainedDecimal<' in c.gargs[0] and 'Result' in c.callee:
                sites.append((fn, c))
    if len(sites) < 15:
        rep.violation('R5a', 'anchor-lost:unwrap-sites', detail='anchor lost: only %d ConstrainedDecimal unwrap sites found' % len(sites))
    ordn = {}
    for fn, c in sites:
        mm = CD_RE.search(c.gargs[0])
        cn0 = mm.group(1) if mm else '?'
        # the try_from whose result is unwrapped
        org = mir.provenance(fn, c.args[0], pass_through=RESULT_PASS)
        tf = [x for x in org.calls if x.short == 'try_from' and 'TryFrom' in x.decl]
        # name the site by the operations that build the converted value (stable when another unwrap is added to the function)
        label = ''
        if tf:
            o2 = mir.provenance(fn, tf[0].args[0])
            ops = sorted({x.short for x in o2.calls if x.short not in ('deref', 'clone', 'into', 'from', 'try_from', 'unwrap', 'expect', 'branch',
                                                                        'borrow', 'as_ref', 'copied', 'cloned', 'map', 'get', 'unwrap_or', 'index',
                                                                        'from_output', 'deref_mut', 'new')} |
                         {op for op, _ in o2.binops})
            label = '@' + ','.join(ops[:3]) if ops else ''
        ordn[(fn.name, cn0, label)] = ordn.get((fn.name, cn0, label), 0) + 1
        base = '%s|unwrap<%s>%s#%d' % (alias.get(fn.name, fn.name), cn0, label, ordn[(fn.name, cn0, label)])
        if not tf:
            rep.violation('R5a', base, where=c.where(), fn=fn.name, detail='unwrap of a Result<ConstrainedDecimal> that is not produced by try_from (%s)'
                          % sorted(org.call_names())[:3])
            continue
        tf = tf[0]
        target_ty = c.gargs[0]
        m = CD_RE.search(target_ty)
        cname = m.group(1) if m else '?'
        generic = cname not in S
        owner = prog.owner_of(fn)
        no_callers = (config != 'default' and not owner.name.startswith('<') and
                      not [x for x in prog.callers.get(owner.name, []) if not mir.is_testsupport(x.fn.name)])
        if config != 'default' and owner.name.startswith('<') and not no_callers:
            # an operator / trait impl: unreached when no product call resolves to it and no product call of that trait method is
            # left unresolved (a generic call could still dispatch to it)
            mt = re.match(r'^<.+ as (.+)>::(\w+)$', owner.name)
            if mt and not [x for x in prog.callers.get(owner.name, []) if not mir.is_testsupport(x.fn.name)]:
                generic_calls = [x for g2 in prog.product_fns() for x in g2.calls
                                 if x.callee in ('%s::%s' % (mt.group(1), mt.group(2)),) or (x.callee.startswith('<') and x.callee.endswith('>::' + mt.group(2)) and
                                                                                             re.match(r'^<[A-Z]\w* as ', x.callee) and mt.group(1) in x.callee)]
                no_callers = not generic_calls
        if (owner.name not in reach and fn.name not in reach) or no_callers:
            rep.info('R5a', base + '|unreached', where=c.where(), fn=fn.name, detail='function is not reachable from any front end: not judged')
            continue
        insts = [None]
        inst_sites = {}
        if generic:
            inst_sites = instantiations(prog, owner)
            insts = sorted(inst_sites) or []
            if not insts:
                rep.info('R5a', base + '|no-instantiation', where=c.where(), fn=fn.name, detail='generic function is never instantiated from product code')
                continue
        for inst in insts:
            subst = {cname: inst} if inst else {}
            ev = SignEval(prog, fn, subst)
            ev.set_site(tf.bb)
            sign = ev.eval_op(tf.args[0])
            want = S[inst or cname]
            k = base + ('|T=%s' % inst if inst else '')
            where = c.where()
            via = ''
            if inst:
                cs = inst_sites[inst][0]
                via = ' (instantiated with %s from %s at %s)' % (inst, cs.fn.name, cs.where())
            desc = 'try_from::<%s>(e).unwrap(): sign(e) = %s%s%s' % (inst or cname, sname(sign), ' after rounding' if ev.rounded else '', via)
            if sign <= want:
                if ev.inexact:
                    rep.ok('R5a', k, where=where, fn=fn.name, detail=desc + ' — justified in exact arithmetic (a product of strictly '
                           'signed values; underflow to zero needs an exact result below 1e-28)')
                else:
                    rep.ok('R5a', k, where=where, fn=fn.name, detail=desc + ' — justified')
            else:
                full = 'C05|R5a|' + k
                # would the site hold if quotients could not underflow?  Then the only way to fail is a quotient below 1e-28 rounding
                # to zero: reported under a key of its own, so that a worse violation at the same site stays distinguishable
                WEAK_DIV[0] = False
                try:
                    ev_x = SignEval(prog, fn, subst)
                    ev_x.set_site(tf.bb)
                    exact_ok = ev_x.eval_op(tf.args[0]) <= want
                    if not exact_ok and full in reviewed and reviewed[full].get('quotient_may_underflow') and requirements_hold(fn, ev_x, tf, reviewed[full], prog):
                        exact_ok = True
                finally:
                    WEAK_DIV[0] = True
                if exact_ok and (full not in reviewed or reviewed[full].get('quotient_may_underflow')):
                    rep.violation('R5a', k + '|quotient-may-underflow', where=where, fn=fn.name,
                                  detail=desc + ' is within %s only if the quotient it comes from cannot round to zero; a quotient of two amounts '
                                  'inside the property\'s ranges can be smaller than 1e-28 (1e-10 / 1e19), rust_decimal then answers 0 and the unwrap panics' % sname(want))
                    continue
                if full in reviewed and not requirements_hold(fn, ev, tf, reviewed[full], prog):
                    rep.violation('R5a', k, where=where, fn=fn.name, detail=desc + ' is not within %s, and the structural facts the reviewed '
                                  'justification relies on (%s) no longer hold' % (sname(want), reviewed[full].get('requires')))
                elif full in reviewed:
                    rep.reviewed('R5a', k, where=where, fn=fn.name, detail=desc + ' — not derivable in the sign lattice; reviewed: ' + reviewed[full]['reason'])
                else:
                    extra = ''
                    if ev.rounded and (sign - want) == frozenset([ZERO]):
                        extra = ': rounding a strictly signed value can give exactly 0, which violates the constraint -> panic'
                    rep.violation('R5a', k, where=where, fn=fn.name, detail=desc + ' is not within %s%s' % (sname(want), extra))
    rep.extra['constrained_unwrap_sites'] = len(sites)

    r5b(prog, rep)
    r5c(prog, rep)
    r5d(prog, rep)
    r5e(prog, rep, reviewed, reach=reach if config == 'default' else None, require_floor=(config != 'wasm'))
    # ------------------------------------------------------------------ R5f (lib/props/c05_groups.py)
    from props import c05_groups
    n_grp = c05_groups.r5f(prog, rep, reach=reach if config == 'default' else None)
    rep.extra['required_group_accesses'] = n_grp
    if config == 'default' and n_grp < 20:
        rep.violation('R5f', 'anchor-lost:group-accesses', detail='anchor lost: only %d required capture-group accesses found (36 confirmed by hand)' % n_grp)


def r5b(prog, rep, require_floor=True):
    # ------------------------------------------------------------------ R5b
    n_p = 0
    n_u = 0
    ordn = {}
    for fn in prog.product_fns():
        for c in fn.calls:
            if PARSERS.search(c.callee) or PARSERS.search(c.decl):
                n_p += 1
        for c in fn.calls:
            if not UNWRAPS.search(c.callee):
                continue
            if c.macro_is('lazy_static', '__lazy_static_internal'):
                continue
            n_u += 1
            org = mir.provenance(fn, c.args[0], pass_through=RESULT_PASS)
            ps = [x for x in org.calls if (PARSERS.search(x.callee) or PARSERS.search(x.decl))]
            for pcall in ps:
                if text_is_constant(prog, fn, pcall):
                    continue
                if pcall.callee.endswith('RegexBuilder::build'):
                    # the pattern is the argument of RegexBuilder::new
                    o2 = mir.provenance(fn, pcall.args[0], pass_through={'case_insensitive', 'multi_line', 'deref', 'borrow', 'new', 'dot_matches_new_line', 'unicode'})
                    if o2.consts and not o2.params:
                        continue
                ordn[fn.name] = ordn.get(fn.name, 0) + 1
                k = '%s|%s-of-%s#%d' % (fn.name, c.short, short(pcall.callee), ordn[fn.name])
                rep.violation('R5b', k, where=c.where(), fn=fn.name,
                              detail='the result of parser %s (at %s) applied to non-constant text reaches %s(): malformed input panics instead of '
                                     'producing a diagnostic' % (pcall.callee, pcall.where(), c.short))
    n_rx = regex_patterns(prog, rep)
    rep.extra['regex_pattern_sites'] = n_rx
    if not require_floor:
        pass
    elif n_p < 30:
        rep.violation('R5b', 'anchor-lost:parser-calls', detail='anchor lost: only %d parser call sites recognised' % n_p)
    else:
        rep.ok('R5b', 'parser-results-never-unwrapped', fn='(all product crates)',
               detail='%d parser call sites, %d unwrap/expect sites examined: no parser result on non-constant text reaches unwrap/expect' % (n_p, n_u))
    rep.extra['parser_call_sites'] = n_p
    rep.extra['unwrap_sites_examined'] = n_u


# ------------------------------------------------------------------ R5c: parallel-sequence indexing
ALIAS_CALLS = ('deref', 'deref_mut', 'as_ref', 'borrow', 'as_slice', 'as_mut_slice', 'borrow_mut', 'as_mut', 'index', 'index_mut')


def place_id(fn, l, extra=()):
    """(root local, field path) a sequence-valued local is an alias of; '?' path element = something not tracked"""
    path = list(extra)
    seen = set()
    while l is not None and l not in seen:
        seen.add(l)
        if l in fn.user or fn.is_param(l):
            break
        d = fn.single_def(l)
        if d is None:
            break
        bb, idx, kind, node = d
        if kind == 'stmt':
            r = node['r']
            pl = None
            if r['rv'] in ('ref', 'rawptr'):
                pl = r['pl']
            elif r['rv'] == 'use' and is_place(r['ops'][0]):
                pl = r['ops'][0]['pl']
            if pl is None:
                break
            path = [e['f'] if isinstance(e, dict) and 'f' in e else ('[]' if isinstance(e, dict) and 'idx' in e else None)
                    for e in pl['p'] if e != '*'] + path
            l = pl['l']
            continue
        c = fn.call_at[bb]
        if c.short in ALIAS_CALLS and c.short not in ('index', 'index_mut'):
            l = c.arg_local(0)
            continue
        break
    return (l, tuple(x for x in path if x is not None))


def index_sites(fn):
    """[(receiver id, index local, where, description)] for `ys[i]` with a usize index on a Vec / slice / array"""
    out = []
    for c in fn.calls:
        if c.short in ('index', 'index_mut') and len(c.args) > 1 and c.decl.startswith('std::ops::Index'):
            il = c.arg_local(1)
            if il is None or fn.ty.get(il) != 'usize':
                continue
            rty = fn.ty.get(c.arg_local(0), '')
            if not re.search(r'Vec<|\[', rty):
                continue
            out.append((place_id(fn, c.arg_local(0)), il, c.where(), c.bb, rty))
    seen = set()
    for i, b in fn.blocks.items():
        nodes = list(b['stmts'])
        for s in nodes:
            pls = list(fn.stmt_sources(s)) + [s['dst']]
            for pl in pls:
                for n, e in enumerate(pl['p']):
                    if isinstance(e, dict) and 'idx' in e:
                        pre = [x['f'] for x in pl['p'][:n] if isinstance(x, dict) and 'f' in x]
                        key = (i, pl['l'], tuple(pre), e['idx'])
                        if key in seen:
                            continue
                        seen.add(key)
                        out.append((place_id(fn, pl['l'], pre), e['idx'], fn.where(s), i, fn.ty.get(pl['l'], '')))
    return out


def r5c(prog, rep, require_floor=True):
    """`ys[i]` where everything that bounds i (the `0..xs.len()` range it is drawn from, the `i < xs.len()` tests that
    dominate the access) speaks about the length of *another* sequence xs, and no dominating test relates the two lengths:
    if ys is shorter than xs the access panics. (Sequences filled from independent scans of input text are the case in point.)"""
    n_sites = 0
    n_bounded = 0
    ordn = {}
    for fn in prog.product_fns():
        for (yid, il, where, bb, rty) in index_sites(fn):
            n_sites += 1
            org = mir.provenance(fn, {'k': 'copy', 'pl': {'l': il, 'p': []}}, follow_all_call_args=True)
            bounded = {}
            if any(x.short == 'next' and 'Range<usize>' in fn.ty.get(x.arg_local(0), '') for x in org.calls):
                for x in org.calls:
                    if x.short == 'len' and x.arg_local(0) is not None:
                        bounded[place_id(fn, x.arg_local(0))] = 'the range it iterates over ends at %s.len()' % fn.describe_local(place_id(fn, x.arg_local(0))[0]).split(':')[0]
            # ... or the index is the position of an element of another sequence (`for (i, x) in xs.iter().enumerate() { ys[i] }`)
            for x in org.calls:
                if x.short == 'enumerate' and x.arg_local(0) is not None:
                    src = mir.nearest_user_local(fn, x.args[0])
                    if src is not None and re.search(r'Vec<|\[|StringRecord|ByteRecord|VecDeque<', fn.ty.get(src, '')):
                        bounded[place_id(fn, src)] = 'it is the position of an element of %s' % fn.describe_local(src).split(':')[0]
            nu = mir.nearest_user_local(fn, il)
            idx_roots = {il} | ({nu} if nu is not None else set())
            related = False
            CMP = ('Lt', 'Le', 'Gt', 'Ge', 'Eq', 'Ne')
            for (sbb, discr, vals, neg) in fn.conditions_at(bb):
                d = mir.provenance(fn, discr, follow_all_call_args=True)
                for (op, st) in d.binops:
                    if op not in CMP:
                        continue
                    sides = []
                    for o in st['r']['ops']:
                        if is_place(o):
                            po = mir.provenance(fn, o, follow_all_call_args=True)
                            sides.append((bool((po.locals | {op_local(o)}) & idx_roots),
                                          {place_id(fn, x.arg_local(0)) for x in po.calls if x.short == 'len' and x.arg_local(0) is not None}))
                        else:
                            sides.append((False, set()))
                    if len(sides) != 2:
                        continue
                    (ia, la), (ib, lb) = sides
                    if (yid in la and lb) or (yid in lb and la):
                        related = True        # a test relating ys.len() to another length
                    for (has_i, _), (_, lens) in (((ia, la), (ib, lb)), ((ib, lb), (ia, la))):
                        if has_i:
                            for pid_ in lens:
                                bounded.setdefault(pid_, 'a dominating test compares it with %s.len()' % fn.describe_local(pid_[0]).split(':')[0])
            if not bounded:
                continue
            if yid not in bounded and not related:
                # the two sequences are two calls of the same read-only accessor on the same, unchanged receiver
                # (`while i < list.active().len() { let a = list.active(); a[i] }`)
                def accessor(l_):
                    d_ = fn.single_def(l_)
                    hops = 0
                    while d_ and d_[2] == 'stmt' and hops < 6:
                        # a re-borrow / copy of the accessor's result
                        r_ = d_[3]['r']
                        src_ = r_['pl'] if r_['rv'] == 'ref' else (r_['ops'][0]['pl'] if r_['rv'] == 'use' and is_place(r_['ops'][0]) else None)
                        if src_ is None or any(e_ != '*' for e_ in src_['p']):
                            return None
                        d_ = fn.single_def(src_['l'])
                        hops += 1
                    if not d_ or d_[2] != 'call':
                        return None
                    c_ = fn.call_at[d_[0]]
                    h_ = prog.resolve(c_.callee, fn.crate)
                    if h_ is None or h_.kind not in ('Fn', 'AssocFn') or not c_.args:
                        return None
                    if any((fn.ty.get(a_, '') or '').startswith('&mut') or not (fn.ty.get(a_, '') or '').startswith('&') for a_ in c_.arg_locals()):
                        return None
                    roots_ = tuple(mir.nearest_user_local(fn, a_) for a_ in c_.args)
                    if None in roots_:
                        return None
                    return (h_.name, roots_, c_)
                ay = accessor(yid[0]) if not yid[1] else None
                for pid_ in list(bounded):
                    ap = accessor(pid_[0]) if not pid_[1] else None
                    if ay and ap and ay[:2] == ap[:2]:
                        r_ = set(ay[1])
                        first, second = (ap[2], ay[2])
                        # blocks on a way from the first call to the second one that does not come round to the first again (in a loop the
                        # length is read afresh after every change)
                        fwd = fn.reachable_from(first.bb, avoid={second.bb})
                        between = {first.bb, second.bb} | {b_ for b_ in fwd if second.bb in fn.reachable_from(b_, avoid={first.bb})}
                        mutated = False
                        for c2 in fn.calls:
                            if c2.bb in between and c2 is not first and c2 is not second:
                                for a_ in c2.arg_locals():
                                    if (fn.ty.get(a_, '') or '').startswith('&mut') and mir.nearest_user_local(fn, {'k': 'copy', 'pl': {'l': a_, 'p': []}}) in r_:
                                        mutated = True
                        for b_ in between:
                            for st_ in fn.blocks[b_]['stmts']:
                                if st_['dst']['l'] in r_ and st_['dst']['p']:
                                    mutated = True
                        if not mutated:
                            related = True
            n_bounded += 1
            ordn[fn.name] = ordn.get(fn.name, 0) + 1
            k = '%s|index-bounded-by-own-length#%d' % (fn.name, ordn[fn.name])
            if yid in bounded or related:
                rep.ok('R5c', k, where=where, fn=fn.name, detail='index into %s is bounded by the length of the same sequence' % rty[:60])
            else:
                why = '; '.join(sorted(set(bounded.values())))
                rep.violation('R5c', k, where=where, fn=fn.name,
                              detail='index into %s (%s) is only bounded by the length of another sequence (%s) and no dominating test '
                                     'relates the two lengths: a shorter sequence makes this access panic instead of producing a diagnostic'
                                     % (fn.describe_local(yid[0]).split(':')[0] + ''.join('.' + f for f in yid[1]), rty[:50], why))
    rep.extra['index_sites'] = n_sites
    rep.extra['index_sites_with_length_bound'] = n_bounded
    if require_floor:
        if n_sites < 15:
            rep.violation('R5c', 'anchor-lost:index-sites', detail='anchor lost: only %d usize index sites recognised (24 counted by hand)' % n_sites)
        else:
            rep.ok('R5c', 'no-index-bounded-only-by-another-length', fn='(all product crates)',
                   detail='%d usize index sites on Vec/slice examined; %d draw their index from a length-bounded range or test; none is '
                          'bounded only by the length of a different sequence' % (n_sites, n_bounded), trivial=True)



# ------------------------------------------------------------------ R5d: no exact-equality assertion on a rounded Decimal expression
ARITH = re.compile(r'std::ops::(Add|Sub|Mul|Div|Rem)(Assign)?::(add|sub|mul|div|rem)(_assign)?$')
DECTY = re.compile(r'rust_decimal::Decimal|util::decimal::ConstrainedDecimal')


def r5d(prog, rep, require_floor=True):
    """`assert_eq!(a, b)` / `assert!(a == b)` in product code where a or b is computed *in that function* by Decimal arithmetic:
    rust_decimal rounds every operation to 28 significant digits, so two ways of computing the same quantity agree only up to
    the last digits, and the assertion aborts the process on valid input (e.g. x + 8 - 8 != x for x = 8/3)."""
    n_assert = 0
    ordn = {}
    for fn in prog.product_fns():
        for c in fn.calls:
            is_assert = 'panicking::assert_failed' in c.callee or \
                ((c.callee.endswith('panicking::panic') or 'panic_fmt' in c.callee) and c.macro_is('assert', 'assert_eq', 'assert_ne'))
            if not is_assert:
                continue
            n_assert += 1
            hit = None
            for (sbb, discr, vals, neg) in fn.conditions_at(c.bb):
                d = mir.provenance(fn, discr, follow_all_call_args=True)
                eqs = [x for x in d.calls if x.decl.endswith('PartialEq::eq') or x.decl.endswith('PartialEq::ne')
                       or x.callee.endswith('::eq') or x.callee.endswith('::ne')]
                eqs = [x for x in eqs if any(DECTY.search(fn.ty.get(a, '')) for a in x.arg_locals())]
                if not eqs:
                    continue
                for x in eqs:
                    for a in x.args:
                        if not is_place(a):
                            continue
                        oa = mir.provenance(fn, a, follow_all_call_args=True)
                        ar = [y for y in oa.calls if (ARITH.search(y.decl) or ARITH.search(y.callee)) and
                              any(DECTY.search(fn.ty.get(z, '')) for z in y.arg_locals())]
                        if ar:
                            hit = (x, ar)
            ordn[fn.name] = ordn.get(fn.name, 0) + 1
            k = '%s|assertion#%d|no-exact-equality-on-rounded-decimal' % (fn.name, ordn[fn.name])
            if hit:
                x, ar = hit
                rep.violation('R5d', k, where=c.where(), fn=fn.name,
                              detail='the assertion compares for exact equality a Decimal computed here by %s (at %s): every rust_decimal '
                                     'operation rounds to 28 significant digits, so the two sides can differ in the last digit on valid input '
                                     'and the process aborts instead of reporting' % (
                                         ', '.join(sorted({short(y.callee) for y in ar})), ar[0].where()))
            else:
                rep.ok('R5d', k, where=c.where(), fn=fn.name, detail='assertion does not compare a locally computed Decimal expression for equality', trivial=True)
    rep.extra['assert_sites'] = n_assert
    if require_floor and n_assert < 6:
        rep.violation('R5d', 'anchor-lost:assert-sites', detail='anchor lost: only %d assertion sites recognised in product code (12 counted by hand)' % n_assert)



def captured_refine(prog, g, operand, sign):
    """a value read inside closure g through a captured variable: the sign tests that dominate the place where the closure is built
    (in the enclosing function) hold for it — `if !is_positive(&s.balance) { return None } opt.map(|x| x / s.balance)`"""
    owner = prog.by_crate[g.crate].get(g.parent)
    if owner is None:
        return sign
    o = mir.provenance(g, operand, pass_through={'deref', 'clone', 'borrow'})
    names = {g.upvar_names.get(u) for u in o.upvars} - {None}
    if len(names) != 1:
        return sign
    nm = next(iter(names))
    def own(fs):
        # fields of the program's own types (the capture index, Option / tuple payload projections are not part of the path)
        return {(of, f) for (of, f) in fs if of and not of.startswith('std::') and not of.startswith('core::')}
    vf = own(o.fields)
    creations = [i for i, b in owner.blocks.items() for st in b['stmts'] if st['r']['rv'] == 'agg' and st['r']['kind'] == 'closure:' + g.name]
    if not creations:
        return sign
    sets = {'is_zero': {ZERO}, 'is_sign_negative': {NEG, ZERO}, 'is_sign_positive': {POS, ZERO}, 'is_negative': {NEG}, 'is_positive': {POS}}
    out = frozenset()
    for bb in creations:
        ev = SignEval(prog, owner)
        ev.set_site(bb)
        s2 = sign
        for (locals_, fields, pred, truth) in ev.tests:
            if not any(owner.varnames.get(l) == nm for l in locals_):
                continue
            if own(fields) != vf:
                continue
            st = frozenset(sets[pred])
            if truth:
                s2 = s2 & st
            elif pred in ('is_zero', 'is_negative', 'is_positive'):
                s2 = s2 - st
        out |= s2
    out = out or sign
    # ... and so do the tests of the same captured value made by a `filter` predicate the item / payload passed before it reached
    # this closure (`opt.filter(|_| is_positive(&s.balance)).map(|x| x / s.balance)`): both closures borrow the value, nothing can
    # change it in between
    def atom(p, c):
        if c.short in sets and c.args:
            po = mir.provenance(p, c.args[0], pass_through={'deref', 'clone', 'borrow'})
            if {p.upvar_names.get(u) for u in po.upvars} - {None} == {nm} and own(po.fields) == vf:
                return (c.short, 'bool')
        return None
    for pred, truth in mir.filter_guarantees(prog, g, atom).items():
        st = frozenset(sets[pred])
        if truth:
            out = out & st
        elif pred in ('is_zero', 'is_negative', 'is_positive'):
            out = out - st
    return out or sign


def r5e(prog, rep, reviewed, reach=None, require_floor=True):
    """Decimal division / remainder: `a / b` on rust_decimal::Decimal panics ("Division by zero") when b is zero. At every such
    site reachable from a front end the divisor must be non-zero by its type (a Pos / Neg constrained decimal or its inner value),
    by the sign lattice (a quotient / product / constant of non-zero values), or by a dominating `is_zero()` / sign test."""
    n = 0
    ordn = {}
    for fn in prog.product_fns():
        if mir.is_testsupport(fn.name):
            continue
        for c in fn.calls:
            if not re.search(r'std::ops::(Div|Rem|DivAssign|RemAssign)::(div|rem|div_assign|rem_assign)$', c.decl) or len(c.args) != 2:
                continue
            tys = [fn.ty.get(op_local(a), '') if is_place(a) else a.get('ty', '') for a in c.args]
            if not any('Decimal' in t for t in tys + [c.callee]):
                continue
            n += 1
            owner = prog.owner_of(fn)
            ordn[owner.name] = ordn.get(owner.name, 0) + 1
            k = '%s|division#%d|divisor-is-not-zero' % (owner.name, ordn[owner.name])
            if reach is not None and owner.name not in reach and fn.name not in reach:
                rep.info('R5e', k + '|unreached', where=c.where(), fn=fn.name, detail='function is not reachable from any front end: not judged')
                continue
            ev = SignEval(prog, fn)
            ev.set_site(c.bb)
            sign = ev.eval_op(c.args[1])
            if is_place(c.args[1]):
                sign = ev.refine(c.bb, c.args[1], sign)
            if ZERO in sign and fn.kind == 'Closure' and is_place(c.args[1]):
                sign = captured_refine(prog, fn, c.args[1], sign)
            generic = CD_RE.search(tys[1] or '') and CD_RE.search(tys[1]).group(1) not in S
            if ZERO not in sign:
                rep.ok('R5e', k, where=c.where(), fn=fn.name, detail='divisor has sign %s: never zero' % sname(sign), trivial=True)
            elif generic:
                rep.info('R5e', k + '|generic', where=c.where(), fn=fn.name, detail='generic over the constraint: judged at the instantiations')
            else:
                full = 'C05|R5e|' + k
                if full in reviewed:
                    rep.reviewed('R5e', k, where=c.where(), fn=fn.name, detail='divisor may be zero as far as the sign lattice can tell — reviewed: ' + reviewed[full]['reason'])
                else:
                    rep.violation('R5e', k, where=c.where(), fn=fn.name,
                                  detail='Decimal division by a value that can be zero (sign %s, no dominating is_zero / sign test): rust_decimal '
                                         'panics with "Division by zero" instead of the program reporting the offending row' % sname(sign))
    rep.extra['decimal_division_sites'] = n
    if require_floor and n < 10:
        rep.violation('R5e', 'anchor-lost:division-sites', detail='anchor lost: only %d Decimal division sites recognised (15 counted)' % n)


def fixture():
    import facts
    import check
    prog = mir.Program(facts.ensure_fixture())
    rep = check.Report('C05')
    r5b(prog, rep, require_floor=False)
    r5c(prog, rep, require_floor=False)
    bad = sorted({o.fn for o in rep.obs if o.status == check.VIOLATION})
    want = ['@verif_fixture_pos::bad_parallel_index', '@verif_fixture_pos::bad_parallel_index_slice', '@verif_fixture_pos::bad_unwrap_user_number']
    return {'ok': bad == want, 'reported': bad, 'expected': want}
