"""C08 — securities are computed independently; one security's error stays local.  DESIGN.md 5.C08 (R8a-R8c)."""
import re

import mir
from mir import short, is_place, op_local

LEVEL = 'other'
EXPLANATION = ('Decides the necessary structural clauses of C08: (R8a) every per-security loop (a loop driven by a map keyed by '
               'security whose values are transactions, deltas, delta results, render tables or gains) can only be left through '
               'exhaustion — no return / ? / break on a single security\'s outcome; (R8b) the per-security bookkeeping entry point '
               'receives only that security\'s rows and opening position and takes no &mut state; (R8c) no product code writes '
               'process-global state other than the reviewed idempotent tables; (R8d) inside a per-security loop no container of per-security '
               'results is read back and no variable assigned from the current security\'s data is consulted by a later iteration. '
               'Not decided: numeric independence of the tables.')
TRUSTED_BASE = ['rustc nightly MIR construction and trait resolution']
ASSUMPTIONS = []

PAYLOAD = (r'std::vec::Vec<portfolio::model::tx::Tx>|portfolio::bookkeeping::delta_list::DeltaListResult|'
           r'std::vec::Vec<portfolio::model::txdelta::TxDelta>|portfolio::render::RenderTable|'
           r'portfolio::cumulative_gains::CumulativeCapitalGains')
SECMAP = re.compile(r'std::collections::(HashMap|BTreeMap)<std::string::String, (&(mut )?)?(%s)' % PAYLOAD)
SECSEQ = re.compile(r'std::vec::Vec<\((&)?std::string::String, (&(mut )?)?(%s)' % PAYLOAD)


def is_tracing_call(c):
    return '$crate::event' in (c.exp or '') or 'tracing::' in c.callee


def per_security_loops(prog):
    out = []
    for fn in prog.product_fns():
        for (nc, header, body) in fn.iterator_loops():
            org = mir.provenance(fn, nc.args[0], follow_all_call_args=True)
            tys = [fn.ty.get(l, '') for l in org.locals]
            tys += [prog.field_type(of, f) or '' for (of, f) in org.fields]
            hit = [t for t in tys if SECMAP.search(t) or SECSEQ.search(t)]
            if hit:
                out.append((fn, nc, header, body, hit[0]))
    return out


def run(prog, rep, tier='quick', config='default'):
    reviewed = __import__('check').load_reviewed('c08_reviewed.json')
    loops = per_security_loops(prog)
    rep.anchor('per-security loops (driven by a security-keyed map of txs/deltas/results/tables/gains)', [l[0].name for l in loops])
    if len(loops) < 5:
        rep.violation('R8a', 'anchor-lost:per-security-loops', detail='anchor lost: only %d per-security loops recognised (expected the app, '
                      'summary, gains and writer loops)' % len(loops))
    ordn = {}
    for (fn, nc, header, body, why) in loops:
        # label the loop by what it calls (stable when another loop is added to the function), not by its position
        names = sorted({short(c.decl) for c in fn.calls if c.bb in body and c is not nc and not is_tracing_call(c) and
                        not re.match(r'(std|core|alloc)::', c.decl) and not re.match(r'<?(std|core|alloc)::', c.callee)})
        label = 'loop[%s]' % ','.join(names[:3]) if names else 'loop[]'
        ordn[(fn.name, label)] = ordn.get((fn.name, label), 0) + 1
        if ordn[(fn.name, label)] > 1:
            label += '#%d' % ordn[(fn.name, label)]
        base = '%s|%s' % (fn.name, label)
        normal, other = fn.classify_loop_exits(nc, body)
        if not other:
            rep.ok('R8a', base, where=nc.where(), fn=fn.name, detail='left only through exhaustion (iterates %s)' % why[:90])
            continue
        for n, (src, dst) in enumerate(other):
            t = fn.blocks[src]['term']
            k = '%s|exit%d' % (base, n)
            full = 'C08|R8a|' + k
            # what kind of exit: `?` (from_residual on the way to return), return, break
            kind = 'break/return'
            path = {dst} | fn.reachable_from(dst)
            if any(c.short == 'from_residual' and (c.bb == dst or c.bb == src or c.bb in path) and not fn.reaches(c.bb, header) for c in fn.calls):
                kind = 'error propagation (`?`/return Err)'
            culprit = ''
            conds = fn.conditions_at(src)
            for (sbb, discr, vals, neg) in reversed(conds):
                o = mir.provenance(fn, discr)
                cs = [c for c in o.calls if c.bb in body and c.short not in ('next', 'branch')]
                if cs:
                    culprit = ' after %s' % cs[0].callee
                    break
            detail = ('per-security loop can be left early by %s%s at %s: one security\'s outcome ends the processing of the '
                      'remaining securities' % (kind, culprit, fn.where(t) if t else ''))
            if full in reviewed:
                rep.reviewed('R8a', k, where=nc.where(), fn=fn.name, detail=detail + ' — reviewed: ' + reviewed[full]['reason'])
            else:
                rep.violation('R8a', k, where=nc.where(), fn=fn.name, detail=detail)

    # ------------------------------------------------------------------ R8d: nothing data-dependent is carried from one security to the next
    r8d(prog, rep, loops)
    r8h(prog, rep, loops)

    # ------------------------------------------------------------------ R8f: every affiliate value comes out of the interning table
    AFF = 'portfolio::model::affiliate::Affiliate'
    def builds_new(f):
        # wraps a freshly allocated AffiliateData (Arc::new), as opposed to the derived Clone, which re-wraps the same allocation
        for b in f.blocks.values():
            for st in b['stmts']:
                if st['r']['rv'] == 'agg' and st['r']['kind'].startswith('adt:' + AFF) and not st['r']['kind'].startswith('adt:' + AFF + 'D'):
                    for o in st['r']['ops']:
                        if is_place(o) and any(x.short == 'new' and 'Arc' in x.callee for x in mir.provenance(f, o).calls):
                            return True
        return False
    ctors = [f for f in prog.product_fns() if not mir.is_testsupport(f.name) and builds_new(f)]
    if not ctors:
        rep.violation('R8f', 'anchor-lost:affiliate-constructor', detail='anchor lost: no function builds an Affiliate value')
    n_new = 0
    for ctor in ctors:
        sites = [c for c in prog.callers.get(ctor.name, []) if not mir.is_testsupport(c.fn.name)]
        if ctor.kind not in ('Fn', 'AssocFn'):
            sites = []
        holders = sites or []
        # the constructor itself, when it is not a mere wrapper called from elsewhere
        cands = [(c.fn, c) for c in holders] or [(ctor, None)]
        for (g, c) in cands:
            n_new += 1
            # a constructor call inside `entry(id).or_insert_with(|| Affiliate::new(..))` is judged in the function owning the closure
            scope = [g] + ([prog.owner_of(g)] if g.kind == 'Closure' else [])
            ins = [x for h in scope for x in h.calls if x.short in ('insert', 'entry', 'or_insert', 'or_insert_with') and
                   re.search(r'(HashMap|Entry)<.*std::string::String, ' + re.escape(AFF), h.ty.get(x.arg_local(0), '') or '')]
            k = '%s|affiliate-built-only-inside-the-interning-table' % g.name
            if ins:
                rep.ok('R8f', k, where=(c.where() if c else '%s:%d' % (g.file, g.line)), fn=g.name,
                       detail='the new Affiliate is stored in the id -> Affiliate table in the same function')
            else:
                rep.violation('R8f', k, where=(c.where() if c else '%s:%d' % (g.file, g.line)), fn=g.name,
                              detail='an Affiliate is built outside the interning table: equality compares id *and* display name while hashing uses the id, '
                                     'so two values for one id (e.g. "Default" here, "default" interned from another security\'s row) are unequal, and '
                                     'one security\'s spelling changes how another security\'s rows are grouped')
    rep.extra['affiliate_construction_sites'] = n_new

    # ------------------------------------------------------------------ R8g: the interning table is keyed by the parsed id
    # every key used on the id -> Affiliate table by a function that stores into it is the `id` of the parsed AffiliateData (or the
    # id() of the Affiliate being stored): a key computed from the raw spelling interns two spellings of one id as two values that
    # hash alike and compare unequal — the rows of one affiliate then fall apart into two
    TABLE = re.compile(r'(HashMap|Entry)<.*std::string::String, ' + re.escape(AFF))
    n_keys = 0
    for g in prog.product_fns():
        if mir.is_testsupport(g.name) or g.kind not in ('Fn', 'AssocFn'):
            continue
        grp = prog.body_group(g)
        uses = [(h, x) for h in grp for x in h.calls if x.short in ('insert', 'entry', 'get', 'get_mut', 'contains_key', 'remove') and
                len(x.args) > 1 and TABLE.search(h.ty.get(x.arg_local(0), '') or '')]
        if not any(x.short in ('insert', 'entry') for (_, x) in uses):
            continue
        for (h, x) in uses:
            n_keys += 1
            o = mir.provenance(h, x.args[1], follow_all_call_args=True)
            by_id = any(fl == 'id' and of.endswith('AffiliateData') for (of, fl) in o.fields) or \
                any(y.callee.endswith('affiliate::Affiliate::id') for y in o.calls)
            k = '%s|table-keyed-by-parsed-id|%s' % (g.name, x.short)
            if by_id:
                rep.ok('R8g', k, where=x.where(), fn=h.name, detail='the key is AffiliateData.id / Affiliate::id() of the value looked up or stored')
            else:
                rep.violation('R8g', k, where=x.where(), fn=h.name,
                              detail='the id -> Affiliate table is used with a key that is not the parsed id (it derives from %s): two spellings of one '
                                     'affiliate are interned as two values that hash alike but compare unequal, and the affiliate\'s rows fall apart'
                              % (', '.join(sorted({y.short for y in o.calls})[:4]) or 'the raw text'))
    if n_keys == 0:
        rep.violation('R8g', 'anchor-lost:table-keys', detail='anchor lost: no function stores into the id -> Affiliate table')

    # ------------------------------------------------------------------ R8b
    entry = prog.fn('portfolio::bookkeeping::delta_list::txs_to_delta_list')
    if rep.anchor('per-security bookkeeping entry point txs_to_delta_list', entry):
        sig = prog.sigs('acb').get(entry.local_name)
        muts = [t for t in (sig['inputs'] if sig else []) if t.startswith('&mut')]
        if muts:
            rep.violation('R8b', 'entry-takes-mut', fn=entry.name, detail='txs_to_delta_list takes mutable state %s shared between securities' % muts)
        else:
            rep.ok('R8b', 'entry-takes-no-mut', fn=entry.name, detail='inputs: %s' % (sig['inputs'] if sig else '?'))
        for c in prog.callers.get(entry.name, []):
            fn = c.fn
            if mir.is_testsupport(fn.name):
                continue
            lp = fn.loop_of(c.bb)
            k = '%s|call-args' % fn.name
            if lp is None:
                rep.info('R8b', k, where=c.where(), fn=fn.name, detail='called outside a loop')
                continue
            nc = [x for x in fn.calls if x.short == 'next' and x.bb in lp[1] and fn.loop_of(x.bb) == lp]
            if not nc:
                continue
            elem = set()
            org_ok = True
            why = []
            for ai, a in enumerate(c.args):
                org = mir.provenance(fn, a, follow_all_call_args=True)
                # every call in the provenance must be inside the loop body, or be a keyed lookup on an outer map
                outer = [x for x in org.calls if x.bb not in lp[1]]
                bad = [x for x in outer if not (x.short in ('get', 'index', 'get_mut', 'remove', 'into_iter', 'iter', 'split_txs_by_security',
                                                            'new', 'clone', 'into_future', 'poll', 'get_context', 'new_unchecked', 'deref'))]
                if bad:
                    org_ok = False
                    why.append('arg%d derives from %s outside the loop' % (ai, bad[0].callee))
            if org_ok:
                rep.ok('R8b', k, where=c.where(), fn=fn.name, detail='arguments derive from the loop element and keyed look-ups only')
            else:
                rep.violation('R8b', k, where=c.where(), fn=fn.name, detail='; '.join(why))

    # ------------------------------------------------------------------ R8c global writers
    globals_reviewed = {
        'log::VERBOSE': 'verbosity flag set once from the command line before processing',
        'util::date::TODAYS_DATE_FOR_TEST_TL': 'test hook; R-TS checks that no product function calls its setter',
        'portfolio::model::affiliate::GLOBAL_AF_DEDUP_TABLE': 'affiliate interning table: insert-if-absent keyed by the normalised name (idempotent)',
    }
    statics = []
    for crate, m in prog.meta.items():
        for s in m.get('statics', []):
            if 'CALLSITE' in s['name'] or '__CALLSITE' in s['name'] or s['name'].endswith('::META'):
                continue
            statics.append((crate, s))
    n_glob = 0
    for crate, s in statics:
        interior = re.search(r'Mutex|RwLock|Atomic|RefCell|Cell<|LocalKey|UnsafeCell', s['ty']) or s['mut']
        name = s['name']
        if not interior:
            # immutable, or write-once (Lazy<Regex>, OnceLock<String> of clap's derive): cannot carry data between securities
            continue
        n_glob += 1
        k = 'static|%s' % name
        base = re.sub(r'::\{.*$', '', name)
        rv = [r for g, r in globals_reviewed.items() if g in name]
        if rv:
            rep.reviewed('R8c', k, fn=name, detail='global mutable state %s : %s — reviewed: %s' % (name, s['ty'][:60], rv[0]))
        elif crate != 'acb' and crate != 'acb_wasm':
            rep.ok('R8c', k, fn=name, detail='static of helper binary %s' % crate, trivial=True)
        else:
            rep.violation('R8c', k, fn=name, detail='new process-global mutable state %s : %s — could carry data from one security to another' % (name, s['ty'][:80]))
    # R-TS: no product caller of test-support setters
    for name, f in prog.fns.items():
        if mir.is_testsupport(name):
            for c in prog.callers.get(name, []):
                if not mir.is_testsupport(c.fn.name):
                    rep.violation('R-TS', '%s|calls-testsupport|%s' % (c.fn.name, short(name)), where=c.where(), fn=c.fn.name,
                                  detail='product function calls test-support item %s' % name)
    rep.extra['per_security_loops'] = ['%s @%s' % (l[0].name, l[1].where()) for l in loops]
    rep.extra['global_mutable_statics'] = n_glob


READS = {'get', 'values', 'keys', 'iter', 'len', 'is_empty', 'contains_key', 'contains', 'any', 'all', 'first', 'last', 'index',
         'get_key_value', 'values_mut', 'iter_mut', 'get_mut', 'into_iter', 'find', 'position', 'count', 'binary_search', 'max', 'min'}
MUTS = {'insert', 'push', 'extend', 'append', 'push_str', 'remove', 'clear', 'entry', 'retain', 'drain', 'truncate', 'pop',
        'push_back', 'push_front', 'extend_from_slice'}
CONTAINER = re.compile(r'std::collections::|std::vec::Vec<|std::string::String|VecDeque<')


def r8h(prog, rep, loops):
    """What a per-security loop computes for one security takes nothing from the rows of the others — not through a value derived,
    before the loop, from the whole transaction list that the per-security map was split from (the set of all affiliates of the
    portfolio, a count, a first / last date).  Inside the loop such a value may reach tracing only."""
    TXSEQ = re.compile(r'(std::vec::Vec<|\[)(portfolio::model::tx::Tx|portfolio::model::tx::CsvTx)\b')
    n = 0
    for (fn, nc, header, body, why) in loops:
        org = mir.provenance(fn, nc.args[0], follow_all_call_args=True)
        chain = set(org.locals)
        seeds = {l for l in chain if TXSEQ.search(fn.ty.get(l, '') or '') and not SECMAP.search(fn.ty.get(l, '') or '')}
        # the whole list may also be borrowed before it is moved into the split: every user variable holding it counts
        if not seeds:
            continue
        n += 1
        tainted = mir.forward_taint(fn, seeds, stop=lambda c: c.dst['l'] in chain)
        tainted -= chain
        elem = {nc.dst['l']}
        bad = None
        for c in fn.calls:
            if c.bb not in body or c is nc or is_tracing_call(c):
                continue
            hit = [a for a in c.arg_locals() if a in tainted and a not in elem]
            if hit and not (c.dst_local() is not None and __import__('props.c09', fromlist=['x']).only_feeds_tracing(fn, c.dst_local())):
                # tainted through the loop itself (the element is of course derived from the map)?  only values defined outside the body count
                outside = [l for a in hit for l in ({a} | set(mir.provenance(fn, a).locals))
                           if l in tainted and l not in elem and
                           (fn.is_param(l) or (fn.defs.get(l) and all(bb not in body for (bb, _i, _k, _n) in fn.defs.get(l, []))))]
                if outside:
                    bad = (c, outside[0])
                    break
        names = sorted({short(c.decl) for c in fn.calls if c.bb in body and c is not nc and not is_tracing_call(c) and
                        not re.match(r'(std|core|alloc)::', c.decl) and not re.match(r'<?(std|core|alloc)::', c.callee)})
        k = '%s|loop[%s]|nothing-from-the-whole-transaction-list' % (fn.name, ','.join(names[:3]))
        if bad:
            c, l = bad
            rep.violation('R8h', k, where=c.where(), fn=fn.name,
                          detail='inside the per-security loop %s() receives %s, which was computed before the loop from the transactions of all '
                                 'securities: what one security shows then depends on the rows of the others' % (short(c.callee), fn.describe_local(l)))
        else:
            rep.ok('R8h', k, where=nc.where(), fn=fn.name, detail='no value derived from the whole transaction list (other than the per-security split) is used in the loop')
    if n == 0:
        rep.violation('R8h', 'anchor-lost:split-loop', detail='anchor lost: the loop over the per-security split of the whole transaction list')


def r8d(prog, rep, loops):
    """Within a per-security loop, a variable that outlives an iteration must not both be written with data of the current security
    and be consulted in a later iteration: (a) a container filled in the loop (the result map, the list of all deltas) is only
    written there, never read, except under the current security's own key; (b) a scalar / Option variable assigned a value
    computed in the loop is not read in the loop (a flag set by one security's outcome that makes later ones skip; a status
    handed from one security to the next).  Integer accumulation and constant stores (a `first` flag) are position effects, not
    data of another security, and are allowed."""
    from props import c09
    an = c09.Analysis(prog, rep, {})
    ordn = {}
    for (fn, nc, header, body, why) in loops:
        names = sorted({short(c.decl) for c in fn.calls if c.bb in body and c is not nc and not is_tracing_call(c) and
                        not re.match(r'(std|core|alloc)::', c.decl) and not re.match(r'<?(std|core|alloc)::', c.callee)})
        label = 'loop[%s]' % ','.join(names[:3]) if names else 'loop[]'
        ordn[(fn.name, label)] = ordn.get((fn.name, label), 0) + 1
        if ordn[(fn.name, label)] > 1:
            label += '#%d' % ordn[(fn.name, label)]
        base = '%s|%s|no-state-carried-between-securities' % (fn.name, label)
        elem = an._aliases(fn, {nc.dst['l']}, within=body)
        iter_roots = an._aliases(fn, {nc.arg_local(0)}) if nc.arg_local(0) is not None else set()
        outer = [l for l in fn.ty if l != 0 and (l in fn.user or fn.is_param(l)) and l not in iter_roots and
                 (fn.is_param(l) or any(bb not in body for (bb, _, _, _) in fn.defs.get(l, [])))]
        bad = None
        n_state = 0
        for l in outer:
            ty = fn.ty.get(l, '')
            if c09.htyped(fn, l):
                continue
            al = an._aliases(fn, {l}, within=body)
            uses = [c for c in fn.calls if c.bb in body and not is_tracing_call(c) and any(a in al for a in c.arg_locals())]
            if CONTAINER.search(ty.lstrip('&mut ').lstrip('&')):
                # only containers of per-security results: a map from security to rows/deltas/results/tables/gains, or a list of
                # rows/deltas.  Maps keyed by something else (year totals, warning kinds) are cross-security aggregates by design.
                if not (SECMAP.search(ty) or re.search(r'std::vec::Vec<(portfolio::model::tx::Tx|portfolio::model::txdelta::TxDelta)\b', ty)):
                    continue
                muts = [c for c in uses if c.short in MUTS and c.arg_local(0) in al]
                if not muts:
                    continue
                n_state += 1
                for c in uses:
                    if c.dst_local() is not None and c09.only_feeds_tracing(fn, c.dst_local()):
                        continue
                    if c.short in READS and c.arg_local(0) in al and not (c.short in ('get', 'get_mut', 'contains_key', 'remove', 'entry') and
                                                                          an.key_provenance(fn, c, body, elem, nc)[0] == 'ok'):
                        bad = bad or (c.where(), '%s is filled in this loop and also read in it (%s): what an earlier security put there can '
                                      'influence a later one' % (fn.describe_local(l).split(':')[0], c.short))
                continue
            stores = [(bb, node, kind) for (bb, idx, kind, node) in fn.defs.get(l, []) if bb in body and not node['dst']['p']]
            data_stores = []
            for (bb, node, kind) in stores:
                if kind == 'stmt':
                    r = node['r']
                    if r['rv'] == 'use' and r['ops'][0]['k'] == 'const':
                        continue
                    if r['rv'] == 'agg' and not any(is_place(o) for o in r['ops']):
                        continue
                    if c09.INTTY.search(ty) and an.int_accumulate(fn, node, body)[0]:
                        continue
                    if r['rv'] == 'binop' and ty.startswith('(') and 'bool)' in ty:
                        continue
                data_stores.append((bb, node))
            if not data_stores:
                continue
            n_state += 1
            reads = [(bb, node) for (bb, idx, kind, node) in fn.uses_of(l) if bb in body and kind != 'store' and
                     not any(node is st for (_, st) in data_stores)]
            if reads:
                bb, node = reads[0]
                bad = bad or (fn.where(node), '%s is assigned a value computed from the current security and read inside the loop: '
                              'it carries one security\'s outcome into the processing of the next' % fn.describe_local(l).split(':')[0])
        # R8e: per-security data from another collection is fetched under the security's key, never by position
        for c in fn.calls:
            if c.bb not in body or c.short not in ('get', 'index', 'get_unchecked', 'nth', 'get_mut', 'index_mut') or len(c.args) < 2:
                continue
            rty = fn.ty.get(c.arg_local(0), '')
            ity = fn.ty.get(c.arg_local(1), '') if c.arg_local(1) is not None else 'usize'
            if re.search(r'(std::vec::Vec<|\[)(\()?.*(%s)' % PAYLOAD, rty) and not re.search(r'HashMap|BTreeMap', rty) and ity == 'usize':
                bad = bad or (c.where(), 'per-security data is taken from a list by position (%s on %s): the position of a security in one list need '
                              'not be its position in another (a failed security has no entry), so it can receive another security\'s figures'
                              % (c.short, rty[:70]))
        if bad:
            rep.violation('R8d', base, where=bad[0], fn=fn.name, detail=bad[1])
        else:
            rep.ok('R8d', base, where=nc.where(), fn=fn.name,
                   detail='%d variable(s) written in the loop outlive an iteration; none is consulted by a later iteration' % n_state, trivial=(n_state == 0))
