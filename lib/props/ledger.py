"""Shared structural view of `delta_for_tx` (the per-transaction ledger step): which locals carry the new cost base /
the capital gain, and which blocks belong to which action arm. Used by C03, C04 (R4d) and C15."""
import re

import mir
from mir import is_place, op_local

DELTA = 'portfolio::bookkeeping::delta_list::delta_for_tx'
PSS = 'portfolio::model::txdelta::PortfolioSecurityStatus'
TXDELTA = 'portfolio::model::txdelta::TxDelta'
ACTIONS = ('Buy', 'Sell', 'Roc', 'Sfla', 'Split')


class Ledger:
    def __init__(self, prog):
        self.prog = prog
        from props import anchors
        self.fn = anchors.ledger_step(prog) or prog.fn(DELTA)
        self.ok = False
        self.why = ''
        if self.fn is None:
            self.why = 'function delta_for_tx not found'
            return
        f = self.fn
        self.acb_locals = set()
        self.gain_locals = set()
        for b in f.blocks.values():
            for s in b['stmts']:
                r = s['r']
                if r['rv'] != 'agg':
                    continue
                if r['kind'].startswith('adt:' + PSS):
                    for name, o in zip(r.get('fields', []), r['ops']):
                        if name == 'total_acb' and is_place(o):
                            self.acb_locals |= self._user_roots(o) or self._field_root(o)
                if r['kind'].startswith('adt:' + TXDELTA):
                    for name, o in zip(r.get('fields', []), r['ops']):
                        if name == 'capital_gain' and is_place(o):
                            self.gain_locals |= self._user_roots(o) or self._field_root(o)
        if not self.acb_locals or not self.gain_locals:
            self.why = 'could not identify the locals feeding PortfolioSecurityStatus.total_acb / TxDelta.capital_gain'
            return
        # arm regions: blocks dominated by the first block that projects the action enum to a variant
        self.arm_entry = {}
        for i in sorted(f.blocks):
            b = f.blocks[i]
            for s in b['stmts']:
                for pl in f.stmt_sources(s):
                    dcs = [e['dc'] for e in pl['p'] if isinstance(e, dict) and 'dc' in e]
                    fs = [fl for (of, fl) in mir.place_fields(pl)]
                    if 'action_specifics' in fs or 'TxActionSpecifics' in f.ty.get(pl['l'], ''):
                        for d in dcs:
                            if d in ACTIONS and d not in self.arm_entry:
                                self.arm_entry[d] = i
        missing = [a for a in ACTIONS if a not in self.arm_entry]
        if missing:
            self.why = 'no match arm found for action(s) %s' % missing
            return
        self.region = {a: {b for b in f.blocks if f.dominates(e, b)} for a, e in self.arm_entry.items()}
        self.ok = True

    def _user_roots(self, o):
        """the user variable an operand is a plain copy of"""
        f = self.fn
        cur = op_local(o)
        seen = set()
        while cur is not None and cur not in seen:
            seen.add(cur)
            if cur in f.user:
                return {cur}
            d = f.single_def(cur)
            if d is None or d[2] != 'stmt' or d[3]['r']['rv'] != 'use' or not is_place(d[3]['r']['ops'][0]) or d[3]['r']['ops'][0]['pl']['p']:
                return set()
            cur = d[3]['r']['ops'][0]['pl']['l']
        return set()

    def _field_root(self, o):
        """the working values kept as fields of a private struct of the module (`step.acb_total`): the token ('field', struct, name)"""
        f = self.fn
        cur = o
        for _ in range(8):
            if not is_place(cur):
                return set()
            fs = [(of, fl) for (of, fl) in mir.place_fields(cur['pl']) if of and not of.startswith('std::') and of not in (PSS, TXDELTA)]
            if fs:
                of, fl = fs[-1]
                if of.startswith('portfolio::bookkeeping::'):
                    return {('field', of, fl)}
                return set()
            d = f.single_def(cur['pl']['l'])
            if d is None or d[2] != 'stmt' or d[3]['r']['rv'] != 'use':
                return set()
            cur = d[3]['r']['ops'][0]
        return set()

    def is_copy_of_previous_acb(self, node, kind):
        """`new_acb = pre_status.total_acb` — restating the previous cost base is not a change"""
        if kind != 'stmt' or node['r']['rv'] != 'use' or not is_place(node['r']['ops'][0]):
            return False
        org = mir.provenance(self.fn, node['r']['ops'][0], pass_through={'deref', 'clone', 'borrow', 'as_ref'})
        arith = org.binops or [c for c in org.calls if c.short not in ('deref', 'clone', 'borrow', 'as_ref') and
                               re.search(r'std::ops::|::max$|::min$|try_from$', c.decl)]
        return any(fl == 'total_acb' for of, fl in org.fields) and not arith and not org.aggs

    def assignments(self, locals_, region=None):
        """[(bb, node, kind)] of definitions of the given locals (statements and call destinations)"""
        out = []
        f = self.fn
        for l in locals_:
            if isinstance(l, tuple):
                # stores into the field, through whatever pointer (`(*self).acb_total = ..` in a spliced method)
                for bb, b in f.blocks.items():
                    if region is not None and bb not in region:
                        continue
                    for st in b['stmts']:
                        if mir.place_fields(st['dst'])[-1:] == [(l[1], l[2])]:
                            out.append((bb, st, 'stmt'))
                    t = b['term']
                    if t and t['t'] == 'call' and t.get('dst') and mir.place_fields(t['dst'])[-1:] == [(l[1], l[2])]:
                        out.append((bb, t, 'call'))
                continue
            for (bb, idx, kind, node) in f.defs.get(l, []):
                if region is not None and bb not in region:
                    continue
                out.append((bb, node, kind))
        return out
