"""C18 — Questrade conversion: the structural clause "the output depends only on the cell found under each
named header".  DESIGN.md 5.C18 (R18a index stability, R18b/c by-name access)."""
import re

import mir
from mir import short, is_place, op_local

LEVEL = 'other'
EXPLANATION = ('Decides only the necessary structural clause of C18 "the output depends only on the cell found under each named header": '
               '(R18a) every header-name -> column-index map is built from positions in the unfiltered header row (no length-changing '
               'adaptor between the row and enumerate); (R18b) the Questrade converter reads cells only through SheetReader::get* (by '
               'name), never by position; (R18c) inside SheetReader a row is only indexed with an index looked up in that map. '
               'Not decided: one row per activity, sign handling, USD cash conservation, acceptance by acb.')
TRUSTED_BASE = ['rustc nightly MIR construction and trait resolution', 'std iterator adaptor model (which adaptors change length)']
ASSUMPTIONS = ['office::Rows yields the cells of a row in column order']

LENCHG = {'filter', 'filter_map', 'skip', 'skip_while', 'take_while', 'step_by', 'flat_map', 'flatten', 'dedup', 'dedup_by',
          'dedup_by_key', 'retain', 'map_while', 'chunks', 'windows', 'take', 'chain', 'rev', 'sorted', 'sort', 'sort_by',
          'sort_by_key', 'sort_unstable', 'unique', 'drain', 'remove', 'swap_remove', 'insert', 'split_off', 'truncate', 'pop'}
ITER_PASS = {'map', 'cloned', 'copied', 'collect', 'into_iter', 'iter', 'iter_mut', 'peekable', 'by_ref', 'inspect', 'from_iter',
             'clone', 'deref', 'deref_mut', 'as_slice', 'to_vec', 'into_boxed_slice', 'enumerate', 'unwrap', 'expect', 'branch',
             'next', 'as_ref', 'records', 'headers', 'byte_records', 'into_records', 'zip', 'trim', 'to_lowercase', 'to_string'} | LENCHG
NAME_INDEX_MAP = re.compile(r'std::collections::(HashMap|BTreeMap)<((std::string::String|&(\'\w+ )?str), usize|usize, (std::string::String|&(\'\w+ )?str))')


def index_stability(prog, rep, rule, only_prefix=None, skip_prefix=None, also_types=None):
    """R18a / R7d: in every function that builds a name -> usize map, no enumerate() is applied to a sequence that went
    through a length-changing step. Returns the number of enumerate sites examined."""
    n = 0
    cands = []
    for fn in prog.product_fns():
        owner = prog.owner_of(fn)
        if only_prefix and not owner.name.startswith(only_prefix):
            continue
        if skip_prefix and owner.name.startswith(skip_prefix):
            continue
        grp_has_map = any(NAME_INDEX_MAP.search(t) for t in owner.ty.values()) or any(NAME_INDEX_MAP.search(t) for t in fn.ty.values())
        if not grp_has_map and also_types is not None:
            grp_has_map = any(also_types.search(t) for t in owner.ty.values()) or any(also_types.search(t) for t in fn.ty.values())
        if not grp_has_map:
            continue
        for c in fn.calls:
            if c.decl.endswith('Iterator::enumerate') or c.short == 'enumerate':
                cands.append((fn, c))
    ordn = {}
    for fn, c in cands:
        n += 1
        ordn[fn.name] = ordn.get(fn.name, 0) + 1
        k = '%s|enumerate#%d' % (fn.name, ordn[fn.name])
        org = mir.provenance(fn, c.args[0], pass_through=ITER_PASS)
        changers = [x for x in org.calls if x.short in LENCHG and x.bb != c.bb and
                    (x.decl.startswith('std::iter::') or 'slice' in x.decl or 'vec::Vec' in x.decl or 'itertools' in x.decl.lower())]
        if changers:
            x = changers[0]
            rep.violation(rule, k, where=c.where(), fn=fn.name,
                          detail='enumerate() is applied after the length/order-changing step %s (%s): the index is no longer the '
                                 'cell\'s column, so a blank or skipped header cell shifts every later column' % (x.short, x.where()))
        else:
            rep.ok(rule, k, where=c.where(), fn=fn.name,
                   detail='enumerate() over the unfiltered row (chain: %s)' % ' <- '.join(sorted({x.short for x in org.calls}))[:160])
    return n


def run(prog, rep, tier='quick', config='default'):
    if config == 'wasm':
        rep.ok('R18', 'not-in-this-config', detail='the spreadsheet reader is not part of the wasm feature set', trivial=True)
        return
    excel = [f for f in prog.product_fns() if f.name.startswith('peripheral::excel::')]
    qt = [f for f in prog.product_fns() if f.name.startswith('peripheral::broker::questrade::')]
    rep.anchor('module peripheral::excel', excel)
    rep.anchor('module peripheral::broker::questrade', qt)
    if not excel or not qt:
        return
    n = index_stability(prog, rep, 'R18a', skip_prefix='portfolio::io::tx_csv::')
    hdr = [f for f in excel if any(NAME_INDEX_MAP.search(t) for t in f.ty.values()) and
           any(c.short == 'enumerate' for c in f.calls + [c for g in prog.closures_of(f) for c in g.calls])]
    rep.anchor('a function in peripheral::excel that builds the header-name -> index map with enumerate()', hdr)

    # R18b: the converter never reads a cell by position
    getters = 0
    for f in qt:
        for c in f.calls:
            if re.search(r'peripheral::excel::SheetReader::<\'a>::get|peripheral::excel::SheetReader::get|SheetReader.*::get', c.callee):
                getters += 1
            a0 = c.arg_local(0)
            if a0 is not None and 'office::DataType' in f.ty.get(a0, '') and re.search(r'\[office::DataType\]|Vec<office::DataType>', f.ty.get(a0, '')):
                if c.short in ('index', 'get', 'get_unchecked', 'first', 'last', 'nth', 'iter', 'into_iter', 'get_mut', 'split_at', 'split_first'):
                    rep.violation('R18b', '%s|positional-%s' % (f.name, c.short), where=c.where(), fn=f.name,
                                  detail='the converter reads a row cell by position (%s) instead of by header name' % c.callee)
        for b in f.blocks.values():
            for s in b['stmts']:
                for pl in f.stmt_sources(s):
                    if any(isinstance(e, dict) and ('idx' in e or 'cidx' in e) for e in pl['p']) and \
                            ('office::DataType' in f.ty.get(pl['l'], '') or 'office::DataType' in pl.get('t', '')):
                        rep.violation('R18b', '%s|positional-index' % f.name, where=f.where(s), fn=f.name,
                                      detail='the converter indexes a row by position')
    # ... nor through the sheet range itself (`sheet.get_value(row, 0)`, `sheet[(r, c)]`): a position is not a header name
    for f in qt + [g for f0 in qt for g in prog.closures_of(f0)]:
        for c in f.calls:
            if re.search(r'^office::Range::(get_value|get_formula|get)$|^<office::Range as std::ops::Index', c.callee):
                rep.violation('R18b', '%s|positional-%s' % (f.name.split('::{')[0], c.short), where=c.where(), fn=f.name,
                              detail='the converter reads a cell of the sheet by (row, column) position (%s) instead of by header name: what it '
                                     'finds depends on the column order of the export' % c.callee)
    # R18h: every row of the sheet is offered to the converter: the loops over Range::rows() run over all of them (the header row may be
    # skipped / taken off first); no take / take_while / filter / step_by / rev on the row iterator
    ROW_DROPS = {'take', 'take_while', 'skip_while', 'filter', 'filter_map', 'step_by', 'rev', 'map_while', 'nth', 'last', 'chain', 'zip'}
    n_rowloops = 0
    for f in qt + [g for f0 in qt for g in prog.closures_of(f0)]:
        for (nc, header, body) in f.iterator_loops():
            src = mir.provenance(f, nc.args[0], pass_through=ITER_PASS | {'skip', 'by_ref', 'peekable'})
            if not any(re.search(r'^office::Range::rows$', x.callee) for x in src.calls):
                continue
            n_rowloops += 1
            k = '%s|every-sheet-row-is-visited#%d' % (f.name.split('::{')[0], n_rowloops)
            bad = [x for x in src.calls if x.short in ROW_DROPS and x.decl.startswith('std::iter::')]
            skips = [x for x in src.calls if x.short == 'skip' and x.decl.startswith('std::iter::')]
            bad += [x for x in skips if not (len(x.args) > 1 and x.args[1].get('k') == 'const' and str(x.args[1].get('v', '')).startswith('1_'))]
            if bad:
                rep.violation('R18h', k, where=bad[0].where(), fn=f.name,
                              detail='the rows of the sheet pass through %s() before they are converted: rows it leaves out are silently missing '
                                     'from the output' % bad[0].short)
            else:
                rep.ok('R18h', k, where=nc.where(), fn=f.name, detail='the loop runs over Range::rows() unfiltered (at most the header row is skipped)')
    if n_rowloops == 0:
        rep.violation('R18h', 'anchor-lost:row-loop', detail='anchor lost: the loop over the rows of the sheet in the Questrade converter')
    if getters >= 5:
        rep.ok('R18b', 'cells-read-by-name', fn='peripheral::broker::questrade', detail='%d SheetReader::get* call sites, no positional cell access' % getters)
    else:
        rep.violation('R18b', 'cells-read-by-name', fn='peripheral::broker::questrade',
                      detail='anchor lost: expected the converter to read cells through SheetReader::get* (found %d call sites)' % getters)

    # R18c: inside the reader a row is indexed only with an index that came out of the name map
    n_idx = 0
    for f in excel:
        for c in f.calls:
            a0 = c.arg_local(0)
            if a0 is None or 'office::DataType' not in f.ty.get(a0, ''):
                continue
            if c.short in ('get', 'index', 'get_unchecked') and len(c.args) > 1 and re.search(r'slice|Index', c.decl):
                n_idx += 1
                org = mir.provenance(f, c.args[1])
                from_map = any(x.short in ('get', 'index') and NAME_INDEX_MAP.search(f.ty.get(x.arg_local(0), '') or '') for x in org.calls)
                k = '%s|row-index' % f.name
                if from_map and not org.binops:
                    rep.ok('R18c', k, where=c.where(), fn=f.name, detail='row indexed with the value stored in the header map, unmodified')
                else:
                    rep.violation('R18c', k, where=c.where(), fn=f.name,
                                  detail='a row is indexed with a value that does not come (unmodified) from the header-name map')
    if n_idx == 0:
        rep.violation('R18c', 'anchor-lost:row-index-site', detail='anchor lost: no slice access on a row of cells found in peripheral::excel')
    # R18d: every trade row in a foreign currency gets its implicit FX leg
    fxt_sites = [c for f in qt + [g for f in qt for g in prog.closures_of(f)] for c in f.calls if c.short == 'add_implicit_fxt']
    seen = set()
    fxt_sites = [c for c in fxt_sites if not ((c.fn.name, c.bb) in seen or seen.add((c.fn.name, c.bb)))]
    if not fxt_sites:
        rep.violation('R18d', 'anchor-lost:implicit-fxt-call', detail='anchor lost: the converter no longer calls FxTracker::add_implicit_fxt')
    for n_s, c in enumerate(fxt_sites, 1):
        f = c.fn
        pushes = [x for x in f.calls if x.short == 'push' and 'broker_tx::BrokerTx' in f.ty.get(x.arg_local(0), '') and f.dominates(x.bb, c.bb)]
        k = '%s|foreign-trade-always-gets-its-fx-leg#%d' % (f.name.split('::{')[0], n_s)
        if not pushes:
            # the other order: the FX leg is added first, then the row is recorded. Every path to the push must have passed the
            # add_implicit_fxt call or the "currency is CAD" edge.
            later = [x for x in f.calls if x.short == 'push' and 'broker_tx::BrokerTx' in f.ty.get(x.arg_local(0), '') and f.reaches(c.bb, x.bb)]
            cad_edges = set()
            for i in f.blocks:
                e = f.bool_switch_edges(i)
                if e is None:
                    continue
                d = mir.provenance(f, f.blocks[i]['term']['discr'], pass_through={'deref', 'borrow', 'as_ref', 'clone'})
                if d.calls and all(x.short in ('is_default', 'deref', 'borrow', 'as_ref', 'clone') for x in d.calls) and \
                        any(x.short == 'is_default' and 'Currency' in f.ty.get(x.arg_local(0), '') for x in d.calls):
                    flipped = any(op == 'Not' for op, _ in d.unops)
                    cad_edges.add((i, e[1] if flipped else e[0]))
            if later:
                reach = f.reachable_avoiding_edges(0, cad_edges | {(p_, c.bb) for p_ in f.pred[c.bb]})
                if all(x.bb not in reach for x in later):
                    rep.ok('R18d', k, where=c.where(), fn=f.name,
                           detail='the row is recorded only after add_implicit_fxt or on the "currency is CAD" edge (FX leg first, then the row)')
                else:
                    rep.violation('R18d', k, where=later[0].where(), fn=f.name,
                                  detail='a trade row can be recorded on a path that neither adds its implicit FX leg nor tests that its currency is CAD')
                continue
            rep.violation('R18d', k, where=c.where(), fn=f.name, detail='anchor lost: the trade row is not recorded before its FX leg is added')
            continue
        base = {(sbb, tuple(vals or ()), tuple(neg or ())) for (sbb, d, vals, neg) in f.conditions_at(pushes[-1].bb)}
        extra = []
        for (sbb, discr, vals, neg) in f.conditions_at(c.bb):
            if (sbb, tuple(vals or ()), tuple(neg or ())) in base:
                continue
            d = mir.provenance(f, discr, pass_through={'deref', 'borrow', 'as_ref', 'clone'})
            only_currency = d.calls and all(x.short in ('is_default', 'deref', 'borrow', 'as_ref', 'clone', 'eq', 'ne') and
                                            ('Currency' in f.ty.get(x.arg_local(0), '') or x.short in ('deref', 'borrow', 'as_ref', 'clone'))
                                            for x in d.calls)
            if not only_currency:
                extra.append((sbb, d))
        if extra:
            sbb, d = extra[0]
            rep.violation('R18d', k, where=f.where(f.blocks[sbb]['term']), fn=f.name,
                          detail='after a trade row is recorded, its implicit FX leg is added only under a further condition that is not about the '
                                 'row\'s currency: a foreign-currency row that moves cash can be left without its FX counter-row, and the currency '
                                 'total no longer equals the net cash flow')
        else:
            rep.ok('R18d', k, where=c.where(), fn=f.name,
                   detail='between recording the trade row and add_implicit_fxt only the "currency is not CAD" test decides')

    # R18f: cash amounts keep their sign on the way into the FX tracker (a negative dividend is a reversal, not income)
    n_amt = 0
    for f in qt + [g for f0 in qt for g in prog.closures_of(f0)]:
        sites = []
        for c in f.calls:
            if c.short == 'fx_tx' and 'FxTracker' in c.callee and len(c.args) >= 4:
                sites.append((c.where(), c.args[3], 'the amount handed to FxTracker::fx_tx'))
        for b in f.blocks.values():
            for st in b['stmts']:
                r = st['r']
                if r['rv'] == 'agg' and 'amount' in r.get('fields', []) and 'FxtRow' in r['kind']:
                    sites.append((f.where(st), r['ops'][r['fields'].index('amount')], 'FxtRow.amount'))
        for (where, o, what) in sites:
            if not is_place(o):
                continue
            n_amt += 1
            po = mir.provenance(f, o, follow_all_call_args=True)
            bad = [x for x in po.calls if x.short in ('abs', 'neg', 'max', 'min', 'clamp', 'signum', 'checked_abs') and 'Decimal' in x.callee]
            k = '%s|cash-amount-keeps-its-sign#%d' % (f.name.split('::{')[0], n_amt)
            if bad:
                rep.violation('R18f', k, where=bad[0].where(), fn=f.name,
                              detail='%s passes through Decimal::%s: a negative amount (a dividend reversal, a withdrawal) is booked as a positive one and the '
                                     'currency total no longer equals the net cash flow' % (what, bad[0].short))
            else:
                rep.ok('R18f', k, where=where, fn=f.name, detail='%s is the cell value, sign included' % what)
    if n_amt < 2:
        rep.violation('R18f', 'anchor-lost:cash-amount-sites', detail='anchor lost: only %d cash amounts handed to the FX tracker found' % n_amt)

    # R18g: the --account pattern is matched against the account's type and number (the documented account string), nothing more
    ACC = 'peripheral::broker::broker_tx::Account'
    conv = [f for f in prog.product_fns() if f.name.startswith('peripheral::tx_export_convert_impl::')]
    matches = [(f, c) for f in conv for c in f.calls if c.short == 'is_match' and 'regex' in c.callee and len(c.args) > 1]
    n_acc = 0
    for (f, c) in matches:
        o = mir.provenance(f, c.args[1], follow_all_call_args=True)
        if not any(re.search(r'^&*' + re.escape(ACC) + r'$', f.ty.get(l, '')) for l in o.locals) and not any(fl == 'account' for (_, fl) in o.fields):
            continue
        n_acc += 1
        text_fns = []
        for x in o.calls:
            g = prog.resolve(x.callee, f.crate)
            if g is not None:
                text_fns.append(g)
            elif x.short == 'to_string' and x.arg_local(0) is not None and ACC in f.ty.get(x.arg_local(0), ''):
                text_fns += [h for h in prog.product_fns() if h.name.startswith('<' + ACC + ' as std::fmt::Display>')]
        read = set()
        for g in text_fns:
            for h in [g] + list(prog.callees_closure([g]).values()):
                for b in h.blocks.values():
                    for st in b['stmts']:
                        for pl in h.stmt_sources(st):
                            read |= {fl for (of, fl) in mir.place_fields(pl) if of == ACC}
                    t = b['term']
                    if t and t['t'] == 'call':
                        for a in t['args']:
                            if is_place(a):
                                read |= {fl for (of, fl) in mir.place_fields(a['pl']) if of == ACC}
        k = '%s|account-pattern-matches-type-and-number' % f.name.split('::{')[0]
        if 'account_num' in read and 'broker_name' not in read:
            rep.ok('R18g', k, where=c.where(), fn=f.name, detail='the matched text is built from Account.%s' % ', Account.'.join(sorted(read)))
        else:
            rep.violation('R18g', k, where=c.where(), fn=f.name,
                          detail='the text the --account pattern is matched against is built from Account.{%s}: a pattern anchored on the documented '
                                 'account string ("<type> <number>") no longer selects the account' % ', '.join(sorted(read)))
    if n_acc == 0:
        rep.violation('R18g', 'anchor-lost:account-filter', detail='anchor lost: no regex match on an account text in the converter')

    # R18e: numeric cells are converted with the shortest-representation conversion
    retain = [c for f in prog.product_fns() for c in f.calls if re.search(r'Decimal::from_f(64|32)_retain$', c.callee)]
    if retain:
        c = retain[0]
        rep.violation('R18e', '%s|no-binary-float-expansion' % c.fn.name, where=c.where(), fn=c.fn.name,
                      detail='%s keeps the full binary expansion of a float (10.1 becomes 10.0999999999999996447...): quantities, prices and '
                             'amounts read from numeric cells would no longer be the numbers in the sheet' % short(c.callee))
    else:
        n_conv = len([c for f in excel for c in f.calls if re.search(r'Decimal::from_f(64|32)$|FromPrimitive::from_f(64|32)$|from_str', c.callee + ' ' + c.decl)])
        if n_conv:
            rep.ok('R18e', 'no-binary-float-expansion', fn='peripheral::excel',
                   detail='no from_f64_retain / from_f32_retain anywhere; %d float / text conversions in the sheet reader' % n_conv)
        else:
            rep.violation('R18e', 'anchor-lost:cell-conversions', detail='anchor lost: no float or text to Decimal conversion found in peripheral::excel')

    rep.extra['enumerate_sites_examined'] = n
    rep.extra['by_name_getter_sites'] = getters


def fixture():
    import facts
    import check
    prog = mir.Program(facts.ensure_fixture())
    rep = check.Report('C18')
    index_stability(prog, rep, 'R18a')
    bad = sorted({o.fn for o in rep.obs if o.status == check.VIOLATION})
    good = sorted({o.fn for o in rep.obs if o.status == check.OK})
    want = ['@verif_fixture_pos::bad_header_map_filtered']
    return {'ok': bad == want and '@verif_fixture_pos::ok_header_map' in good, 'reported': bad, 'expected': want, 'discharged': good}
