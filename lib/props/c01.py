"""C01 — cost-base ledger follows the average-cost rules: the structural skeleton of `delta_for_tx`.

Not the arithmetic (a relation between run-time decimals), but what each action arm is *allowed to depend on and to
change* — facts that survive algebraic rewrites and whose breach makes the ledger wrong for some input:
  R1a  which results an arm assigns (cost base / gain / share balance);
  R1b  field-dependency signature of each assigned value (required and forbidden inputs);
  R1c  polarity of the operation that combines the old cost base (Buy/SfLA add, RoC subtracts);
  R1d  each amount is multiplied by its own exchange rate (commission x commission rate, price x transaction rate)."""
import re

import mir
from mir import short, is_place, op_local
from props import ledger

LEVEL = 'other'
EXPLANATION = ('Decides only the structural skeleton of the ledger step (delta_for_tx), each item a necessary condition of C01: which action '
               'arm may assign the cost base, the capital gain and the share balance; on which inputs each assigned value depends (e.g. a '
               'purchase\'s cost base depends on shares, price, transaction rate, commission, commission rate and the old cost base; a sale\'s '
               'cost base does NOT depend on the commission or the price; only a sale realises a gain); the polarity of the operation that '
               'combines the old cost base (add for Buy/SfLA, subtract for RoC); and that commission is multiplied by the commission rate, the '
               'price by the transaction rate. Not decided: the arithmetic itself, rounding noise, the per-affiliate status bookkeeping.')
TRUSTED_BASE = ['rustc nightly MIR construction and trait resolution', 'flow-insensitive def-use inside one arm region over-approximates the real dependencies']
ASSUMPTIONS = ['dependencies are computed per action arm with definitions located in other arms ignored']

TXM = 'portfolio::model::tx::'
PSS = ledger.PSS

# per arm: required field dependencies of the new cost base (adt suffix, field) and required calls
ACB_REQ = {
    'Buy': {'fields': {('BuyTxSpecifics', 'shares'), ('BuyTxSpecifics', 'amount_per_share'), ('BuyTxSpecifics', 'tx_currency_and_rate'),
                       ('BuyTxSpecifics', 'commission'), ('PortfolioSecurityStatus', 'total_acb')},
            'calls': {'commission_currency_and_rate'}},
    'Sell': {'fields': {('SellTxSpecifics', 'shares'), ('PortfolioSecurityStatus', 'share_balance')}, 'calls': {'per_share_acb'}},
    'Roc': {'fields': {('RocTxSpecifics', 'amount_per_held_share'), ('RocTxSpecifics', 'tx_currency_and_rate'),
                       ('PortfolioSecurityStatus', 'share_balance'), ('PortfolioSecurityStatus', 'total_acb')}, 'calls': set()},
    'Sfla': {'fields': {('PortfolioSecurityStatus', 'total_acb')}, 'calls': {'total_amount'}},
}
ACB_FORBID = {
    'Sell': {('SellTxSpecifics', 'commission'), ('SellTxSpecifics', 'amount_per_share'), ('SellTxSpecifics', 'tx_currency_and_rate'),
             ('SellTxSpecifics', 'separate_commission_currency')},
}
GAIN_REQ = {'fields': {('SellTxSpecifics', 'shares'), ('SellTxSpecifics', 'amount_per_share'), ('SellTxSpecifics', 'tx_currency_and_rate'),
                       ('SellTxSpecifics', 'commission')}, 'calls': {'commission_currency_and_rate', 'per_share_acb'}}
POLARITY = {'Buy': 'Add', 'Sfla': 'Add', 'Roc': 'Sub'}


def deps(L, operand, arm):
    f = L.fn
    skip = set()
    for a, r in L.region.items():
        if a != arm:
            skip |= r
    org = mir.provenance(f, operand, follow_all_call_args=True, skip_blocks=skip)
    fields = {(of.rsplit('::', 1)[-1], fl) for (of, fl) in org.fields}
    calls = {c.short for c in org.calls}
    return org, fields, calls


def run(prog, rep, tier='quick', config='default'):
    L = ledger.Ledger(prog)
    if not rep.anchor('delta_for_tx with its five action arms and the cost-base / gain locals', L.ok and L.fn):
        rep.notes.append(L.why)
        return
    f = L.fn
    # ------------------------------------------------------------------ R1a: who assigns what
    acb_arms = {}
    for (bb, node, kind) in L.assignments(L.acb_locals):
        arms = [a for a, r in L.region.items() if bb in r]
        if arms and L.is_copy_of_previous_acb(node, kind):
            continue
        for a in arms:
            acb_arms.setdefault(a, []).append((bb, node, kind))
        if not arms and not L.is_copy_of_previous_acb(node, kind) and \
                not (kind == 'stmt' and node['r']['rv'] == 'use' and any(fl == 'total_acb' for of, fl in mir.place_fields(node['r']['ops'][0]['pl']))
                     if kind == 'stmt' and is_place(node['r']['ops'][0]) else False):
            rep.violation('R1a', 'acb-assigned-outside-arms', where=f.where(node), fn=f.name,
                          detail='the new cost base is assigned outside the five action arms by something other than "start from the previous cost base"')
    gain_arms = {}
    for (bb, node, kind) in L.assignments(L.gain_locals):
        for a in [a for a, r in L.region.items() if bb in r]:
            gain_arms.setdefault(a, []).append((bb, node, kind))
    want_acb = {'Buy', 'Sell', 'Roc', 'Sfla'}
    if set(acb_arms) == want_acb:
        rep.ok('R1a', 'cost-base-changed-by-buy-sell-roc-sfla-only', fn=f.name, detail='the cost base is assigned in the Buy, Sell, RoC and SfLA arms and not in the Split arm')
    else:
        rep.violation('R1a', 'cost-base-changed-by-buy-sell-roc-sfla-only', fn=f.name, where='%s:%d' % (f.file, f.line),
                      detail='the cost base is assigned in arms %s (expected Buy, Sell, RoC, SfLA): %s' % (
                          sorted(acb_arms), 'a split must not change the total cost' if 'Split' in acb_arms else 'an action no longer updates the cost base'))
    if set(gain_arms) == {'Sell'}:
        rep.ok('R1a', 'only-a-sale-realises-a-gain', fn=f.name, detail='the capital gain is assigned in the Sell arm only')
    else:
        rep.violation('R1a', 'only-a-sale-realises-a-gain', fn=f.name, where='%s:%d' % (f.file, f.line),
                      detail='a capital gain is assigned in arms %s (only a sale realises a gain)' % sorted(gain_arms))

    # ------------------------------------------------------------------ R1b: dependency signatures
    for arm, req in ACB_REQ.items():
        for (bb, node, kind) in acb_arms.get(arm, [])[:1]:
            operand = node['r']['ops'][0] if kind == 'stmt' else None
            if operand is None:
                continue
            org, fields, calls = deps(L, operand, arm)
            miss_f = sorted(x for x in req['fields'] if x not in fields)
            miss_c = sorted(x for x in req['calls'] if x not in calls)
            k = 'cost-base-inputs|%s' % arm
            if miss_f or miss_c:
                rep.violation('R1b', k, where=f.where(node), fn=f.name,
                              detail='the %s arm computes the new cost base without %s: the result is wrong whenever that input matters' % (
                                  arm, ', '.join(['%s.%s' % x for x in miss_f] + ['%s()' % c for c in miss_c])))
            else:
                rep.ok('R1b', k, where=f.where(node), fn=f.name, detail='depends on %s' % ', '.join(sorted('%s.%s' % x for x in req['fields']) + sorted(req['calls'])))
            bad = sorted(x for x in ACB_FORBID.get(arm, set()) if x in fields)
            if arm in ACB_FORBID:
                k2 = 'cost-base-excluded-inputs|%s' % arm
                if bad:
                    rep.violation('R1b', k2, where=f.where(node), fn=f.name,
                                  detail='the %s arm lets %s influence the remaining cost base (a sale removes cost in proportion to the shares sold only)' % (
                                      arm, ', '.join('%s.%s' % x for x in bad)))
                else:
                    rep.ok('R1b', k2, where=f.where(node), fn=f.name, detail='price, rate and commission of the sale do not reach the remaining cost base')
    for (bb, node, kind) in gain_arms.get('Sell', []):
        if kind != 'stmt':
            continue
        org, fields, calls = deps(L, node['r']['ops'][0], 'Sell')
        miss = sorted(x for x in GAIN_REQ['fields'] if x not in fields) + sorted(c for c in GAIN_REQ['calls'] if c not in calls)
        # the later assignment (loss minus superficial loss) depends on the first through cap_loss; accept if complete
        k = 'gain-inputs|Sell#%d' % (gain_arms['Sell'].index((bb, node, kind)) + 1)
        if miss:
            rep.violation('R1b', k, where=f.where(node), fn=f.name,
                          detail='the realised gain is computed without %s' % ', '.join('%s.%s' % x if isinstance(x, tuple) else '%s()' % x for x in miss))
        else:
            rep.ok('R1b', k, where=f.where(node), fn=f.name, detail='depends on shares, price, transaction rate, commission, commission rate and the per-share cost base')

    # ------------------------------------------------------------------ R1c: polarity
    for arm, want in POLARITY.items():
        for (bb, node, kind) in acb_arms.get(arm, [])[:1]:
            if kind != 'stmt':
                continue
            org, fields, calls = deps(L, node['r']['ops'][0], arm)
            ops = set()
            for c in org.calls:
                m = re.search(r'std::ops::(Add|Sub)::(add|sub)$', c.decl)
                if not m or c.bb not in L.region[arm]:
                    continue
                for a in c.args:
                    o2 = mir.provenance(f, a, pass_through={'deref', 'clone', 'into', 'borrow', 'branch', 'from_output', 'unwrap', 'expect', 'ok_or', 'ok_or_else', 'map_err'})
                    if any(fl == 'total_acb' for of, fl in o2.fields) and not [x for x in o2.calls if re.search(r'std::ops::(Add|Sub|Mul|Div|Neg)::', x.decl)]:
                        ops.add(m.group(1))
            for (op, st) in org.binops:
                pass
            k = 'old-cost-base-combined-by|%s' % arm
            if ops == {want}:
                rep.ok('R1c', k, where=f.where(node), fn=f.name, detail='old cost base %s amount' % ('+' if want == 'Add' else '-'))
            else:
                rep.violation('R1c', k, where=f.where(node), fn=f.name,
                              detail='in the %s arm the old cost base is combined by %s (must be %s): %s' % (
                                  arm, sorted(ops) or 'no add/sub', want,
                                  'a return of capital subtracts from the cost base' if arm == 'Roc' else 'the amount adds to the cost base'))

    # ------------------------------------------------------------------ R1f: no clamping on the way to a cost base or a gain
    CLAMP = re.compile(r'::(unwrap_or|unwrap_or_else|unwrap_or_default|max|min|abs|clamp|saturating_sub|saturating_add|saturating_mul)$')
    for what, table in (('cost base', acb_arms), ('capital gain', gain_arms)):
        for arm, items in sorted(table.items()):
            for (bb, node, kind) in items:
                if kind != 'stmt' or not node['r'].get('ops'):
                    continue
                skip = set().union(*[r for a2, r in L.region.items() if a2 != arm])
                org = mir.provenance(f, node['r']['ops'][0], follow_all_call_args=True, skip_blocks=skip)
                cl = [c for c in org.calls if c.bb in L.region[arm] and CLAMP.search(c.callee)]
                k = 'no-clamping|%s|%s' % (what.replace(' ', '-'), arm)
                if cl:
                    rep.violation('R1f', k, where=cl[0].where(), fn=f.name,
                                  detail='the %s of a %s passes through %s: a clamped / saturated intermediate differs from the exact average-cost result '
                                         '(e.g. net proceeds below zero)' % (what, arm, short(cl[0].callee)))
                else:
                    rep.ok('R1f', k, where=f.where(node), fn=f.name, detail='pure arithmetic (no unwrap_or / max / min / abs / clamp / saturating op)', trivial=True)

    # ------------------------------------------------------------------ R1e: a named currency is never dropped
    n_e = 0
    for g in prog.product_fns():
        if not g.name.startswith('portfolio::model::tx::') or g.kind not in ('Fn', 'AssocFn'):
            continue
        if not re.search(r'Result<std::option::Option<portfolio::model::currency::CurrencyAndExchangeRate>', g.ty.get(0, '')):
            continue
        cur_params = [p for p in range(1, g.argc + 1) if re.search(r'^&?std::option::Option<&?portfolio::model::currency::Currency>$', g.ty.get(p, ''))]
        if not cur_params:
            continue
        for i, b in g.blocks.items():
            for s in b['stmts']:
                if not (s['dst']['l'] == 0 and s['r']['rv'] == 'agg' and s['r']['kind'].endswith('Result::Ok')):
                    continue
                o = mir.provenance(g, s['r']['ops'][0], pass_through=set())
                if not any(a.endswith('Option::None') for a in o.aggs) or any(a.endswith('Option::Some') for a in o.aggs):
                    continue
                n_e += 1
                guarded = False
                for (sbb, discr, vals, neg) in g.conditions_at(i):
                    d = mir.provenance(g, discr, follow_all_call_args=True)
                    tr = (vals != [0]) if vals is not None else (0 in (neg or []))
                    if any(c.callee.endswith('Option::<T>::is_none') and (mir.provenance(g, c.args[0]).params & set(cur_params)) for c in d.calls) and tr:
                        guarded = True
                    fl = (vals == [0]) if vals is not None else False
                    if any(c.callee.endswith('Option::<T>::is_some') and (mir.provenance(g, c.args[0]).params & set(cur_params)) for c in d.calls) and fl:
                        guarded = True
                    # `match found_curr { None => .. }` / `match (found_curr, found_fx) { (None, None) => .. }`: the None arm of the discriminant
                    dl = mir.op_local(discr) if isinstance(discr, dict) and 'k' in discr else None
                    dd = g.single_def(dl) if dl is not None else None
                    if dd and dd[2] == 'stmt' and dd[3]['r']['rv'] == 'discr' and vals == [0] and not neg and \
                            re.search(r'^&*std::option::Option<&?portfolio::model::currency::Currency>', dd[3]['r']['pl'].get('t') or g.ty.get(dd[3]['r']['pl']['l'], '')) and \
                            (mir.provenance(g, dd[3]['r']['pl']).params & set(cur_params)):
                        guarded = True
                k = '%s|no-currency-means-no-rate-only' % g.name
                if guarded:
                    rep.ok('R1e', k, where=g.where(s), fn=g.name, detail='"no currency/rate pair" is returned only when no currency was given')
                else:
                    rep.violation('R1e', k, where=g.where(s), fn=g.name,
                                  detail='a currency that was named explicitly can be dropped (Ok(None) is not confined to the "currency absent" case): e.g. an explicit CAD '
                                         'commission on a USD trade would be converted at the trade\'s rate instead of 1')
    if n_e == 0:
        rep.violation('R1e', 'anchor-lost:currency-pair-validation', detail='anchor lost: the function validating a (currency, rate) pair of a CSV row')

    # ------------------------------------------------------------------ R1g: the commission's own (currency, rate) pair reaches the ledger as validated
    TRANSPORT = {'clone', 'as_ref', 'deref', 'borrow', 'to_owned', 'cloned', 'copied', 'into', 'from', 'unwrap', 'expect', 'branch',
                 'from_output', 'from_residual', 'map_err', 'ok_or', 'ok_or_else'}
    n_g = 0
    for g in prog.product_fns():
        if not g.name.startswith('portfolio::model::tx::'):
            continue
        for i, b in g.blocks.items():
            for s in b['stmts']:
                r = s['r']
                if r['rv'] != 'agg' or 'separate_commission_currency' not in r.get('fields', []):
                    continue
                o = r['ops'][r['fields'].index('separate_commission_currency')]
                if not is_place(o):
                    continue
                org = mir.provenance(g, o, follow_all_call_args=True)
                if not any(f == 'commission_currency' for (_, f) in org.fields):
                    continue    # not built from a CSV row here
                n_g += 1
                # (only calls that hand back a pair / a currency / a rate can replace it: the text of an error message built next to the
                # validation — visible when the validating helper is spliced in — cannot)
                PAIRISH = r'CurrencyAndExchangeRate|model::currency::Currency|rust_decimal::Decimal|ConstrainedDecimal'
                bad = [c for c in org.calls if c.short not in TRANSPORT and prog.resolve(c.callee, g.crate) is None and
                       re.search(PAIRISH, g.ty.get(c.dst['l'], '') or '')]
                k = '%s|commission-pair-reaches-ledger-as-validated' % g.name
                if bad:
                    rep.violation('R1g', k, where=bad[0].where(), fn=g.name,
                                  detail='between validation and the transaction record the commission\'s own (currency, rate) pair passes through %s: '
                                         'a pair that was given can be dropped or replaced, and the commission is then converted at the trade\'s rate '
                                         'instead of its own' % short(bad[0].callee))
                else:
                    rep.ok('R1g', k, where=g.where(s), fn=g.name,
                           detail='separate_commission_currency is the validated (currency, rate) pair of the row, moved unchanged '
                                  '(calls on the way: %s)' % sorted({short(c.callee) for c in org.calls}))
    if n_g == 0:
        rep.violation('R1g', 'anchor-lost:commission-pair-construction',
                      detail='anchor lost: no aggregate with a separate_commission_currency field built from CsvTx.commission_currency')

    # ------------------------------------------------------------------ R1d: own exchange rate
    for arm in ('Buy', 'Sell'):
        n = 0
        for c in f.calls:
            if c.bb not in L.region[arm] or not re.search(r'std::ops::Mul::mul$', c.decl) or len(c.args) != 2:
                continue
            o = [mir.provenance(f, a, follow_all_call_args=True, skip_blocks=set().union(*[r for a2, r in L.region.items() if a2 != arm])) for a in c.args]
            for i in (0, 1):
                fi = {fl for of, fl in o[i].fields}
                other = o[1 - i]
                if 'commission' in fi and 'exchange_rate' not in fi:
                    n += 1
                    k = 'commission-times-commission-rate|%s' % arm
                    if other.has_call(r'commission_currency_and_rate$') and not any(fl == 'tx_currency_and_rate' for of, fl in other.fields):
                        rep.ok('R1d', k, where=c.where(), fn=f.name, detail='commission is multiplied by commission_currency_and_rate().exchange_rate')
                    else:
                        rep.violation('R1d', k, where=c.where(), fn=f.name,
                                      detail='the commission of a %s is not converted with its own (commission) exchange rate' % arm)
        if n == 0:
            rep.violation('R1d', 'anchor-lost:commission-conversion|%s' % arm, fn=f.name, detail='anchor lost: commission x rate multiplication in the %s arm' % arm)
    # the price is converted with the transaction rate: the value closure receives tx_currency_and_rate
    for arm, adt in (('Buy', 'BuyTxSpecifics'), ('Sell', 'SellTxSpecifics')):
        ok = False
        want3 = {(adt, 'amount_per_share'), (adt, 'tx_currency_and_rate'), (adt, 'shares')}
        for c in f.calls:
            if c.bb not in L.region[arm]:
                continue
            # the valuation may be a closure call, a helper function, or a product written out in the arm
            if c.short in ('call', 'call_once', 'call_mut') and len(c.args) == 2:
                cand = [c.args[1]]
            elif prog.resolve(c.callee, f.crate) is not None and len(c.args) >= 3:
                cand = list(c.args)
            elif re.search(r'std::ops::Mul::mul$', c.decl):
                cand = list(c.args)
            else:
                continue
            fs = set()
            for a in cand:
                if is_place(a):
                    o = mir.provenance(f, a, follow_all_call_args=True)
                    fs |= {(of.rsplit('::', 1)[-1], fl) for of, fl in o.fields}
            if want3 <= fs:
                ok = True
        k = 'price-times-transaction-rate|%s' % arm
        if ok:
            rep.ok('R1d', k, fn=f.name, detail='shares, price and the transaction\'s own rate are valued together')
        else:
            rep.violation('R1d', k, fn=f.name, where='%s:%d' % (f.file, f.line), detail='the %s amount is not valued from (shares, amount_per_share, tx_currency_and_rate) together' % arm)
