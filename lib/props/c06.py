"""C06 — totals are sums; rounding is display-only.  DESIGN.md 5.C06 (R6a rounding never feeds back, R6b the
precision flag only selects a formatter, R6c gains are bucketed by settlement year)."""
import re

import mir
from mir import short, is_place, op_local

LEVEL = 'other'
EXPLANATION = ('Decides three necessary structural clauses of C06. (R6a) the result of every lossy Decimal operation (round*, trunc, floor, '
               'ceil, rescale, float conversions) flows — across calls, returns and closures — only into string formatting; one reviewed '
               'barrier (the effective-cent snap used by the superficial-loss amount, applied identically in both precision modes) and one '
               'input-side exception (spreadsheet floats) are frozen with their exact caller sets. (R6b) the --print-full-values flag and '
               'everything it is copied into (parameters, struct fields) is used for nothing but being passed on to PrintHelper, where the '
               'field is read only by the currency formatter. (R6c) every year under which a gain is accumulated or summarised is taken from '
               'the transaction\'s settlement date. Not decided: that the sums themselves are arithmetically right.')
TRUSTED_BASE = ['rustc nightly MIR construction and trait resolution', 'rust_decimal: Display with a precision is the only other rounding and yields a String']
ASSUMPTIONS = []

LOSSY = re.compile(r'^rust_decimal::Decimal::(round|round_dp|round_dp_with_strategy|round_sf|round_sf_with_strategy|trunc|trunc_with_scale|'
                   r'floor|ceil|rescale|normalize|from_f64_retain|from_f32_retain)$|ToPrimitive>::to_f(32|64)$|FromPrimitive>::from_f(32|64)$|'
                   r'ToPrimitive::to_f(32|64)$|FromPrimitive::from_f(32|64)$')
FORMAT_SINK = re.compile(r'fmt::rt::Argument::<\'_>::(new_(display|debug)|from_usize)|ToString::to_string$|fmt::Display::fmt$|fmt::Debug::fmt$|'
                         r'to_string_min_precision$')
PASS = {'clone', 'deref', 'borrow', 'as_ref', 'copied', 'cloned', 'unwrap', 'expect', 'branch', 'ok', 'unwrap_or', 'into', 'from',
        'ok_or', 'ok_or_else', 'map_err', 'from_output'}
# reviewed barriers: function -> (reason, exact set of allowed direct product callers)
BARRIERS = {
    'util::math::maybe_round_to_effective_cent': (
        'effective-cent snap: returns the cent-rounded value only when it differs from the input by < 1e-10; applied identically with and '
        'without --print-full-values, so "default figure = full-precision figure rounded to cents" is unaffected',
        {'util::math::c_maybe_round_to_effective_cent'}),
    'util::math::c_maybe_round_to_effective_cent': (
        'constrained wrapper of the effective-cent snap',
        {'portfolio::bookkeeping::delta_list::get_delta_superficial_loss_info'}),
    'util::math::c_round_to_cent': (
        'constrained wrapper of round_to_cent; has no product caller today, any caller must be reviewed', set()),
    "peripheral::excel::SheetReader::<'a>::get_opt_dec": (
        'input side: a spreadsheet float cell is converted to Decimal when read; no computed figure is rounded',
        {"peripheral::excel::SheetReader::<'a>::get_dec", 'peripheral::broker::questrade::sheet_to_txs::{closure#0}', 'peripheral::broker::questrade::sheet_to_txs'}),
}


class RoundFlow:
    def __init__(self, prog, rep):
        self.prog = prog
        self.rep = rep
        self.seen = set()
        self.work = []
        self.bad = []
        self.sinks = 0

    def add(self, fn, l, origin):
        if (fn.name, l) not in self.seen:
            self.seen.add((fn.name, l))
            self.work.append((fn, l, origin))

    def run(self):
        prog = self.prog
        while self.work:
            fn, l, origin = self.work.pop()
            if fn.name in BARRIERS and l != 0:
                continue   # inside a reviewed barrier: judged by its caller set, nothing propagates out of it except its return
            if l == 0:
                # returned: continue in every caller (or stop at a reviewed barrier)
                if fn.kind in ('Closure', 'SyntheticCoroutineBody'):
                    parent = prog.by_crate[fn.crate].get(fn.parent)
                    if parent is not None:
                        # result of calling the closure: conservatively taint results of indirect calls / adaptor calls taking it
                        for c in parent.calls:
                            for a in c.arg_locals():
                                if '{closure' in parent.ty.get(a, '') and fn.local_name.rsplit('::', 1)[-1].strip('{}') in fn.local_name:
                                    pass
                    continue
                if fn.name in BARRIERS:
                    continue
                for c in prog.callers.get(fn.name, []):
                    if mir.is_testsupport(c.fn.name):
                        continue
                    if c.dst_local() is not None:
                        self.add(c.fn, c.dst_local(), origin)
                    else:
                        self.bad.append((c.fn, c.t, 'rounded value returned by %s is stored through a projection' % fn.name, origin))
                continue
            for (bb, idx, kind, node) in fn.uses_of(l):
                if kind == 'stmt':
                    r = node['r']
                    if node['dst']['p']:
                        self.bad.append((fn, node, 'rounded value stored into a field/place', origin))
                    elif r['rv'] in ('use', 'ref', 'cast', 'rawptr'):
                        self.add(fn, node['dst']['l'], origin)
                    elif r['rv'] == 'agg':
                        kd = r['kind']
                        if kd == 'tuple' or kd.startswith('adt:std::option::Option') or kd.startswith('adt:std::result::Result') or kd == 'array':
                            self.add(fn, node['dst']['l'], origin)
                        elif kd.startswith('closure:') or kd.startswith('coroutine:'):
                            g = prog.by_crate[fn.crate].get(kd.split(':', 1)[1])
                            if g is not None:
                                for n, o in enumerate(r['ops']):
                                    if op_local(o) == l:
                                        self.taint_upvar(g, n, origin)
                        else:
                            self.bad.append((fn, node, 'rounded value stored in a %s' % kd, origin))
                    elif r['rv'] in ('binop', 'unop'):
                        self.bad.append((fn, node, 'rounded value used in arithmetic/comparison (%s)' % r.get('op'), origin))
                elif kind == 'store':
                    pass
                elif kind == 'switch':
                    self.bad.append((fn, node, 'rounded value decides a branch', origin))
                elif kind == 'call':
                    c = fn.call_at[bb]
                    if FORMAT_SINK.search(c.callee) or FORMAT_SINK.search(c.decl) or '$crate::event' in c.exp:
                        self.sinks += 1
                        continue
                    if c.short in ('drop', 'drop_in_place'):
                        continue
                    g = prog.resolve(c.callee, fn.crate) or prog.resolve(c.decl, fn.crate)
                    if g is not None and not mir.is_testsupport(g.name):
                        for i, a in enumerate(c.args):
                            if op_local(a) == l:
                                self.add(g, i + 1, origin)
                        continue
                    if c.short in PASS and c.arg_local(0) == l:
                        if c.dst_local() is not None:
                            self.add(fn, c.dst_local(), origin)
                        continue
                    self.bad.append((fn, c.t, 'rounded value passed to %s' % c.callee, origin))

    def taint_upvar(self, g, n, origin):
        for b in g.blocks.values():
            for s in b['stmts']:
                for pl in g.stmt_sources(s):
                    fs = [e for e in pl['p'] if isinstance(e, dict) and 'f' in e]
                    if pl['l'] == 1 and fs and fs[0]['f'] == str(n):
                        self.add(g, s['dst']['l'], origin)


def run(prog, rep, tier='quick', config='default'):
    # ------------------------------------------------------------------ R6a
    flow = RoundFlow(prog, rep)
    sites = []
    for c in prog.all_calls():
        if LOSSY.search(c.callee) or LOSSY.search(c.decl):
            sites.append(c)
            if c.dst_local() is not None:
                flow.add(c.fn, c.dst_local(), '%s in %s' % (short(c.callee), c.fn.name))
    if config == 'default':
        rep.anchor('lossy Decimal operations in product code', sites)
    flow.run()
    ordn = {}
    for c in sites:
        k = '%s|%s' % (c.fn.name, short(c.callee))
        rep.info('R6a-site', k, where=c.where(), fn=c.fn.name, detail='lossy operation %s' % c.callee)
    # barrier functions: exact caller sets
    from props import anchors
    sv = anchors.sfl_validation(prog)
    for bname, (reason, allowed) in BARRIERS.items():
        if sv is not None:
            allowed = {sv.name if a == 'portfolio::bookkeeping::delta_list::get_delta_superficial_loss_info' else a for a in allowed}
        b = prog.fn(bname)
        if b is None:
            if config == 'default' and 'excel' not in bname:
                rep.violation('R6a', 'anchor-lost:' + bname, detail='anchor lost: reviewed barrier function %s' % bname)
            continue
        callers = {c.fn.name for c in prog.callers.get(bname, []) if not mir.is_testsupport(c.fn.name)}
        # a call written inside a closure of an allowed function is a call of that function
        extra = {n for n in callers - allowed if prog.owner_of(prog.fn(n)).name not in allowed}
        if extra:
            for e in sorted(extra):
                rep.violation('R6a', 'barrier-caller|%s|%s' % (bname, e), fn=e,
                              detail='%s (a rounding helper reviewed only for its known callers) is now also called from %s: a rounded value '
                                     'can feed back into later figures' % (bname, e))
        else:
            rep.reviewed('R6a', 'barrier|%s' % bname, fn=bname, detail='callers %s — reviewed: %s' % (sorted(callers), reason))
    seen_bad = set()
    for (fn, node, what, origin) in flow.bad:
        if fn.name in BARRIERS:
            continue
        k = '%s|%s' % (fn.name, re.sub(r'\s+', ' ', what)[:70])
        if k in seen_bad:
            continue
        seen_bad.add(k)
        rep.violation('R6a', k, where=fn.where(node), fn=fn.name,
                      detail='%s (origin: %s): rounding must be display-only, a rounded value must not feed back into a later figure' % (what, origin))
    if not flow.bad or all(b[0].name in BARRIERS for b in flow.bad):
        rep.ok('R6a', 'rounded-values-only-formatted', fn='(all product crates)',
               detail='%d lossy call sites; their results reach %d formatting sinks and nothing else (outside the reviewed barriers)' % (len(sites), flow.sinks))
    rep.extra['lossy_sites'] = ['%s @%s' % (c.callee, c.where()) for c in sites]

    r6b(prog, rep, config)
    r6c(prog, rep, config)


# ---------------------------------------------------------------------------------------------------- R6b
def r6b(prog, rep, config):
    ph_new = prog.fn('portfolio::render::PrintHelper::new')
    if not rep.anchor('portfolio::render::PrintHelper::new', ph_new):
        return
    # which field does parameter 1 of PrintHelper::new initialise?
    flag_fields = set()
    for b in ph_new.blocks.values():
        for s in b['stmts']:
            if s['r']['rv'] == 'agg' and s['r']['kind'].startswith('adt:portfolio::render::PrintHelper'):
                for fname, o in zip(s['r'].get('fields', []), s['r']['ops']):
                    if is_place(o) and 1 in mir.provenance(ph_new, o).params:
                        flag_fields.add(('portfolio::render::PrintHelper', fname))
    if not rep.anchor('PrintHelper field initialised from the precision flag', sorted('%s.%s' % f for f in flag_fields)):
        return
    members_p = {(ph_new.name, 1)}
    members_f = set(flag_fields)
    changed = True
    while changed:
        changed = False
        for (fname, pi) in list(members_p):
            f = prog.fn(fname)
            if f is None:
                continue
            for c in prog.callers.get(fname, []):
                if mir.is_testsupport(c.fn.name) or pi - 1 >= len(c.args):
                    continue
                changed |= absorb(prog, c.fn, c.args[pi - 1], members_p, members_f)
        for (adt, fld) in list(members_f):
            for fn in prog.product_fns():
                for b in fn.blocks.values():
                    for s in b['stmts']:
                        if s['r']['rv'] == 'agg' and s['r']['kind'].startswith('adt:' + adt + '::'):
                            for fname, o in zip(s['r'].get('fields', []), s['r']['ops']):
                                if fname == fld:
                                    changed |= absorb(prog, fn, o, members_p, members_f)
                        dfs = mir.place_fields(s['dst'])
                        if dfs and dfs[-1] == (adt, fld) and s['r']['rv'] == 'use':
                            changed |= absorb(prog, fn, s['r']['ops'][0], members_p, members_f)
    rep.extra['precision_flag_carriers'] = sorted('%s#%d' % m for m in members_p) + sorted('%s.%s' % f for f in members_f)
    n_uses = 0
    viol = 0
    # forward: every use of a carrier is "pass it on"
    for (fname, pi) in sorted(members_p):
        f = prog.fn(fname)
        if f is None:
            continue
        n, bad = check_uses(prog, f, {pi}, members_p, members_f)
        n_uses += n
        for (g, node, what) in bad:
            viol += 1
            rep.violation('R6b', '%s|%s' % (g.name, what[:60]), where=g.where(node), fn=g.name,
                          detail='the precision flag (--print-full-values) is %s: it must only select the formatter, never influence a computed figure' % what)
    for (adt, fld) in sorted(members_f):
        for fn in prog.product_fns():
            seeds = set()
            for b in fn.blocks.values():
                for s in b['stmts']:
                    for pl in fn.stmt_sources(s):
                        if (adt, fld) in mir.place_fields(pl) and mir.place_fields(pl)[-1] == (adt, fld):
                            seeds.add(s['dst']['l'])
                t = b['term'] if False else None
            for i, b in fn.blocks.items():
                t = b['term']
                if t and t['t'] == 'switch' and is_place(t['discr']) and mir.place_fields(t['discr']['pl'])[-1:] == [(adt, fld)]:
                    seeds.add(-1)
                    if adt == 'portfolio::render::PrintHelper' and not is_formatter(prog, fn):
                        viol += 1
                        rep.violation('R6b', '%s|branch-on-%s' % (fn.name, fld), where=fn.where(t), fn=fn.name,
                                      detail='PrintHelper.%s is branched on outside curr_str' % fld)
            seeds.discard(-1)
            if not seeds:
                continue
            if adt == 'portfolio::render::PrintHelper':
                if not is_formatter(prog, fn):
                    viol += 1
                    rep.violation('R6b', '%s|reads-%s' % (fn.name, fld), fn=fn.name, where='%s:%d' % (fn.file, fn.line),
                                  detail='PrintHelper.%s is read outside the currency formatter curr_str' % fld)
                n_uses += 1
                continue
            n, bad = check_uses(prog, fn, seeds, members_p, members_f)
            n_uses += n
            for (g, node, what) in bad:
                viol += 1
                rep.violation('R6b', '%s|%s' % (g.name, what[:60]), where=g.where(node), fn=g.name,
                              detail='the precision flag (read from %s.%s) is %s' % (adt, fld, what))
    if viol == 0:
        rep.ok('R6b', 'flag-only-selects-formatter', fn='portfolio::render::PrintHelper',
               detail='%d carriers of the flag (%d parameters, %d fields), %d uses: all pass it on; the field is read only in curr_str'
                      % (len(members_p) + len(members_f), len(members_p), len(members_f), n_uses))
    if len(members_p) < 4 and config == 'default':
        rep.violation('R6b', 'anchor-lost:flag-chain', detail='anchor lost: the flag chain from the command line to PrintHelper has only %d links' % len(members_p))


def is_formatter(prog, fn):
    """the PrintHelper method that turns a value into text: it calls the cent formatter (by shape, not by name)"""
    return fn.name.startswith('portfolio::render::PrintHelper::') and any(c.callee.endswith('util::decimal::dollar_precision_str') for c in fn.calls)


def absorb(prog, fn, operand, members_p, members_f):
    """add the sources of a bool operand (parameters / fields / closure captures) to the carrier sets"""
    changed = False
    org = mir.provenance(fn, operand)
    for p in org.params:
        owner = fn
        if fn.kind in ('Closure', 'SyntheticCoroutineBody') and p == 1:
            continue
        if (owner.name, p) not in members_p:
            members_p.add((owner.name, p))
            changed = True
    for (of, f) in org.fields:
        if of and 'bool' == (prog.field_type(of, f) or ''):
            if (of, f) not in members_f:
                members_f.add((of, f))
                changed = True
    # captured by an async fn / closure body: map upvar index to the operand of the parent's aggregate
    if fn.kind in ('Closure', 'SyntheticCoroutineBody') and org.upvars:
        parent = prog.by_crate[fn.crate].get(fn.parent)
        if parent is not None:
            for b in parent.blocks.values():
                for s in b['stmts']:
                    if s['r']['rv'] == 'agg' and s['r']['kind'].split(':', 1)[-1] == fn.local_name:
                        for n, o in enumerate(s['r']['ops']):
                            if str(n) in org.upvars and is_place(o) and parent.ty.get(o['pl']['l'], '') == 'bool':
                                changed |= absorb(prog, parent, o, members_p, members_f)
    return changed


def check_uses(prog, fn, seeds, members_p, members_f):
    """all uses of the flag locals in fn (following copies and closure captures) must pass the flag on to a carrier"""
    bad = []
    n = 0
    seen = set()
    work = [(fn, l) for l in seeds]
    while work:
        g, l = work.pop()
        if (g.name, l) in seen:
            continue
        seen.add((g.name, l))
        if re.search(r' as std::fmt::Debug>::fmt$', g.name):
            continue    # derive(Debug): diagnostic formatting of the options struct
        for (bb, idx, kind, node) in g.uses_of(l):
            n += 1
            if kind == 'stmt':
                r = node['r']
                if node['dst']['p']:
                    dfs = mir.place_fields(node['dst'])
                    if dfs and dfs[-1] in members_f:
                        continue
                    bad.append((g, node, 'stored into a place that is not a flag carrier'))
                elif r['rv'] in ('use', 'ref', 'cast'):
                    work.append((g, node['dst']['l']))
                elif r['rv'] == 'agg':
                    kd = r['kind']
                    if kd.startswith('closure:') or kd.startswith('coroutine:'):
                        h = prog.by_crate[g.crate].get(kd.split(':', 1)[1])
                        if h is not None:
                            for k2, o in enumerate(r['ops']):
                                if op_local(o) == l:
                                    for b in h.blocks.values():
                                        for s in b['stmts']:
                                            for pl in h.stmt_sources(s):
                                                fs = [e for e in pl['p'] if isinstance(e, dict) and 'f' in e]
                                                if pl['l'] == 1 and fs and fs[0]['f'] == str(k2):
                                                    work.append((h, s['dst']['l']))
                    elif kd.startswith('adt:'):
                        adt = kd[4:].rsplit('::', 1)[0]
                        ok = True
                        for fname, o in zip(r.get('fields', []), r['ops']):
                            if op_local(o) == l and (adt, fname) not in members_f:
                                ok = False
                        if not ok:
                            bad.append((g, node, 'stored in a struct field that is not a flag carrier'))
                    else:
                        work.append((g, node['dst']['l']))
                elif r['rv'] in ('binop', 'unop'):
                    bad.append((g, node, 'used in a computation (%s)' % r.get('op')))
            elif kind == 'switch':
                bad.append((g, node, 'branched on'))
            elif kind == 'call':
                c = g.call_at[bb]
                if '$crate::event' in c.exp:
                    continue
                tgt = prog.resolve(c.callee, g.crate) or prog.resolve(c.decl, g.crate)
                if tgt is not None:
                    okc = True
                    for i, a in enumerate(c.args):
                        if op_local(a) == l and (tgt.name, i + 1) not in members_p:
                            okc = False
                    if not okc:
                        bad.append((g, c.t, 'passed to %s, which does not hand it to PrintHelper' % tgt.name))
                    continue
                if c.short in ('clone', 'deref', 'into_future', 'new_unchecked', 'get_context', 'poll') or c.short in mir.PASS_THROUGH:
                    if c.dst_local() is not None and g.ty.get(c.dst_local(), '') in ('bool', '&bool'):
                        work.append((g, c.dst_local()))
                    continue
                bad.append((g, c.t, 'passed to %s' % c.callee))
    return n, bad


# ---------------------------------------------------------------------------------------------------- R6c
def r6c(prog, rep, config):
    n = 0
    ordn = {}
    for fn in prog.product_fns():
        if not re.match(r'^portfolio::(cumulative_gains|summary|render)::|^app::approot::', fn.name):
            continue
        for c in fn.calls:
            if c.callee != 'time::Date::year':
                continue
            org = mir.provenance(fn, c.args[0], follow_all_call_args=True)
            txf = {f for (of, f) in org.fields if of == 'portfolio::model::tx::Tx' and 'date' in f}
            if not txf:
                continue
            n += 1
            ordn[fn.name] = ordn.get(fn.name, 0) + 1
            k = '%s|year#%d' % (fn.name, ordn[fn.name])
            if txf == {'settlement_date'}:
                rep.ok('R6c', k, where=c.where(), fn=fn.name, detail='year taken from Tx.settlement_date')
            else:
                rep.violation('R6c', k, where=c.where(), fn=fn.name,
                              detail='a gain is filed under the year of Tx.%s: yearly figures must be keyed by the settlement year' % '/'.join(sorted(txf - {'settlement_date'}) or txf))
    # R6c': every key of a year -> amount map is `Date::year()` of a settlement date, taken directly or through a crate function
    # that itself returns nothing but `Date::year()` of its argument (not an ISO week-year, an ordinal, a fiscal year, ...)
    def year_only(g, operand, depth=0):
        o = mir.provenance(g, operand, follow_all_call_args=True)
        bad = []
        has_year = False
        for x in o.calls:
            if x.callee == 'time::Date::year':
                has_year = True
            elif x.short in ('deref', 'clone', 'borrow', 'as_ref', 'copied', 'cloned', 'into', 'from', 'next', 'into_iter', 'iter', 'keys',
                             'unwrap', 'expect', 'get', 'index', 'deltas_or_partial_deltas', 'branch'):
                continue
            else:
                h = prog.resolve(x.callee, g.crate)
                if h is not None and depth < 2 and re.search(r'^i32$', h.ty.get(0, '')):
                    ok2, bad2 = year_only(h, {'k': 'copy', 'pl': {'l': 0, 'p': []}}, depth + 1)
                    if ok2:
                        has_year = True
                    else:
                        bad.append(x)
                elif x.callee.startswith('time::'):
                    bad.append(x)
        return (has_year and not bad), bad
    n_k = 0
    for fn in prog.product_fns():
        if not re.match(r'^portfolio::(cumulative_gains|summary)::', fn.name) or mir.is_testsupport(fn.name):
            continue
        for c in fn.calls:
            if c.short not in ('insert', 'entry') or len(c.args) < 2 or not re.search(r'HashMap<i32, ', fn.ty.get(c.arg_local(0), '')):
                continue
            ko = mir.provenance(fn, c.args[1], follow_all_call_args=True)
            if not any(of == 'portfolio::model::tx::Tx' and 'date' in fl for (of, fl) in ko.fields):
                continue      # a key copied from another year map
            n_k += 1
            ok_k, bad_k = year_only(fn, c.args[1])
            kk = '%s|year-key-is-calendar-year#%d' % (fn.name, n_k)
            if ok_k:
                rep.ok('R6c', kk, where=c.where(), fn=fn.name, detail='the key is Date::year() of the transaction date')
            else:
                rep.violation('R6c', kk, where=c.where(), fn=fn.name,
                              detail='the year under which a gain is filed is not plainly Date::year() of the settlement date (%s): around New Year '
                                     'a row would be added to the neighbouring year\'s figure' % (short(bad_k[0].callee) if bad_k else 'no Date::year() on the way'))
    if n_k < 2:
        rep.violation('R6c', 'anchor-lost:year-keys', detail='anchor lost: only %d year-keyed insertions built from transaction dates found' % n_k)
    r6d(prog, rep)
    if n < 3:
        rep.violation('R6c', 'anchor-lost:year-sites', detail='anchor lost: only %d Date::year() sites on transaction dates in the gains/summary code' % n)
    # the per-security accumulation loop has no skipping adaptor
    f = prog.fn('portfolio::cumulative_gains::calc_security_cumulative_capital_gains')
    if rep.anchor('calc_security_cumulative_capital_gains', f):
        skip = [c for c in f.calls if c.short in ('filter', 'skip', 'take', 'step_by', 'skip_while', 'take_while') and c.decl.startswith('std::iter::')]
        if skip:
            rep.violation('R6c', 'gains-loop-skips', where=skip[0].where(), fn=f.name, detail='the yearly accumulation skips elements (%s)' % skip[0].short)
        adds = [c for c in f.calls if re.search(r'AddAssign::add_assign$|ops::Add::add$', c.decl)]
        srcs = []
        for c in adds:
            o = mir.provenance(f, c.args[1], follow_all_call_args=False)
            src = frozenset(x for (of, x) in o.fields if of.endswith('TxDelta'))
            if not src:
                # the value was taken out of the row by an iterator closure: identify it by the variable of this function it is bound to
                own = set(getattr(f, 'origin', f).ty)
                src = frozenset('variable ' + f.varnames[l] for l in o.locals if l in own and l in f.varnames and l in f.user)
            srcs.append(src)
        if len(adds) >= 2 and len(set(srcs)) == 1 and srcs[0]:
            rep.ok('R6c', 'total-and-year-add-same-value', fn=f.name, detail='the table total and the yearly figure accumulate the same field (%s)' % ', '.join(sorted(srcs[0])))
        else:
            rep.violation('R6c', 'total-and-year-add-same-value', fn=f.name, where='%s:%d' % (f.file, f.line),
                          detail='the table total and the yearly figures do not accumulate the same value (%s)' % [sorted(s) for s in srcs])


# ---------------------------------------------------------------------------------------------------- R6d
def r6d(prog, rep):
    """every element of the summed collection reaches the accumulation: no conditional skip in the totals loops"""
    specs = [('portfolio::cumulative_gains::calc_cumulative_capital_gains', None),
             ('portfolio::cumulative_gains::calc_security_cumulative_capital_gains', 'capital_gain')]
    for name, allowed_field in specs:
        f = prog.fn(name)
        if not rep.anchor(name.rsplit('::', 1)[-1], f):
            continue
        loops = f.iterator_loops()
        if not loops:
            rep.violation('R6d', '%s|anchor-lost:loop' % name, fn=name, detail='anchor lost: accumulation loop')
            continue
        # outermost iterator loop
        nc, header, body = sorted(loops, key=lambda x: -len(x[2]))[0]
        adds = [c for c in f.calls if c.bb in body and re.search(r'AddAssign::add_assign$|ops::Add::add$', c.decl)
                and 'Decimal' in (f.ty.get(c.arg_local(0), '') + c.callee)]
        if not adds:
            rep.violation('R6d', '%s|anchor-lost:add' % name, fn=name, detail='anchor lost: Decimal accumulation inside the loop')
            continue
        first_add = adds[0]
        # body entry = successor of the switch on next() for Some
        sw = f.blocks[nc.target]['term'] if nc.target in f.blocks else None
        entry = None
        if sw and sw['t'] == 'switch':
            some_t = [tg for v, tg in sw['targets'] if v == 1] or [sw['otherwise']]
            entry = some_t[0]
        if entry is None:
            continue
        # blocks from which the add is skipped legitimately: the None arm of the value's own Option
        allowed = set()
        if allowed_field:
            for i, b in f.blocks.items():
                t = b['term']
                if i in body and t and t['t'] == 'switch':
                    d = mir.provenance(f, t['discr'])
                    if any(fl == allowed_field for of, fl in d.fields):
                        vals = [v for v, tg in t['targets']]
                        for v, tg in t['targets']:
                            if v == 0:
                                allowed.add(tg)
                        if 0 not in vals:
                            allowed.add(t['otherwise'])   # `if let Some(..)`: the otherwise edge is the None arm
        reach = {entry} | f.reachable_from(entry, avoid={first_add.bb} | allowed)
        k = '%s|every-element-is-accumulated' % name
        # ... and nothing is dropped before the loop: the sequence the loop runs over (directly, or collected and sorted first) does not
        # pass through an adaptor that leaves elements out (a `filter_map` that only unwraps the row's own Option is the allowed skip)
        DROPS = {'filter', 'skip', 'skip_while', 'take', 'take_while', 'step_by', 'map_while', 'dedup', 'dedup_by', 'dedup_by_key', 'retain', 'truncate',
                 'drain', 'pop', 'remove', 'swap_remove', 'split_off', 'chunks_exact', 'nth'} | (set() if allowed_field else {'filter_map'})
        src = mir.provenance(f, nc.args[0], follow_all_call_args=True)
        roots = {mir.nearest_user_local(f, nc.args[0])} - {None}
        dropped = [x for x in src.calls if x.short in DROPS and (x.decl.startswith('std::iter::') or 'vec::Vec' in x.callee or 'slice' in x.callee)]
        dropped += [x for x in f.calls if x.short in DROPS and x.args and mir.nearest_user_local(f, x.args[0]) in roots and
                    ('vec::Vec' in x.callee or 'slice' in x.callee) and f.reaches(x.bb, header)]
        if dropped:
            rep.violation('R6d', k, where=dropped[0].where(), fn=name,
                          detail='the elements summed by the totals loop pass through %s() first: whatever it leaves out (e.g. a security whose gains '
                                 'cancel to zero over the years) is missing from the figures, so a total no longer equals the sum of its rows' % dropped[0].short)
        elif header in reach and entry != first_add.bb:
            rep.violation('R6d', k, where=first_add.where(), fn=name,
                          detail='an iteration of the totals loop can skip the accumulation (a conditional continue/skip): a figure that should be part of the '
                                 'sum is left out, so a total no longer equals the sum of its rows')
        else:
            rep.ok('R6d', k, where=first_add.where(), fn=name, detail='every iteration reaches the accumulation%s' % (
                ' (except rows without a capital gain)' if allowed_field else ''))
