"""C03 — a denied loss moves into cost base, once, in full: structural clauses of the adjustment mechanism.
  R3a  automatic SfLA rows are generated only for non-registered affiliates;
  R3b  generated rows are inserted directly after the sale and evaluated next (index i + k + 1; the loop advances by one and never skips);
  R3c  a user-specified superficial loss suppresses automatic adjustments (no row is generated on that branch);
  R3d  each generated amount depends on the denied amount and on that affiliate's share of it;
  R3e  the sale reports loss minus denied amount."""
import re

import mir
from mir import short, is_place, op_local
from props import ledger

LEVEL = 'other'
EXPLANATION = ('Decides the structural clauses of C03 (the conservation identity itself is an equation over run-time values and is not decided): '
               'automatic cost-base adjustments are built only on the not-registered edge of the receiving affiliate; they are inserted at '
               'position i+k+1 of the working list and the bookkeeping loop advances by exactly one without skipping, so each is evaluated '
               'right after its sale, once; the branch that honours a user-specified loss generates none; each generated amount depends on '
               'the computed denied amount and on the affiliate\'s ratio; the sale\'s reported gain is the loss minus the denied amount.')
TRUSTED_BASE = ['rustc nightly MIR construction and trait resolution']
ASSUMPTIONS = []

GD = 'portfolio::bookkeeping::delta_list::get_delta_superficial_loss_info'
TD = 'portfolio::bookkeeping::delta_list::txs_to_delta_list'


def truth_of(vals, neg):
    return (vals != [0]) if vals is not None else (0 in (neg or []))


def alias_name(prog, fn):
    from props import anchors
    sv = anchors.sfl_validation(prog)
    return '@sfl_validation' if sv is not None and fn.name == sv.name else fn.name


def run(prog, rep, tier='quick', config='default'):
    from props import anchors
    g = anchors.sfl_validation(prog) or prog.fn(GD)
    t = anchors.delta_list_driver(prog, anchors.ledger_step(prog)) or prog.fn(TD)
    if not rep.anchor('get_delta_superficial_loss_info', g) or not rep.anchor('txs_to_delta_list', t):
        return
    # ------------------------------------------------------------------ R3a / R3d
    # construction sites of the automatic SfLA rows: in g, in the helpers g reaches inside the bookkeeping, or in closures of those
    tree = [g] + [x for x in prog.callees_closure([getattr(g, 'origin', g)]).values()
                  if x.name != g.name and x.name.startswith('portfolio::bookkeeping::') and x.kind in ('Fn', 'AssocFn')]
    tree += [h for x in list(tree) for h in prog.closures_of(x) if h not in tree]
    sfla = []
    for h in tree:
        for i, b in h.blocks.items():
            for s in b['stmts']:
                if s['r']['rv'] == 'agg' and s['r']['kind'].endswith('TxActionSpecifics::Sfla'):
                    sfla.append((h, i, s))
    if not sfla:
        rep.violation('R3a', 'anchor-lost:sfla-construction', fn=g.name, detail='anchor lost: construction of the automatic SfLA transaction')

    def reg_atom(fn, c):
        # `registered()` of the item the predicate is asked about (not of a captured affiliate, e.g. the seller's)
        if c.callee.endswith('Affiliate::registered') and c.args:
            o = mir.provenance(fn, c.args[0])
            if not o.upvars and (fn.kind != 'Closure' or (o.params - {1})):
                return ('registered', 'bool')
        return None
    for n, (h, i, s) in enumerate(sfla):
        guarded = False
        for (sbb, discr, vals, neg) in h.conditions_at(i):
            d = mir.provenance(h, discr, follow_all_call_args=True)
            if any(c.callee.endswith('Affiliate::registered') for c in d.calls):
                tr = truth_of(vals, neg)
                if any(op == 'Not' for op, _ in d.binops):
                    tr = not tr
                if not tr:
                    guarded = True
        how = 'the adjustment row is built only on the not-registered edge of the receiving affiliate'
        if not guarded and h.kind in ('Fn', 'AssocFn') and h is not g:
            # a helper that builds one row: the test is made by whoever calls it
            sites = [c for c in prog.callers.get(h.name, []) if not mir.is_testsupport(c.fn.name) and not c.inlined]

            def site_guarded(c):
                for (sbb, discr, vals, neg) in c.fn.conditions_at(c.bb):
                    d = mir.provenance(c.fn, discr, follow_all_call_args=True)
                    if any(x.callee.endswith('Affiliate::registered') for x in d.calls):
                        tr = truth_of(vals, neg)
                        if len([1 for op, _ in list(d.binops) + list(d.unops) if op == 'Not']) % 2 == 1:
                            tr = not tr
                        if not tr:
                            return True
                return c.fn.kind == 'Closure' and mir.filter_guarantees(prog, c.fn, reg_atom).get('registered') is False
            if sites and all(site_guarded(c) for c in sites):
                guarded = True
                how = 'the helper building the row is called only on the not-registered edge of the receiving affiliate (%d call site(s))' % len(sites)
        if not guarded and h.kind == 'Closure' and mir.filter_guarantees(prog, h, reg_atom).get('registered') is False:
            guarded = True
            how = 'the row is built by a map over items that passed a filter keeping only not-registered affiliates'
        if h.kind == 'Closure':
            # built by a closure of an iterator chain: nothing but `filter` may shorten the chain (take_while / skip / take / step_by
            # would leave qualifying affiliates without their adjustment, so part of the denied loss is carried nowhere)
            cut = []
            for (par, hc, ai) in mir.handed_to(prog, h):
                if ai >= 1 and hc.decl.startswith('std::iter::') and hc.short in ('map_while', 'take_while', 'skip_while', 'scan'):
                    cut.append(hc)       # the row constructor itself decides where the chain ends
                if ai >= 1 and hc.decl.startswith('std::iter::'):
                    src = mir.provenance(par, hc.args[0], follow_all_call_args=False,
                                         pass_through=mir.PASS_THROUGH | {'map', 'filter', 'into_iter', 'iter', 'enumerate', 'rev', 'copied', 'cloned',
                                                                          'take_while', 'skip_while', 'take', 'skip', 'step_by', 'map_while', 'peekable'})
                    cut += [x for x in src.calls if x.short in ('take_while', 'skip_while', 'take', 'skip', 'step_by', 'map_while') and x.decl.startswith('std::iter::')]
            if cut:
                rep.violation('R3a', 'sfla-row-for-every-affiliate#%d' % (n + 1), where=cut[0].where(), fn=h.name,
                              detail='the affiliates receiving an adjustment pass through %s(): affiliates after the cut get no row although they '
                                     'took part in the re-purchase — their share of the denied loss is added to no cost base' % cut[0].short)
            else:
                rep.ok('R3a', 'sfla-row-for-every-affiliate#%d' % (n + 1), where=h.where(s), fn=h.name,
                       detail='the iterator chain feeding the row constructor is shortened by filter predicates only', trivial=True)
        k = 'sfla-only-for-non-registered#%d' % (n + 1)
        if guarded:
            rep.ok('R3a', k, where=h.where(s), fn=h.name, detail=how)
        else:
            rep.violation('R3a', k, where=h.where(s), fn=h.name,
                          detail='an automatic cost-base adjustment can be generated for a registered affiliate (no dominating !registered() test)')
        # R3d: amount depends on the denied amount and the affiliate's ratio
        inner = None
        for b2 in h.blocks.values():
            for s2 in b2['stmts']:
                if s2['r']['rv'] == 'agg' and s2['r']['kind'].endswith('SflaTxSpecifics::SflaTxSpecifics'):
                    inner = s2
        if inner is not None:
            for name, o in zip(inner['r'].get('fields', []), inner['r']['ops']):
                if name == 'amount_per_share':
                    org = mir.provenance(h, o, follow_all_call_args=True) if h is g else mir.deep_origins(prog, h, o, depth=5)
                    fs = {fl for of, fl in org.fields}
                    has_ratio = 'acb_adjust_affiliate_ratios' in fs
                    has_amount = org.has_call(r'mul_pos$') or 'sfl_ratio' in fs
                    k2 = 'sfla-amount-inputs#%d' % (n + 1)
                    if has_ratio and has_amount:
                        rep.ok('R3d', k2, where=h.where(inner), fn=h.name, detail='depends on the computed denied amount and on acb_adjust_affiliate_ratios[affiliate]')
                    else:
                        rep.violation('R3d', k2, where=h.where(inner), fn=h.name,
                                      detail='the generated adjustment amount does not depend on %s' % ('the affiliate\'s ratio' if not has_ratio else 'the computed denied amount'))
    # ------------------------------------------------------------------ R3c: specified loss -> no automatic rows
    entry = None
    for i, b in g.blocks.items():
        tm = b['term']
        if tm and tm['t'] == 'switch':
            d = mir.provenance(g, tm['discr'], follow_all_call_args=True)
            if any(fl == 'specified_superficial_loss' for of, fl in d.fields) and not any(fl == 'force' for of, fl in d.fields) and entry is None:
                some_t = [tg for v, tg in tm['targets'] if v == 1] or [tm['otherwise']]
                entry = some_t[0]
    if entry is None:
        rep.violation('R3c', 'anchor-lost:specified-branch', fn=g.name, detail='anchor lost: branch on the user-specified superficial loss')
    else:
        region = {b for b in g.blocks if g.dominates(entry, b)}
        pushes = [c for c in g.calls if c.bb in region and c.short in ('push', 'extend', 'insert', 'append') and 'model::tx::Tx' in g.ty.get(c.arg_local(0), '')]
        built = [s for (h, i, s) in sfla if h is g and i in region]
        # helpers reached from the specified-loss branch that build adjustment rows
        for c in g.calls:
            hh = prog.resolve(c.callee, g.crate)
            if c.bb in region and hh is not None and not c.inlined:
                sub = {hh.name} | {x.name for x in prog.callees_closure([getattr(hh, 'origin', hh)]).values()}
                built += [s for (h, i, s) in sfla if prog.owner_of(h).name in sub]
        if pushes or built:
            w = pushes[0].where() if pushes else g.where(built[0])
            rep.violation('R3c', 'specified-loss-suppresses-automatic-adjustments', where=w, fn=g.name,
                          detail='automatic adjustment rows are generated although the user supplied the superficial loss (the adjustment would be applied twice)')
        else:
            rep.ok('R3c', 'specified-loss-suppresses-automatic-adjustments', fn=g.name, detail='no adjustment row is built or pushed in the specified-loss branch (%d blocks)' % len(region))

    # ------------------------------------------------------------------ R3b: inserted right after the sale, evaluated next
    ins = [c for c in t.calls if c.short == 'insert' and re.search(r'vec::Vec', c.callee) and 'model::tx::Tx' in t.ty.get(c.arg_local(0), '')]
    # the same insertion written as  tail = list.split_off(i + 1); list.extend(new); list.extend(tail)
    splices = []
    for c in t.calls:
        if c.short == 'split_off' and re.search(r'vec::Vec', c.callee) and 'model::tx::Tx' in t.ty.get(c.arg_local(0), '') and len(c.args) > 1:
            exts = [x for x in t.calls if x.short in ('extend', 'append') and 'model::tx::Tx' in t.ty.get(x.arg_local(0), '') and t.dominates(c.bb, x.bb) and x.bb != c.bb]
            exts.sort(key=lambda x: sum(1 for y in exts if t.dominates(y.bb, x.bb)))
            splices.append((c, exts))
    # ... or as  list.splice(i + 1..i + 1, new)
    range_splices = [c for c in t.calls if c.short == 'splice' and re.search(r'vec::Vec', c.callee) and 'model::tx::Tx' in t.ty.get(c.arg_local(0), '') and len(c.args) > 2]
    if not ins and not splices and not range_splices:
        rep.violation('R3b', 'anchor-lost:insert', fn=t.name, detail='anchor lost: insertion of generated transactions into the working list')
    # the loop counter: a user usize local compared with len() and incremented
    counters = set()
    for l in t.user:
        if t.ty.get(l) != 'usize':
            continue
        incs = [d for d in t.defs.get(l, []) if d[2] == 'stmt']
        for (bb, idx, kind, node) in incs:
            o = mir.provenance(t, node['r']['ops'][0]) if node['r'].get('ops') else None
            if o and l in o.locals and any(op.startswith('Add') for op, _ in o.binops) and any(v.startswith('1_') for (_, v, _) in o.consts):
                counters.add((l, bb))
    if not counters:
        rep.violation('R3b', 'anchor-lost:loop-counter', fn=t.name, detail='anchor lost: the index of the bookkeeping loop (i += 1)')
    for c in ins:
        o = mir.provenance(t, c.args[1], follow_all_call_args=True)
        users, consts, ops, _calls = mir.expr_leaves(t, c.args[1])
        uses_counter = any(l in users for (l, _) in counters)
        has_one = [v for v in consts if re.match(r'^\d+_usize$', v)] == ['1_usize']
        only_add = bool(ops) and all(op.startswith('Add') for op in ops)
        from_enum = o.has_call(r'Iterator::enumerate$') and len(users) == 2
        if uses_counter and has_one and only_add and from_enum:
            rep.ok('R3b', 'inserted-directly-after-the-sale', where=c.where(), fn=t.name, detail='insert position = i + k + 1 (loop index, enumerate index, constant 1; additions only)')
        else:
            rep.violation('R3b', 'inserted-directly-after-the-sale', where=c.where(), fn=t.name,
                          detail='generated adjustments are not inserted at position i + k + 1 of the working list (loop index: %s, +1: %s, additions only: %s)'
                                 % (uses_counter, has_one, bool(only_add)))
    # every path from the delta push back to the loop header passes the increment (no `continue`)
    pushes = [c for c in t.calls if c.short == 'push' and 'txdelta::TxDelta' in t.ty.get(c.arg_local(0), '')]
    for (l, inc_bb) in counters:
        if not pushes:
            break
        lp = t.loop_of(inc_bb)
        if lp is None:
            rep.violation('R3b', 'loop-advances-by-one', fn=t.name, detail='the index increment is not inside the bookkeeping loop')
            continue
        header = lp[0]
        if t.reaches(pushes[0].bb, header, avoid={inc_bb}):
            rep.violation('R3b', 'loop-advances-by-one', where=pushes[0].where(), fn=t.name,
                          detail='an iteration can return to the loop head without advancing the index (a `continue`): a transaction would be processed twice')
        else:
            rep.ok('R3b', 'loop-advances-by-one', fn=t.name, detail='every path from recording a delta back to the loop head passes the single `i += 1`')
    ls_name = anchors.ledger_step(prog).name if anchors.ledger_step(prog) else 'delta_for_tx'
    for (c, exts) in splices:
        users, consts, ops, _calls = mir.expr_leaves(t, c.args[1])
        uses_counter = any(l in users for (l, _) in counters)
        has_one = [v for v in consts if re.match(r'^\d+_usize$', v)] == ['1_usize']
        only_add = bool(ops) and all(op.startswith('Add') for op in ops)
        order_ok = False
        rows_ok = False
        if len(exts) == 2:
            first_src = mir.provenance(t, exts[0].args[1], follow_all_call_args=True)
            second_src = mir.provenance(t, exts[1].args[1], follow_all_call_args=True)
            order_ok = c in second_src.calls and c not in first_src.calls and t.dominates(exts[0].bb, exts[1].bb)
            rows_ok = first_src.has_call(re.escape(ls_name) + '$')
        if uses_counter and has_one and only_add and len(users) == 1 and order_ok:
            rep.ok('R3b', 'inserted-directly-after-the-sale', where=c.where(), fn=t.name,
                   detail='the list is split at i + 1, the generated rows are appended, then the split-off tail')
        else:
            rep.violation('R3b', 'inserted-directly-after-the-sale', where=c.where(), fn=t.name,
                          detail='generated adjustments are not spliced in at position i + 1 of the working list (loop index: %s, +1: %s, additions only: %s, '
                                 'new rows then tail: %s)' % (uses_counter, has_one, bool(only_add), order_ok))
        if rows_ok:
            rep.ok('R3b', 'inserted-rows-come-from-the-ledger-step', where=c.where(), fn=t.name, detail='the spliced rows are the ones delta_for_tx returned', trivial=True)
        else:
            rep.violation('R3b', 'inserted-rows-come-from-the-ledger-step', where=c.where(), fn=t.name, detail='rows spliced into the working list do not come from delta_for_tx')
    for c in range_splices:
        rd = t.single_def(c.arg_local(1)) if c.arg_local(1) is not None else None
        ends = []
        if rd and rd[2] == 'stmt' and rd[3]['r']['rv'] == 'agg' and rd[3]['r']['kind'].startswith('adt:std::ops::Range'):
            ends = rd[3]['r']['ops']
        ok_ends = len(ends) == 2
        lets = {l for l in t.user if t.ty.get(l) == 'usize' and t.single_def(l) is not None and l not in {x for (x, _) in counters}}
        for o in ends:
            users, consts, ops, _calls = mir.expr_leaves(t, o, through=lets)
            if not (any(l in users for (l, _) in counters) and len(users) == 1 and [v for v in consts if re.match(r'^\d+_usize$', v)] == ['1_usize'] and
                    ops and all(op.startswith('Add') for op in ops)):
                ok_ends = False
        if ok_ends and 'RangeInclusive' not in rd[3]['r']['kind']:
            rep.ok('R3b', 'inserted-directly-after-the-sale', where=c.where(), fn=t.name, detail='splice(i + 1..i + 1, rows): an empty range right after the current transaction')
        else:
            rep.violation('R3b', 'inserted-directly-after-the-sale', where=c.where(), fn=t.name,
                          detail='generated adjustments are not spliced in at the empty range i + 1..i + 1 of the working list')
        if mir.provenance(t, c.args[2], follow_all_call_args=True).has_call(re.escape(ls_name) + '$'):
            rep.ok('R3b', 'inserted-rows-come-from-the-ledger-step', where=c.where(), fn=t.name, detail='the spliced rows are the ones delta_for_tx returned', trivial=True)
        else:
            rep.violation('R3b', 'inserted-rows-come-from-the-ledger-step', where=c.where(), fn=t.name, detail='rows spliced into the working list do not come from delta_for_tx')
    # the generated rows come from delta_for_tx's result
    for c in ins:
        o = mir.provenance(t, c.args[2], follow_all_call_args=True)
        if o.has_call(re.escape(anchors.ledger_step(prog).name if anchors.ledger_step(prog) else 'delta_for_tx') + '$'):
            rep.ok('R3b', 'inserted-rows-come-from-the-ledger-step', where=c.where(), fn=t.name, detail='the inserted rows are the ones delta_for_tx returned', trivial=True)
        else:
            rep.violation('R3b', 'inserted-rows-come-from-the-ledger-step', where=c.where(), fn=t.name, detail='rows inserted into the working list do not come from delta_for_tx')

    # ------------------------------------------------------------------ R3f: the over-applied marker comes from the window computation only
    DSI = 'portfolio::model::txdelta::DeltaSflInfo'
    n_set = 0
    spec_region = {b for b in g.blocks if entry is not None and g.dominates(entry, b)}
    g_tree = {x.name for x in prog.callees_closure([getattr(g, 'origin', g)]).values() if x.name.startswith('portfolio::bookkeeping::')}

    def on_specified_branch(fn, bb, depth=0):
        """the block lies in the branch handling a user-specified loss: in g itself, or in a helper of g that is only called there"""
        if fn.name == g.name:
            return bb in spec_region
        owner = prog.owner_of(fn)
        if depth > 3 or owner.name not in g_tree:
            return False
        callers = [c for c in prog.callers.get(owner.name, []) if not mir.is_testsupport(c.fn.name) and not c.inlined]
        return bool(callers) and all(on_specified_branch(c.fn, c.bb, depth + 1) for c in callers)
    for fn in prog.product_fns():
        if fn.crate != 'acb' or fn.d['span']['exp'].startswith('m:'):
            continue    # derive(Clone/PartialEq/..) bodies copy the field verbatim
        for b in fn.blocks.values():
            for s in b['stmts']:
                dfs = mir.place_fields(s['dst'])
                if dfs and dfs[-1] == (DSI, 'potentially_over_applied'):
                    rep.violation('R3f', '%s|flag-overwritten' % fn.name, where=fn.where(s), fn=fn.name,
                                  detail='DeltaSflInfo.potentially_over_applied is overwritten after the superficial-loss computation: a sale whose denied loss is not '
                                         'fully re-added to a cost base could lose its "[1] potentially over-applied" marker')
                if s['r']['rv'] == 'agg' and s['r']['kind'].startswith('adt:' + DSI):
                    for name, o in zip(s['r'].get('fields', []), s['r']['ops']):
                        if name != 'potentially_over_applied':
                            continue
                        n_set += 1
                        k = '%s|flag-source#%d' % (alias_name(prog, fn), n_set)
                        if o['k'] == 'const':
                            if o.get('v') == 'false' and on_specified_branch(fn, [bi for bi, bb_ in fn.blocks.items() if bb_ is b][0]):
                                rep.ok('R3f', k, where=fn.where(s), fn=fn.name, detail='constant false on the user-specified branch (no automatic adjustment exists there)', trivial=True)
                            else:
                                rep.violation('R3f', k, where=fn.where(s), fn=fn.name, detail='the over-applied marker is a constant outside the user-specified branch')
                            continue
                        org = mir.provenance(fn, o, follow_all_call_args=False)
                        if any(fl == 'fewer_remaining_shares_than_sfl_shares' for of, fl in org.fields) and not org.binops:
                            rep.ok('R3f', k, where=fn.where(s), fn=fn.name, detail='marker = SflRatioResult.fewer_remaining_shares_than_sfl_shares, unmodified')
                        else:
                            rep.violation('R3f', k, where=fn.where(s), fn=fn.name,
                                          detail='the over-applied marker does not come (unmodified) from the window computation')
    if n_set == 0:
        rep.violation('R3f', 'anchor-lost:flag-construction', detail='anchor lost: construction of DeltaSflInfo')

    # ------------------------------------------------------------------ R3g: an empty status only for an affiliate with no recorded status
    PSS_T = 'portfolio::model::txdelta::PortfolioSecurityStatus'
    ctors = [g for g in prog.product_fns() if g.name.startswith('portfolio::bookkeeping::portfolio_status::') and
             g.kind in ('Fn', 'AssocFn') and g.ty.get(0, '') == PSS_T and
             any(st['r']['rv'] == 'agg' and st['r']['kind'].startswith('adt:' + PSS_T) for b in g.blocks.values() for st in b['stmts'])]
    if rep.anchor('constructor of an empty PortfolioSecurityStatus in portfolio_status', ctors):
        n_sites = 0
        for g in ctors:
            for c in prog.callers.get(g.name, []):
                if mir.is_testsupport(c.fn.name):
                    continue
                n_sites += 1
                fn = c.fn
                ok_edge = None
                opt_rx = re.compile(r'std::option::Option<.*PortfolioSecurityStatus')
                for (sbb, discr, vals, neg) in fn.conditions_at(c.bb):
                    d = mir.provenance(fn, discr, pass_through=set())
                    if not any(opt_rx.search(fn.ty.get(l, '')) for l in d.locals):
                        continue
                    none_edge = (vals == [0]) or (vals is None and neg is not None and 1 in neg)
                    if none_edge:
                        ok_edge = fn.where(fn.blocks[sbb]['term'])
                if ok_edge is None and fn.kind == 'Closure':
                    owner = prog.owner_of(fn)
                    for oc in owner.calls:
                        if oc.short in ('unwrap_or_else', 'map_or_else', 'or_else') and oc.arg_local(0) is not None and \
                                opt_rx.search(owner.ty.get(oc.arg_local(0), '')) and \
                                any(('closure:' + fn.local_name) in mir.provenance(owner, a).aggs for a in oc.args[1:] if is_place(a)):
                            ok_edge = oc.where() + ' (%s)' % oc.short
                k = '%s|empty-status-only-when-no-status-recorded#%d' % (fn.name, n_sites)
                if ok_edge:
                    rep.ok('R3g', k, where=c.where(), fn=fn.name,
                           detail='the empty status is built only on the None edge of the affiliate\'s last-status look-up (%s)' % ok_edge)
                else:
                    rep.violation('R3g', k, where=c.where(), fn=fn.name,
                                  detail='an empty status (zero shares, zero cost base) can be handed out for an affiliate that already has a recorded '
                                         'status: cost base booked on it (for example a denied loss added while it held no shares) is dropped, so the '
                                         'denied amount is no longer carried anywhere')
        if n_sites == 0:
            rep.violation('R3g', 'anchor-lost:empty-status-call-sites', detail='anchor lost: the empty-status constructor has no product caller')

    # ------------------------------------------------------------------ R3h: a recorded status is never dropped
    # the per-affiliate store of latest statuses (a map of Rc<PortfolioSecurityStatus> in portfolio_status) is only ever inserted into:
    # an affiliate with zero shares can carry cost base (a denied loss waiting for its re-purchase); clearing / removing entries loses it
    STORE_RX = re.compile(r'HashMap<.*std::rc::Rc<(portfolio::model::txdelta::)?PortfolioSecurityStatus>')
    n_store = 0
    for fn in prog.product_fns():
        if not fn.name.startswith('portfolio::bookkeeping::') or mir.is_testsupport(fn.name):
            continue
        for c in fn.calls:
            if not c.args or not is_place(c.args[0]):
                continue
            t0 = fn.ty.get(c.arg_local(0), '') or ''
            if not STORE_RX.search(t0) or not re.search(r'HashMap::<K, V', c.callee):
                continue
            n_store += 1
            if c.short in ('clear', 'remove', 'remove_entry', 'retain', 'drain', 'extract_if', 'take'):
                rep.violation('R3h', '%s|status-store-%s' % (fn.name, c.short), where=c.where(), fn=fn.name,
                              detail='the store of each affiliate\'s latest status is shrunk (%s): an affiliate without shares can still carry cost '
                                     'base (a denied loss added while it held nothing), which is then dropped and added to no later figure' % c.short)
    if n_store == 0:
        rep.violation('R3h', 'anchor-lost:status-store', detail='anchor lost: the per-affiliate map of latest statuses in portfolio::bookkeeping')
    elif not any(o.rule == 'R3h' and o.status == 'violation' for o in rep.obs):
        rep.ok('R3h', 'status-store-only-grows', fn='portfolio::bookkeeping', detail='%d uses of the per-affiliate status store, none removes or clears entries' % n_store)

    # ------------------------------------------------------------------ R3e: gain = loss - denied amount
    L = ledger.Ledger(prog)
    if L.ok:
        f = L.fn
        hit = False
        for (bb, node, kind) in L.assignments(L.gain_locals, L.region['Sell']):
            if kind != 'stmt':
                continue
            o = mir.provenance(f, node['r']['ops'][0], follow_all_call_args=True)
            if any(fl == 'superficial_loss' for of, fl in o.fields):
                hit = True
                subs = [c for c in o.calls if re.search(r'std::ops::Sub::sub$', c.decl) and c.bb in L.region['Sell']]
                good = False
                for c in subs:
                    a0 = mir.provenance(f, c.args[0], follow_all_call_args=True)
                    a1 = mir.provenance(f, c.args[1], follow_all_call_args=True)
                    if any(fl == 'superficial_loss' for of, fl in a1.fields) and not any(fl == 'superficial_loss' for of, fl in a0.fields):
                        good = True
                if good:
                    rep.ok('R3e', 'reported-gain-is-loss-minus-denied-amount', where=f.where(node), fn=f.name, detail='capital gain = loss - DeltaSflInfo.superficial_loss')
                else:
                    rep.violation('R3e', 'reported-gain-is-loss-minus-denied-amount', where=f.where(node), fn=f.name,
                                  detail='the denied amount is not subtracted from the loss when the sale\'s gain is reported')
        if not hit:
            rep.violation('R3e', 'anchor-lost:gain-with-sfl', fn=f.name, detail='anchor lost: the gain assignment that takes the denied amount into account')
