"""C05 / R5f: a capture group whose absence would panic takes part in every match of its pattern.

`caps.get(2).unwrap()`, `caps.name("fee").unwrap()`, `caps[2]`, and the same behind helper functions that receive the group
number / name as an argument (`h.dec_group("price")`): each such *required* access is resolved to the regular expression(s)
that produced the `Captures`, the pattern text is rebuilt from the constants of the program (through `concat!`, `lazy_static`,
`RegexBuilder`, `format!` templates whose holes are filled with constants), and the group must exist and be mandatory
(lib/regexgroups.py: not in an alternation branch, not under `?`, `*`, `{0,n}`). Otherwise a document that matches the pattern
without that group — a confirmation without a commission line — ends in a panic instead of a diagnostic.
"""
import re

import mir
import regexgroups as rg
from mir import is_place

ACCESS = re.compile(r"^regex::(bytes::)?Captures::<'\w+>::(get|name)$")
INDEXED = re.compile(r"^<regex::(bytes::)?Captures<'\w+> as std::ops::Index<")
CAPS_SRC = re.compile(r"^regex::(bytes::)?Regex::(captures|captures_iter|captures_at|captures_read|captures_read_at)$")
RX_NEW = re.compile(r'^regex::(bytes::)?(Regex|RegexBuilder)::new$')
OPT_FLOW = re.compile(r'^(std|core)::(option::Option|result::Result|ops::ControlFlow)\b|Try>::branch$|FromResidual|^<std::(option|result)::')
UNWRAP = re.compile(r'^std::option::Option::<.*>::(unwrap|expect|unwrap_unchecked)$')


def _opt_stop(c):
    # the Option of the group is followed through Option / Result plumbing only
    return not (OPT_FLOW.search(c.callee) or OPT_FLOW.search(c.decl) or c.short in ('branch', 'from_residual', 'map', 'map_err', 'ok', 'and_then', 'transpose', 'cloned', 'copied'))


def _uses(f, dst):
    """(required, returned) for the Option a group access produced"""
    t = mir.forward_taint(f, {dst}, stop=_opt_stop)
    req = [c for c in f.calls if UNWRAP.search(c.callee) and c.arg_local(0) in t]
    ret = 0 in t and ('Option<' in (f.ty.get(0, '') or ''))
    return req, ret


def _designator(f, operand):
    """('const', value) | ('param', n) | ('unknown', why)"""
    if operand.get('k') == 'const':
        return _const_desig(operand.get('ty', ''), operand.get('v', ''))
    o = mir.provenance(f, operand)
    consts = [(ty, v) for (ty, v, *_r) in o.consts]
    params = sorted(o.params)
    if len(consts) == 1 and not params and not [c for c in o.calls if c.short not in ('deref', 'as_str', 'borrow', 'as_ref')]:
        return _const_desig(*consts[0])
    if len(params) == 1 and not consts and f.kind in ('Fn', 'AssocFn'):
        return ('param', params[0])
    return ('unknown', 'the group designator is neither a constant nor a parameter')


def _const_desig(ty, v):
    if 'usize' in ty:
        m = re.match(r'^(\d+)', v)
        if m:
            return ('const', int(m.group(1)))
    if 'str' in ty:
        try:
            s = rg.decode_rust_str(v)
        except rg.Unsupported:
            s = None
        if s is not None:
            return ('const', s)
    return ('unknown', 'constant %s %s' % (ty, v[:30]))


class Summary:
    """per function: groups designated by a parameter that the function requires (REQ) / hands back as an Option (OPT);
    value = holder parameter (the parameter the Captures comes from)"""

    def __init__(self):
        self.req = {}
        self.opt = {}


def r5f(prog, rep, reach=None):
    fns = [f for f in prog.product_fns() if f.crate.startswith('acb')]
    concrete = []      # (f, call, designator value, holder operand, how)
    unknown = []
    summ = {}

    def holder_param(f, operand):
        o = mir.provenance(f, operand)
        ps = sorted(o.params)
        return ps[0] if len(ps) == 1 and not o.calls else None

    # base events
    for f in fns:
        for c in f.calls:
            idx = INDEXED.search(c.callee)
            if not (ACCESS.search(c.callee) or idx) or len(c.args) < 2:
                continue
            if idx:
                req, ret = [c], False
            else:
                req, ret = _uses(f, c.dst['l'])
            if not req and not ret:
                continue
            d = _designator(f, c.args[1])
            if d[0] == 'const':
                if req:
                    concrete.append((f, c, d[1], (f, c.args[0]), 'unwrapped here'))
                # an Option handed back for a constant group: the callers decide; followed below through OPT with a pseudo parameter
                if ret:
                    summ.setdefault(f.name, Summary()).opt[('const', d[1])] = holder_param(f, c.args[0])
            elif d[0] == 'param':
                s = summ.setdefault(f.name, Summary())
                hp = holder_param(f, c.args[0])
                if req:
                    s.req[d[1]] = hp
                if ret:
                    s.opt[d[1]] = hp
            elif req:
                unknown.append((f, c, d[1]))
    # propagate through helpers
    for _round in range(6):
        changed = False
        for f in fns:
            for c in f.calls:
                g = prog.resolve(c.callee, f.crate)
                if g is None or g.name not in summ or g is f:
                    continue
                sg = summ[g.name]
                for kind, table in (('req', sg.req), ('opt', sg.opt)):
                    for q, hq in list(table.items()):
                        if isinstance(q, tuple):
                            dq = q          # constant group fixed inside g
                        else:
                            if q - 1 >= len(c.args):
                                continue
                            dq = _designator(f, c.args[q - 1])
                        holder = (f, c.args[hq - 1]) if hq and hq - 1 < len(c.args) else None
                        if kind == 'req':
                            required, returned = True, False
                        else:
                            rq, returned = _uses(f, c.dst['l'])
                            required = bool(rq)
                        if not required and not returned:
                            continue
                        if dq[0] == 'const':
                            if required:
                                key = (f.name, c.bb, dq[1])
                                if not any((x[0].name, x[1].bb, x[2]) == key for x in concrete):
                                    concrete.append((f, c, dq[1], holder, 'through %s' % g.name.rsplit('::', 1)[-1]))
                                    changed = True
                            if returned:
                                s = summ.setdefault(f.name, Summary())
                                k2 = ('const', dq[1])
                                if k2 not in s.opt:
                                    s.opt[k2] = holder_param(f, holder[1]) if holder else None
                                    changed = True
                        elif dq[0] == 'param':
                            s = summ.setdefault(f.name, Summary())
                            hp = holder_param(f, holder[1]) if holder else None
                            if required and dq[1] not in s.req:
                                s.req[dq[1]] = hp
                                changed = True
                            if returned and dq[1] not in s.opt:
                                s.opt[dq[1]] = hp
                                changed = True
                        elif required:
                            if not any(u[0] is f and u[1] is c for u in unknown):
                                unknown.append((f, c, dq[1]))
        if not changed:
            break

    # ---------------------------------------------------------------- judge
    n = 0
    per_key = {}
    for (f, c, desig, holder, how) in concrete:
        if reach is not None and f.name not in reach and f.name.split('::{')[0] not in reach:
            continue
        n += 1
        k = '%s|required-group|%s' % (f.name.split('::{')[0], desig)
        res = per_key.setdefault(k, {'where': c.where(), 'fn': f.name, 'bad': [], 'pats': set(), 'how': how})
        pats, why = patterns_of(prog, holder[0], holder[1]) if holder else (None, 'the value holding the match could not be identified')
        if not pats:
            res['bad'].append((c.where(), 'the pattern that produced the match was not found (%s)' % why))
            continue
        for (ptxt, holes, pwhere) in pats:
            res['pats'].add(pwhere)
            try:
                G = rg.parse(ptxt)
            except rg.Unsupported as e:
                res['bad'].append((c.where(), 'pattern at %s not understood (%s)' % (pwhere, e)))
                continue
            g = G.by_index(desig) if isinstance(desig, int) else G.by_name(desig)
            if g is None:
                res['bad'].append((c.where(), 'the pattern at %s has no group %r: the access fails on every match' % (pwhere, desig)))
            elif not g.mandatory:
                res['bad'].append((c.where(), 'group %r of the pattern at %s is optional (%s): a text that matches without it panics here' % (desig, pwhere, g.why)))
            for (hv, hwhy) in holes:
                ok, note = rg.neutral(hv)
                if not ok:
                    res['bad'].append((c.where(), 'the pattern at %s is completed with %r, which has %s: the group structure is not the one written' % (pwhere, hv, note)))
                elif isinstance(desig, int) and not note.startswith('0 '):
                    res['bad'].append((c.where(), 'the pattern at %s is completed with %r, which adds capture groups and shifts the numbering' % (pwhere, hv)))
    for k, res in sorted(per_key.items()):
        if res['bad']:
            w, why = res['bad'][0]
            rep.violation('R5f', k, where=w, fn=res['fn'], detail=why)
        else:
            rep.ok('R5f', k, where=res['where'], fn=res['fn'], detail='mandatory in the pattern(s) at %s (%s)' % (', '.join(sorted(res['pats'])), res['how']))
    for (f, c, why) in unknown:
        if reach is not None and f.name not in reach and f.name.split('::{')[0] not in reach:
            continue
        n += 1
        rep.violation('R5f', '%s|required-group|?' % f.name.split('::{')[0], where=c.where(), fn=f.name,
                      detail='a capture group is required here (unwrap / index) but which one is not a constant: %s' % why)
    return n


# ---------------------------------------------------------------------------------------------------- pattern reconstruction
def patterns_of(prog, f, operand, depth=0):
    """patterns of the regular expression(s) whose match `operand` (a Captures, or a value built from one) holds.
    -> ([(pattern text, [(hole value, origin)], where)], why-not)"""
    o = mir.provenance(f, operand, follow_all_call_args=True)
    srcs = [x for x in o.calls if CAPS_SRC.search(x.callee)]
    out = []
    if srcs:
        for x in srcs:
            ps, why = regex_patterns(prog, f, x.args[0])
            if not ps:
                return None, why
            out += ps
        return out, ''
    if f.kind in ('Closure', 'SyntheticCoroutineBody') and o.upvars:
        owner, l = mir.owner_local_of_upvar(prog, f, operand)
        if owner is not None and l is not None:
            return patterns_of(prog, owner, {'k': 'copy', 'pl': {'l': l, 'p': []}}, depth)
    if o.params and depth < 4:
        # a closure (or a function value) handed to an iterator / Option adaptor: its item comes out of the adaptor's receiver
        recv = []
        if f.kind == 'Closure' and not (o.params & {1}):
            recv = [(parent, hc.args[0]) for (parent, hc, ai) in mir.handed_to(prog, f) if ai >= 1 and hc.args and
                    (hc.decl.startswith('std::iter::') or hc.decl.startswith('std::option::Option::'))]
        elif f.kind in ('Fn', 'AssocFn'):
            for g in prog.product_fns():
                if g.crate != f.crate:
                    continue
                for hc in g.calls:
                    if (hc.decl.startswith('std::iter::') or hc.decl.startswith('std::option::Option::')) and len(hc.args) > 1 and \
                            any(a.get('k') == 'const' and f.name.split('::')[-1] in (a.get('ty', '') + a.get('v', '') + a.get('def', '')) and
                                f.name in (a.get('def', '') or a.get('ty', '') or '') for a in hc.args[1:]):
                        recv.append((g, hc.args[0]))
        if recv:
            for (g, op) in recv:
                ps, why = patterns_of(prog, g, op, depth + 1)
                if not ps:
                    return None, why
                out += ps
            return out, ''
        sites = [s for s in prog.callers.get(f.name, []) if not mir.is_testsupport(s.fn.name) and not s.inlined]
        if not sites:
            return None, 'no caller of %s' % f.name
        for s in sites:
            for p in sorted(o.params):
                if p - 1 < len(s.args):
                    ps, why = patterns_of(prog, s.fn, s.args[p - 1], depth + 1)
                    if not ps:
                        return None, why
                    out += ps
        return out, ''
    return None, 'no Regex::captures* call among its origins'


def regex_patterns(prog, f, operand, depth=0):
    o = mir.provenance(f, operand, follow_all_call_args=True)
    out = []
    news = [x for x in o.calls if RX_NEW.search(x.callee)]
    for x in news:
        ps, why = pattern_texts(prog, f, x.args[0], x.where())
        if ps is None:
            return None, why
        out += ps
    for x in o.calls:
        m = re.match(r'^<(.+) as std::ops::Deref>::deref$', x.callee)
        if m and x.decl.endswith('Deref::deref'):
            inits = [g for g in prog.fns.values() if g.name.startswith('<%s as std::ops::Deref>::deref::' % m.group(1))]
            for g in inits:
                for y in g.calls:
                    if RX_NEW.search(y.callee):
                        ps, why = pattern_texts(prog, g, y.args[0], y.where())
                        if ps is None:
                            return None, why
                        out += ps
    if out:
        return out, ''
    if f.kind in ('Closure', 'SyntheticCoroutineBody') and o.upvars:
        owner, l = mir.owner_local_of_upvar(prog, f, operand)
        if owner is not None and l is not None:
            return regex_patterns(prog, owner, {'k': 'copy', 'pl': {'l': l, 'p': []}}, depth)
    if o.params and depth < 3:
        sites = [s for s in prog.callers.get(f.name, []) if not mir.is_testsupport(s.fn.name) and not s.inlined]
        for s in sites:
            for p in sorted(o.params):
                if p - 1 < len(s.args):
                    ps, why = regex_patterns(prog, s.fn, s.args[p - 1], depth + 1)
                    if not ps:
                        return None, why
                    out += ps
        if out:
            return out, ''
    return None, 'the Regex is not built by Regex::new / RegexBuilder::new from constants in reach'


def pattern_texts(prog, f, operand, where):
    """-> [(text with holes as (?:HOLE), [(hole value, origin)], where)] or (None, why)"""
    if operand.get('k') == 'const':
        s = rg.decode_rust_str(operand.get('v', ''))
        return ([(s, [], where)], '') if s is not None else (None, 'constant pattern not decodable')
    o = mir.provenance(f, operand, follow_all_call_args=True)
    fmt = [x for x in o.calls if x.callee.startswith('std::fmt::Arguments::') and x.short in ('new', 'new_const', 'new_v1', 'from_str')]
    if not fmt:
        strs = [(ty, v) for (ty, v, *_r) in o.consts if 'str' in ty]
        if o.params or not strs:
            return None, 'the pattern text is not a constant of this function'
        out = []
        for ty, v in strs:
            try:
                s = rg.decode_rust_str(v)
            except rg.Unsupported as e:
                return None, str(e)
            if s is None:
                return None, 'constant pattern not decodable'
            out.append((s, [], where))
        return out, ''
    out = []
    for x in fmt:
        to = mir.provenance(f, x.args[0])
        tpl = [(ty, v) for (ty, v, *_r) in to.consts if v.startswith('b"') or v.startswith('"')]
        if len(tpl) != 1:
            return None, 'format template not found'
        try:
            if tpl[0][1].startswith('b"'):
                pieces = rg.template_pieces(rg.decode_rust_bytes(tpl[0][1]))
            else:
                pieces = [('lit', rg.decode_rust_str(tpl[0][1]))]
        except (rg.Unsupported, IndexError, ValueError) as e:
            return None, 'format template not decodable (%s)' % e
        text = ''.join(p[1] if p[0] == 'lit' else '(?:%s)' % rg.HOLE for p in pieces)
        holes = []
        if len(x.args) > 1:
            vals, why = leaf_strings(prog, f, x.args[1])
            if vals is None:
                return None, why
            holes = vals
        out.append((text, holes, where))
    return out, ''


def leaf_strings(prog, f, operand, depth=0, _seen=None):
    """every constant text that can end up in the value (format arguments, nested format! pieces, parameters resolved at the
    callers) -> [(text, origin)] or (None, why)"""
    _seen = _seen if _seen is not None else set()
    key = (f.name, repr(operand))
    if key in _seen:
        return [], ''
    _seen.add(key)
    o = mir.provenance(f, operand, follow_all_call_args=True)
    out = []
    for (ty, v, *_r) in o.consts:
        if v.startswith('b"'):
            try:
                for p in rg.template_pieces(rg.decode_rust_bytes(v)):
                    if p[0] == 'lit':
                        out.append((p[1], f.name))
            except (rg.Unsupported, IndexError, ValueError) as e:
                return None, 'nested template not decodable (%s)' % e
        elif 'str' in ty:
            try:
                s = rg.decode_rust_str(v)
            except rg.Unsupported as e:
                return None, str(e)
            if s is not None:
                out.append((s, f.name))
    for c in o.calls:
        if not c.args and not c.arg_locals():
            return None, 'part of the pattern is produced by %s' % c.callee
    if o.upvars and f.kind in ('Closure', 'SyntheticCoroutineBody'):
        return None, 'part of the pattern is a captured variable'
    if o.params:
        if depth >= 3:
            return None, 'parameter chain too deep'
        sites = [s for s in prog.callers.get(f.name, []) if not mir.is_testsupport(s.fn.name) and not s.inlined]
        if not sites:
            return None, 'no caller of %s' % f.name
        for s in sites:
            for p in sorted(o.params):
                if p - 1 < len(s.args):
                    vs, why = leaf_strings(prog, s.fn, s.args[p - 1], depth + 1, _seen)
                    if vs is None:
                        return None, why
                    out += vs
    return out, ''
