"""Runs the compile-fail witnesses of /verif/witnesses against the repository under analysis (thorough tier, C04)."""
import os
import re
import shutil
import subprocess
import sys

HERE = os.path.dirname(os.path.abspath(__file__))
VERIF = os.path.dirname(HERE)
sys.path.insert(0, HERE)
import facts  # noqa: E402


def run(repo):
    work = os.path.join(facts.BUILD, 'witnesses-run')
    if os.path.exists(work):
        shutil.rmtree(work)
    os.makedirs(os.path.join(work, 'src'))
    shutil.copy(os.path.join(VERIF, 'witnesses', 'src', 'lib.rs'), os.path.join(work, 'src', 'lib.rs'))
    with open(os.path.join(VERIF, 'witnesses', 'Cargo.toml.in')) as f:
        toml = f.read().replace('@REPO@', os.path.abspath(repo))
    with open(os.path.join(work, 'Cargo.toml'), 'w') as f:
        f.write(toml)
    shutil.copy(os.path.join(repo, 'Cargo.lock'), os.path.join(work, 'Cargo.lock'))
    env = dict(os.environ)
    env.update({'CARGO_NET_OFFLINE': 'true', 'CARGO_TARGET_DIR': os.path.join(facts.BUILD, 'target-witnesses'),
                'RUSTC_WRAPPER': facts.WRAPPER, 'RUSTFLAGS': '-Awarnings', 'RUSTDOCFLAGS': '-Awarnings'})
    env.pop('RUSTC_WORKSPACE_WRAPPER', None)
    p = subprocess.run(['cargo', '+nightly', 'test', '--doc', '--offline'], cwd=work, env=env,
                       stdout=subprocess.PIPE, stderr=subprocess.STDOUT, text=True)
    out = p.stdout
    tests = re.findall(r'test (src/lib\.rs - \S+ \(line \d+\)(?: - compile fail)?) \.\.\. (\w+)', out)
    failures = []
    results = []
    for name, res in tests:
        results.append({'witness': name, 'result': res})
        if res != 'ok':
            kind = 'compile_fail witness now COMPILES (encapsulation weakened)' if 'compile fail' in name else 'compiling twin no longer compiles (witness path broken)'
            failures.append('%s: %s' % (name, kind))
    if len(tests) < 8:
        failures.append('expected 8 doc tests (4 witnesses + 4 twins), ran %d: %s' % (len(tests), out[-600:]))
    shutil.rmtree(work, ignore_errors=True)
    return {'witnesses': results, 'failures': failures}


if __name__ == '__main__':
    import json
    print(json.dumps(run(sys.argv[1] if len(sys.argv) > 1 else facts.REPO), indent=1))
