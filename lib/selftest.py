"""Checker self-validation (thorough tier): every rule must report its seeded mutants — naming the mutated
instance — and stay silent on behaviour-preserving rewrites.  DESIGN.md section 2 (E4) and section 8.

Each variant is analysed in a scratch copy of the repository under analysis (outside /repo and /verif), which is
deleted together with its fact files as soon as it has been analysed."""
import json
import os
import shutil
import subprocess
import sys
import tempfile
import time

HERE = os.path.dirname(os.path.abspath(__file__))
VERIF = os.path.dirname(HERE)
sys.path.insert(0, HERE)

import facts  # noqa: E402
import mir  # noqa: E402


def _copy_repo(repo, dst):
    os.makedirs(dst, exist_ok=True)
    subprocess.check_call(['rsync', '-a', '--delete', '--exclude', 'target', '--exclude', '.git', '--exclude', 'www/node_modules',
                           '--exclude', '_seed', repo.rstrip('/') + '/', dst + '/'])


def _apply(dst, patch):
    p = subprocess.run(['patch', '-p1', '-s', '--no-backup-if-mismatch', '-i', patch], cwd=dst, stdout=subprocess.PIPE, stderr=subprocess.STDOUT, text=True)
    return p.returncode == 0, p.stdout[-400:]


def _analyse(pid, scratch):
    import check
    fdir = facts.ensure('default', scratch)
    try:
        prog = mir.Program(fdir)
        rep, mod = check.run_property(pid, prog, 'default', 'quick')
        return [o for o in rep.obs if o.status == check.VIOLATION]
    finally:
        shutil.rmtree(fdir, ignore_errors=True)


def run_for(pid, repo):
    t0 = time.time()
    idx_path = os.path.join(VERIF, 'mutants', 'index.json')
    idx = json.load(open(idx_path)) if os.path.exists(idx_path) else {'mutants': {}, 'benign': {}}
    variants = []
    for name, m in sorted(idx['mutants'].items()):
        if m['property'] == pid:
            variants.append(('mutant', name, os.path.join(VERIF, 'mutants', name + '.patch'), m['expect_key_substrings']))
    sdir = os.path.join(VERIF, 'seeded')
    if os.path.isdir(sdir):
        for d in sorted(os.listdir(sdir)):
            mp = os.path.join(sdir, d, 'meta.json')
            if os.path.exists(mp):
                meta = json.load(open(mp))
                if pid in meta.get('caught_by', {}):
                    variants.append(('seeded', d, os.path.join(sdir, d, 'patch.diff'), meta['caught_by'][pid]))
    for name in sorted(idx['benign']):
        variants.append(('benign', name, os.path.join(VERIF, 'mutants', name + '.patch'), None))
    # independently produced behaviour-preserving refactoring patches (DESIGN 8.7); the ones listed in SILENT are part of every self-test
    sil = os.path.join(VERIF, 'benign_ext', 'SILENT')
    if os.path.exists(sil):
        for b in open(sil).read().split():
            variants.append(('benign', 'benign_ext/' + b, os.path.join(VERIF, 'benign_ext', b, 'patch.diff'), None))
    known = {k['key'] for k in json.load(open(os.path.join(VERIF, 'known_findings.json')))['findings'] if k.get('status') == 'known'}

    root = tempfile.mkdtemp(prefix='acbverif-selftest-', dir=os.environ.get('ACB_SCRATCH', tempfile.gettempdir()))
    scratch = os.path.join(root, 'repo')
    results = []
    failures = []
    applied = 0
    try:
        for kind, name, patch, expect in variants:
            _copy_repo(repo, scratch)
            ok, msg = _apply(scratch, patch)
            if not ok:
                results.append({'variant': name, 'kind': kind, 'outcome': 'skipped: patch no longer applies to the tree under analysis'})
                continue
            try:
                viol = _analyse(pid, scratch)
            except Exception as e:
                results.append({'variant': name, 'kind': kind, 'outcome': 'skipped: variant does not compile (%s)' % str(e)[:80]})
                continue
            applied += 1
            keys = [o.key for o in viol if o.key not in known]
            if kind == 'benign':
                if keys:
                    failures.append('benign variant %s raised %s' % (name, keys[:3]))
                    results.append({'variant': name, 'kind': kind, 'outcome': 'FALSE ALARM', 'keys': keys[:5]})
                else:
                    results.append({'variant': name, 'kind': kind, 'outcome': 'silent (as required)'})
            else:
                hit = [k for k in keys if all(sub in k for sub in expect)]
                if hit:
                    results.append({'variant': name, 'kind': kind, 'outcome': 'reported', 'key': hit[0]})
                else:
                    failures.append('%s %s was not reported (expected a key containing %s; got %s)' % (kind, name, expect, keys[:3]))
                    results.append({'variant': name, 'kind': kind, 'outcome': 'MISSED', 'expected': expect, 'got': keys[:5]})
    finally:
        shutil.rmtree(root, ignore_errors=True)
    n_mut = len([v for v in variants if v[0] != 'benign'])
    if n_mut and not [r for r in results if r['kind'] != 'benign' and r['outcome'] == 'reported']:
        failures.append('self-test vacuous: none of the %d mutants of %s could be applied and analysed' % (n_mut, pid))
    return {'variants': len(variants), 'analysed': applied, 'results': results, 'failures': failures, 'wall_s': round(time.time() - t0, 1)}


if __name__ == '__main__':
    r = run_for(sys.argv[1], sys.argv[2] if len(sys.argv) > 2 else facts.REPO)
    print(json.dumps(r, indent=1))
    sys.exit(1 if r['failures'] else 0)
