"""Lexicographic comparison chains.

`chain_of_fn(prog, fn)` evaluates the value returned by a comparison function (Ord::cmp, PartialOrd::partial_cmp, a sort_by closure,
a helper) to the list of key pairs it compares, in order: [(left key, right key), ...].  A key is (parameter index, field path) in terms
of the parameters of `fn`.  The recognised forms are the ones a lexicographic order can be written in:

    a.cmp(&b) / a.partial_cmp(&b)                                   one pair
    match X { Less | Greater => X, Equal => Y }                     X then Y   (Y only under the Equal outcome of X)
    X.then_with(|| Y), X.then(Y)                                    X then Y
    Some(X), X.unwrap(), X.expect(..)                               X
    helper(args) / self.cmp(other) resolved to a function of the crate    the chain of the callee, parameters bound to the arguments

Anything else (a constant outcome, a comparison under another condition, `reverse`, an argument that is not a field path of a
parameter) evaluates to None: the function is not a plain lexicographic chain over fields of its parameters."""
import mir
from mir import is_place

ORDERING_EQUAL = 0
TRANSPARENT = {'clone', 'deref', 'borrow', 'as_ref', 'to_owned', 'as_deref', 'as_str', 'as_slice'}


class Ctx:
    def __init__(self, prog, fn, bind=None, captures=None, owner=None, stack=()):
        self.prog, self.fn, self.bind, self.captures, self.owner, self.stack = prog, fn, bind, captures, owner, stack


def _fields(pl):
    """field path of a place, derefs dropped; None when it has an index / downcast projection"""
    out = []
    for e in pl['p']:
        if e == '*':
            continue
        if isinstance(e, dict) and 'f' in e:
            out.append(e['f'])
        else:
            return None
    return tuple(out)


def key_of(ctx, pl, suffix=()):
    """component-precise origin of a place: (parameter of the outermost function, field path) or None"""
    fs = _fields(pl)
    if fs is None:
        return None
    fn, l, path = ctx.fn, pl['l'], fs + tuple(suffix)
    for _ in range(64):
        if fn.kind in ('Closure', 'SyntheticCoroutineBody') and l == 1:
            if not path or ctx.captures is None or not path[0].isdigit() or int(path[0]) >= len(ctx.captures):
                return None
            op = ctx.captures[int(path[0])]
            return key_of(ctx.owner, op['pl'], path[1:]) if is_place(op) else None
        if fn.is_param(l):
            if ctx.bind is None:
                return (l, path)
            b = ctx.bind.get(l)
            return key_of(b[0], b[1], path) if b else None
        d = fn.single_def(l)
        if d is None:
            return None
        bb, idx, kind, node = d
        if kind == 'stmt':
            r = node['r']
            if r['rv'] in ('use', 'cast') and is_place(r['ops'][0]):
                src = r['ops'][0]['pl']
            elif r['rv'] == 'ref':
                src = r['pl']
            elif r['rv'] == 'agg' and path:
                if r['kind'] == 'tuple' or r['kind'].startswith('tuple'):
                    i = int(path[0]) if path[0].isdigit() else None
                elif r.get('fields') and path[0] in r['fields']:
                    i = r['fields'].index(path[0])
                else:
                    i = None
                if i is None or i >= len(r['ops']) or not is_place(r['ops'][i]):
                    return None
                src, path = r['ops'][i]['pl'], path[1:]
            else:
                return None
        else:
            c = fn.call_at[bb]
            if c.short in TRANSPARENT and c.args and is_place(c.args[0]) and ctx.prog.resolve(c.callee, fn.crate) is None:
                src = c.args[0]['pl']
            else:
                return None
        fs = _fields(src)
        if fs is None:
            return None
        l, path = src['l'], fs + path
    return None


def _closure_of(ctx, op):
    """(closure Fn, capture operands) for an operand holding a closure built in ctx.fn"""
    if not is_place(op) or op['pl']['p']:
        return None, None
    d = ctx.fn.single_def(op['pl']['l'])
    if d is None or d[2] != 'stmt':
        return None, None
    r = d[3]['r']
    if r['rv'] == 'use' and is_place(r['ops'][0]):
        return _closure_of(ctx, r['ops'][0])
    if r['rv'] == 'agg' and r['kind'].startswith('closure:'):
        g = ctx.prog.by_crate[ctx.fn.crate].get(r['kind'][len('closure:'):])
        return g, r['ops']
    return None, None


def chain_of(ctx, local, depth=0):
    """the comparison chain held by `local` of ctx.fn, or None"""
    if depth > 24:
        return None
    fn = ctx.fn
    defs = fn.defs.get(local, [])
    if not defs or any(d[3]['dst']['p'] for d in defs):
        return None
    chains = []
    for d in defs:
        ch = _chain_def(ctx, d, depth)
        if ch is None:
            return None
        chains.append((d, ch))
    distinct = []
    for _, ch in chains:
        if ch not in distinct:
            distinct.append(ch)
    if len(distinct) == 1:
        return distinct[0]
    if len(distinct) != 2:
        return None
    # match X { Less | Greater => X, Equal => Y }
    for x, y in ((distinct[0], distinct[1]), (distinct[1], distinct[0])):
        ok = True
        for d, ch in chains:
            if ch != y:
                continue
            confined = False
            for (sbb, discr, vals, neg) in fn.conditions_at(d[0]):
                # `if x != Equal { return x }` / `if x == Equal { y } else { x }`: the edge on which a bool test of x against Equal
                # says "equal"
                dl0 = mir.op_local(discr) if isinstance(discr, dict) and 'k' in discr else None
                dd0 = fn.single_def(dl0) if dl0 is not None else None
                if dd0 and dd0[2] == 'call':
                    tc = fn.call_at[dd0[0]]
                    isne, iseq = tc.decl.endswith('PartialEq::ne'), tc.decl.endswith('PartialEq::eq')
                    if (isne or iseq) and len(tc.args) == 2 and 'cmp::Ordering' in (fn.ty.get(tc.arg_local(0), '') or ''):
                        truth = (vals != [0]) if vals is not None else (0 in (neg or []))
                        says_equal = (iseq and truth) or (isne and not truth)
                        other = mir.provenance(fn, tc.args[1])
                        def const_is_equal(v):
                            if 'Ordering::Equal' in str(v) or str(v).strip() in ('Equal', 'const Equal'):
                                return True
                            pf = ctx.prog.fns.get(str(v))        # a promoted constant: its body builds the value
                            return pf is not None and any(st['r']['rv'] == 'agg' and st['r']['kind'].endswith('cmp::Ordering::Equal')
                                                          for b in pf.blocks.values() for st in b['stmts'])
                        is_equal_const = any(const_is_equal(v) or const_is_equal(r[0] if r else '') for (_t, v, *r) in other.consts) or \
                            (tc.args[1].get('k') == 'const' and const_is_equal(tc.args[1].get('v', '')))
                        if says_equal and is_equal_const:
                            src = mir.provenance(fn, tc.args[0], pass_through={'deref', 'borrow'})
                            if any(chain_of(ctx, l, depth + 1) == x for l in src.locals if l != dl0):
                                confined = True
                    continue
                if neg or vals != [ORDERING_EQUAL]:
                    continue
                dl = mir.op_local(discr) if isinstance(discr, dict) and 'k' in discr else None
                dd = fn.single_def(dl) if dl is not None else None
                if dd and dd[2] == 'stmt' and dd[3]['r']['rv'] == 'discr' and not _fields(dd[3]['r']['pl']):
                    if chain_of(ctx, dd[3]['r']['pl']['l'], depth + 1) == x:
                        confined = True
            if not confined:
                ok = False
        if ok:
            return x + y
    return None


def _chain_def(ctx, d, depth):
    fn, prog = ctx.fn, ctx.prog
    bb, idx, kind, node = d
    if kind == 'stmt':
        r = node['r']
        if r['rv'] == 'use' and is_place(r['ops'][0]) and _fields(r['ops'][0]['pl']) == ():
            return chain_of(ctx, r['ops'][0]['pl']['l'], depth + 1)
        if r['rv'] == 'agg' and r['kind'].endswith('Option::Some') and len(r['ops']) == 1 and is_place(r['ops'][0]) \
                and _fields(r['ops'][0]['pl']) == ():
            return chain_of(ctx, r['ops'][0]['pl']['l'], depth + 1)
        return None
    c = fn.call_at[bb]
    g = prog.resolve(c.callee, fn.crate)
    if g is not None and g.kind in ('Fn', 'AssocFn'):
        if g.name in ctx.stack or len(ctx.stack) > 6 or g.argc != len(c.args) or not all(is_place(a) for a in c.args):
            return None
        if g.d['span']['exp'].startswith('m:'):
            return None       # a derived comparison: every field in declaration order, not a chain we can name
        sub = Ctx(prog, g, bind={i + 1: (ctx, a['pl']) for i, a in enumerate(c.args)}, stack=ctx.stack + (g.name,))
        return chain_of(sub, 0, depth + 1)
    if c.decl.endswith('::cmp') or c.decl.endswith('::partial_cmp'):
        if len(c.args) != 2 or not all(is_place(a) for a in c.args):
            return None
        kl, kr = key_of(ctx, c.args[0]['pl']), key_of(ctx, c.args[1]['pl'])
        if kl is None or kr is None:
            return None
        return [(kl, kr)]
    if c.short in ('unwrap', 'expect', 'unwrap_unchecked') and c.args and is_place(c.args[0]) and _fields(c.args[0]['pl']) == ():
        return chain_of(ctx, c.args[0]['pl']['l'], depth + 1)
    if c.decl.endswith('Ordering::then') and len(c.args) == 2 and all(is_place(a) and _fields(a['pl']) == () for a in c.args):
        x, y = chain_of(ctx, c.args[0]['pl']['l'], depth + 1), chain_of(ctx, c.args[1]['pl']['l'], depth + 1)
        return None if x is None or y is None else x + y
    if c.decl.endswith('Ordering::then_with') and len(c.args) == 2 and is_place(c.args[0]) and _fields(c.args[0]['pl']) == ():
        x = chain_of(ctx, c.args[0]['pl']['l'], depth + 1)
        g2, caps = _closure_of(ctx, c.args[1])
        if x is None or g2 is None:
            return None
        y = chain_of(Ctx(prog, g2, captures=caps, owner=ctx, stack=ctx.stack + (g2.name,)), 0, depth + 1)
        return None if y is None else x + y
    return None


def chain_of_fn(prog, fn):
    return chain_of(Ctx(prog, fn, stack=(fn.name,)), 0)


def fmt(chain):
    if chain is None:
        return 'not a lexicographic chain of comparisons over fields of the two arguments'
    return ' then '.join('%s <=> %s' % ('_%d.%s' % (a[0], '.'.join(a[1])), '_%d.%s' % (b[0], '.'.join(b[1]))) for a, b in chain)
